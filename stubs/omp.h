#ifndef STUB_OMP_H
#define STUB_OMP_H
int omp_get_thread_num(void); int omp_get_num_threads(void); int omp_get_max_threads(void);
void omp_set_num_threads(int); int omp_get_num_procs(void); double omp_get_wtime(void); int omp_in_parallel(void);
#endif
