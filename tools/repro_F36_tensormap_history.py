import numpy as np
from ImageD11.unitcell import unitcell
from ImageD11.sinograms.tensor_map import TensorMap
from ImageD11.grain import grain
rng=np.random.default_rng(1)
from scipy.spatial.transform import Rotation
R=Rotation.random(random_state=2).as_matrix()
Q=Rotation.random(random_state=3).as_matrix()
S=Q@np.diag([1.1,0.95,1.02])@Q.T
uc=unitcell([4.04,4.04,4.04,90,90,90])
B0=uc.B
F=R@S
# ub = F^-T . B0 ; ubi = inv(ub)
ub=np.linalg.inv(F).T@B0
ubi=np.linalg.inv(ub)
def tm(): return TensorMap(maps={'UBI': ubi.reshape(1,1,1,3,3).copy(), 'phase_ids': np.zeros((1,1,1),int)}, phases={0: uc})
a=tm().eps_sample[0,0,0]
t=tm(); t.eps_crystal; b=t.eps_sample[0,0,0]
g=grain(ubi)
print(abs(a-b).max(), abs(a-g.eps_sample_matrix(uc.lattice_parameters)).max(), abs(b-g.eps_sample_matrix(uc.lattice_parameters)).max())
t=tm(); t.eps_sample; c=t.eps_crystal[0,0,0]
print(abs(c-g.eps_grain_matrix(uc.lattice_parameters)).max(), abs(tm().eps_crystal[0,0,0]-g.eps_grain_matrix(uc.lattice_parameters)).max())
