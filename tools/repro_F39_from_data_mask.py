import numpy as np
from ImageD11 import sparseframe
bad=0
im = (np.arange(20,dtype=np.uint16).reshape(4,5)+100)
def chk(m, tag):
    global bad
    g = sparseframe.from_data_mask(m, im, {})
    sel = np.argwhere(m > 0)
    ok = g.nnz == len(sel) and np.array_equal(g.row, sel[:,0]) and np.array_equal(g.col, sel[:,1]) and np.array_equal(g.pixels['intensity'], im[m>0])
    print(tag, "ok" if ok else ("WRONG row %s col %s expected %s" % (g.row, g.col, sel.T.tolist())))
    bad += not ok
m = np.zeros((4,5),np.int32); m[1,2] = 256; m[2,3] = 1;  chk(m, "label image used as mask (value 256)")
m = np.zeros((4,5),np.int8);  m[1,2] = -1;  m[2,3] = 1;  chk(m, "int8 mask with a negative entry")
m = np.zeros((4,5),bool);     m[1,2] = True; m[3,4] = True; chk(m, "boolean mask")
m = np.zeros((4,5),np.uint8); m[0,0] = 200; m[3,4] = 1;  chk(m, "uint8 mask with 200")
raise SystemExit(1 if bad else 0)
