#!/venv/bin/python
"""compare a junit xml with BASELINE.json stable_pass: prints missing passes"""
import json, sys, xml.etree.ElementTree as ET
base = json.load(open('/root/.vp/BASELINE.json'))
want = set(base['stable_pass'])
t = ET.parse(sys.argv[1]).getroot()
got = set()
for tc in t.iter('testcase'):
    ok = not any(c.tag in ('failure', 'error', 'skipped') for c in tc)
    if ok:
        got.add('%s::%s' % (tc.get('classname'), tc.get('name')))
missing = sorted(want - got)
print('baseline %d, passed now %d, baseline tests not passing: %d' % (len(want), len(got), len(missing)))
for m in missing:
    print('  MISSING', m)
sys.exit(1 if missing else 0)
