#!/bin/sh
# tools/process_seed.sh <ID> <tag> "<needs>"  : confirm a seeded change, save it under seeded/<tag>, run all checks against it
ID=$1; TAG=$2; NEEDS=$3
/verif/tools/confirm_seed.sh $ID $TAG > /tmp/seed_out/$TAG/process.log 2>&1
cat /tmp/seed_out/$TAG/confirm_result.txt
/venv/bin/python /verif/tools/save_seed.py $TAG $ID "$NEEDS" "see caught_by_checks" >> /tmp/seed_out/$TAG/process.log 2>&1 || { echo "NOT SAVED (confirmation failed)"; exit 1; }
/venv/bin/python /verif/tools/seed_matrix.py $TAG 2>&1 | tail -1
