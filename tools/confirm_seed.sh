#!/bin/sh
# tools/confirm_seed.sh <ID> [tag]  : confirm a seeded change produced in /tmp/wt_seed_<ID> + /tmp/seed_out/<ID>
# 1. demo fails with the change, 2. passes without, 3. suite still matches the baseline with the change.
ID=$1; TAG=${2:-$1}
WT=/tmp/wt_seed_$TAG; OUT=/tmp/seed_out/$TAG
PY=/venv/bin/python
cd $WT || exit 9
git diff > $OUT/patch.confirmed.diff
[ -s $OUT/patch.confirmed.diff ] || { echo "no diff in $WT"; exit 9; }
TOUCHC=$(git diff --name-only | grep -c '^src/')
rebuild() { [ "$TOUCHC" -gt 0 ] && $PY setup.py build_ext --inplace > $OUT/confirm_build.log 2>&1; true; }
[ -f ImageD11/_cImageD11*.so ] || $PY setup.py build_ext --inplace > $OUT/confirm_build.log 2>&1
rebuild
DEMO=$OUT/demo.py; [ -f $DEMO ] || DEMO=$(ls $OUT/*demo*.py $OUT/test_*.py 2>/dev/null | head -1)
run_demo() { case $DEMO in *test_*.py) PYTHONPATH=$WT timeout 1800 $PY -m pytest -q -p no:cacheprovider $DEMO;; *) PYTHONPATH=$WT timeout 1800 $PY $DEMO;; esac; }
run_demo > $OUT/confirm_demo_with.log 2>&1; W=$?
# NB: git stash is shared between worktrees of one repository - revert/reapply with the saved diff instead
git apply -R $OUT/patch.confirmed.diff; rebuild
run_demo > $OUT/confirm_demo_without.log 2>&1; WO=$?
git apply $OUT/patch.confirmed.diff; rebuild
PYTHONPATH=$WT $PY -m pytest -q -p no:cacheprovider --timeout=900 --continue-on-collection-errors --junitxml=$OUT/confirm_junit.xml test > $OUT/confirm_suite.log 2>&1
$PY /verif/tools/compare_baseline.py $OUT/confirm_junit.xml > $OUT/confirm_baseline.txt 2>&1; B=$?
echo "ID=$ID tag=$TAG demo_with_change_exit=$W demo_without_exit=$WO baseline_cmp_exit=$B touched_c=$TOUCHC" | tee $OUT/confirm_result.txt
tail -1 $OUT/confirm_baseline.txt | head -1
