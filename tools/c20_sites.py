#!/venv/bin/python
"""tools/c20_sites.py [--write]  - discovery run of the C20 bounds ledger on /repo: lists every access that needs a row of the
PRECONDITION table (rules/c20_table.py), keyed by site 'function|array|access|statement[@dominating condition]', with the
number of accesses at that site.  --write freezes the list into rules/c20_sites.json (done once, after each row was
confirmed by reading; the check never writes it)."""
import collections
import json
import os
import sys

HERE = os.path.dirname(os.path.abspath(__file__))
VERIF = os.path.dirname(HERE)
sys.path.insert(0, VERIF)
from engine import bounds, cfront, iface          # noqa: E402
from rules import c20_table                       # noqa: E402


def main():
    root = os.environ.get("VERIF_ROOT", "/repo")
    tus = cfront.load(root)
    fns, order = iface.crack(os.path.join(root, "src/_cImageD11.pyf"))
    ext = bounds.Extents(fns, tus)
    funcs = list(cfront.all_funcs(tus))
    domains, why = c20_table.domains(funcs)
    res = bounds.run_all(tus, ext, table=c20_table.flat_table(), domains=domains, trusted=c20_table.TRUSTED, sites=None)
    sites = collections.Counter()
    why_of = {}
    shown = {}
    for f in funcs:
        L = res[f.name]
        proven_at = collections.defaultdict(list)
        need_at = collections.defaultdict(list)
        for r in L.rows:
            a = r["acc"]
            if r["cls"] in ("PROVEN", "GUARDED"):
                proven_at[a.key4()].append(a)
            elif r["cls"] == "PRECONDITION" and r.get("site"):
                need_at[a.key4()].append((a, r["why"]))
        for k4, accs in need_at.items():
            if k4 not in proven_at:
                sites[k4] += len(accs)
                why_of[k4] = accs[0][1]
                shown[k4] = "%s | %s" % (accs[0][0].show_key(), bounds.norm_text(accs[0][0].stmt))
                continue
            # the same statement text is provable elsewhere: qualify with a dominating condition that the provable sites lack
            others = set(t for p in proven_at[k4] for t in p.cond_texts())
            for a, why in accs:
                q = [t for t in a.cond_texts() if t not in others]
                if not q:
                    print("AMBIGUOUS site (cannot qualify): %s" % (k4,))
                    k = k4
                else:
                    k = k4 + (q[0],)
                sites[k] += 1
                why_of[k] = why
                shown[k] = "%s | %s%s" % (a.show_key(), bounds.norm_text(a.stmt), (" @ " + q[0]) if q else "")
    for k, v in sorted(sites.items()):
        print("%3d  %s" % (v, shown[k]))
    print("%d sites, %d accesses" % (len(sites), sum(sites.values())))
    if "--write" in sys.argv:
        rows = [dict(function=k[0], array=k[1], access=k[2], statement=k[3], when=(k[4] if len(k) > 4 else None), n=v,
                     shown=shown[k], why=why_of[k]) for k, v in sorted(sites.items())]
        with open(os.path.join(VERIF, "rules", "c20_sites.json"), "w") as f:
            json.dump(rows, f, indent=0, sort_keys=True)
            f.write("\n")
        print("written rules/c20_sites.json")


if __name__ == "__main__":
    main()
