#!/venv/bin/python
"""tools/c20_sites.py [--write]  - discovery run of the C20 bounds ledger on /repo: lists every access that needs a row of the
PRECONDITION table (rules/c20_table.py), keyed by site 'function|array|access|statement[@dominating condition]', with the
number of accesses at that site.  --write freezes the list into rules/c20_sites.json (done once, after each row was
confirmed by reading; the check never writes it)."""
import collections
import json
import os
import sys

HERE = os.path.dirname(os.path.abspath(__file__))
VERIF = os.path.dirname(HERE)
sys.path.insert(0, VERIF)
from engine import bounds, cfront, iface          # noqa: E402
from rules import c20_table                       # noqa: E402


def main():
    root = os.environ.get("VERIF_ROOT", "/repo")
    tus = cfront.load(root)
    fns, order = iface.crack(os.path.join(root, "src/_cImageD11.pyf"))
    ext = bounds.Extents(fns, tus)
    funcs = list(cfront.all_funcs(tus))
    domains, why = c20_table.domains(funcs)
    res = bounds.run_all(tus, ext, table=c20_table.flat_table(), domains=domains, trusted=c20_table.TRUSTED, sites=None)
    sites = collections.Counter()
    why_of = {}
    shown = {}
    guarded = {}
    for f in funcs:
        L = res[f.name]
        for r in L.rows:
            a = r["acc"]
            if r["cls"] == "GUARDED" and a.idx is not None and bounds.atoms_datadep_noiv(a.idx):
                g = guarded.setdefault(a.key(), dict(shown=a.show_key(), conds=None))
                rc = set(a.relevant_conds())
                # the conditions every guarded occurrence of this access has in common
                g["conds"] = rc if g["conds"] is None else (g["conds"] & rc)
        proven_at = collections.defaultdict(list)
        need_at = collections.defaultdict(list)
        for r in L.rows:
            a = r["acc"]
            if r["cls"] in ("PROVEN", "GUARDED"):
                proven_at[a.key()].append(a)
            elif r["cls"] == "PRECONDITION" and r.get("site"):
                need_at[a.key()].append((a, r["why"]))
        for k3, accs in need_at.items():
            for a, why in accs:
                conds = set(a.relevant_conds())
                if k3 in proven_at:
                    # the same access is provable elsewhere in the function: add a dominating condition the provable sites lack
                    others = set(t for p in proven_at[k3] for t in p.cond_texts())
                    q = [t for t in a.cond_texts() if t not in others]
                    if q:
                        conds.add(q[0])
                    elif not conds:
                        print("AMBIGUOUS site (cannot qualify): %s" % (k3,))
                sid = k3 + (tuple(sorted(conds)),)
                sites[sid] += 1
                why_of[sid] = why
                shown[sid] = "%s%s" % (a.show_key(), (" under " + " && ".join(sorted(conds))) if conds else "")
    for k, v in sorted(sites.items()):
        print("%3d  %s" % (v, shown[k]))
    print("%d sites, %d accesses" % (len(sites), sum(sites.values())))
    print("%d input-dependent accesses proven by a dominating condition (guarded): %s" % (len(guarded), sorted(v["shown"] for v in guarded.values())[:60]))
    if "--write" in sys.argv:
        rows = [dict(function=k[0], array=k[1], access=k[2], conds=list(k[3]), n=v, shown=shown[k], why=why_of[k]) for k, v in sorted(sites.items())]
        grows = [dict(function=k[0], array=k[1], access=k[2], shown=v["shown"], conds=sorted(v["conds"] or ())) for k, v in sorted(guarded.items())]
        with open(os.path.join(VERIF, "rules", "c20_sites.json"), "w") as f:
            json.dump(dict(sites=rows, guarded=grows), f, indent=0, sort_keys=True)
            f.write("\n")
        print("written rules/c20_sites.json")


if __name__ == "__main__":
    main()
