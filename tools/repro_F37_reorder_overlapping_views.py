import numpy as np
from ImageD11 import columnfile
bad=0
a = np.arange(6.)
cf = columnfile.colfile_from_dict({"k": np.array([3.,1,2,0,5,4])})
cf.addcolumn(a, "x"); cf.addcolumn(a[::-1], "y")
x0, y0, k0 = cf.x.copy(), cf.y.copy(), cf.k.copy(); o = np.argsort(k0)
cf.sortby("k")
r=(np.array_equal(cf.k, k0[o]), np.array_equal(cf.x, x0[o]), np.array_equal(cf.y, y0[o]))
print(r); bad+= not all(r)
# same array under two titles (F32)
c = columnfile.colfile_from_dict({"a": np.array([3.,1,2]), "b": np.array([10.,20,30])})
c.addcolumn(c.b, "d"); c.sortby("a"); r2=(list(c.a)==[1,2,3], list(c.b)==[20,30,10], list(c.d)==[20,30,10]); print(r2); bad+= not all(r2)
# bigarray 2D storage then sort; attribute / item / getcolumn agree
c = columnfile.colfile_from_dict({"a": np.array([3.,1,2]), "b": np.array([10.,20,30])})
_=c.bigarray; c.sortby("a"); r3=(list(c.a)==[1,2,3], list(c.b)==[20,30,10], list(c.getcolumn("b"))==[20,30,10], list(c["b"])==[20,30,10], c.bigarray.shape==(2,3), list(c.bigarray[1])==[20,30,10]); print(r3); bad+= not all(r3)
raise SystemExit(1 if bad else 0)
