import numpy as np, h5py, tempfile, os
from ImageD11 import sparseframe
def fr(labels, seed):
    rng=np.random.default_rng(seed)
    row=np.array([0,0,1,2],np.uint16); col=np.array([1,2,2,3],np.uint16)
    px={"intensity": rng.integers(1,100,4).astype(np.float32)}
    f=sparseframe.sparse_frame(row,col,(4,5),itype=np.uint16,pixels=px)
    if labels:
        f.set_pixels("labels", np.array([1,1,2,2],'i'), {"nlabel":2, "extra": 7})
    else:
        f.set_pixels("intensity", px["intensity"], {"threshold": 3})
    return f
bad=0
with tempfile.TemporaryDirectory() as d:
    with h5py.File(os.path.join(d,"t.h5"),"w") as h:
        g=h.require_group("f")
        a=fr(True,1); a.to_hdf_group(g)
        b=fr(False,2); b.to_hdf_group(g)
        r=sparseframe.from_hdf_group(g)
        print("wrote", sorted(b.pixels), "read", sorted(r.pixels), "meta", r.meta)
        bad += sorted(b.pixels)!=sorted(r.pixels)
        bad += not np.array_equal(r.pixels["intensity"], b.pixels["intensity"])
        # per-array attributes: save a frame with fewer keys over it
        c=fr(False,3); c.meta["intensity"]={}; c.to_hdf_group(g)
        r=sparseframe.from_hdf_group(g)
        print("meta after saving an array without attributes:", r.meta.get("intensity"))
        bad += bool(r.meta.get("intensity"))
        # ordinary round trip still fine
        a.to_hdf_group(g); r=sparseframe.from_hdf_group(g)
        bad += sorted(r.pixels)!=["intensity","labels"] or r.meta["labels"].get("nlabel")!=2
raise SystemExit(1 if bad else 0)
