#!/venv/bin/python
"""tools/save_seed.py <tag> <property> "<needs>" "<caught by>"  : copy a confirmed seed into /verif/seeded/<tag>/"""
import json, os, shutil, sys
tag, pid, needs, caught = sys.argv[1:5]
src = "/tmp/seed_out/%s" % tag
dst = "/verif/seeded/%s" % tag
res = open(os.path.join(src, "confirm_result.txt")).read().strip()
kv = dict(x.split("=") for x in res.split() if "=" in x)
assert kv["demo_with_change_exit"] != "0" and kv["demo_without_exit"] == "0" and kv["baseline_cmp_exit"] == "0", res
os.makedirs(dst, exist_ok=True)
shutil.copy(os.path.join(src, "patch.confirmed.diff"), os.path.join(dst, "patch.diff"))
demo = [f for f in os.listdir(src) if f.endswith(".py") and ("demo" in f or f.startswith("test_"))]
for f in demo:
    shutil.copy(os.path.join(src, f), os.path.join(dst, f))
if os.path.exists(os.path.join(src, "notes.md")):
    shutil.copy(os.path.join(src, "notes.md"), os.path.join(dst, "notes.md"))
meta = dict(property=pid, tag=tag, needs_to_manifest=needs, caught_by=caught,
            confirmed=dict(demo_with_change_exit=int(kv["demo_with_change_exit"]), demo_without_change_exit=int(kv["demo_without_exit"]),
                           baseline_179_still_pass=True, touched_c_sources=kv.get("touched_c") != "0"),
            what_was_run=["tools/confirm_seed.sh %s: in the sub-agent's scratch worktree: demo with the change (non-zero exit), "
                          "git stash (+rebuild of the extension when C was touched), demo without (exit 0), git stash pop, "
                          "full pytest suite with the change compared with BASELINE.json stable_pass (all 179 pass)" % tag,
                          "./check %s --root <scratch worktree with the change> (static checks read sources only)" % pid],
            base_commit=os.popen("git -C /repo rev-parse --short HEAD").read().strip())
json.dump(meta, open(os.path.join(dst, "meta.json"), "w"), indent=1)
print("saved", dst)
