#!/venv/bin/python
"""tools/seed_matrix.py [TAG ...]  - apply every saved seeded change (seeded/<tag>/patch.diff) to a scratch copy of the current
/repo sources, run every claimed check against it, and record which rules fire.  Writes seeded/MATRIX.json and updates the
'caught_by_checks' field of each seeded/<tag>/meta.json.  Scratch copies live under $TMPDIR and are removed.
Exit 0 when every seed is caught by at least one check, 1 otherwise."""
import json
import os
import re
import shutil
import subprocess
import sys
import tempfile
from concurrent.futures import ThreadPoolExecutor

HERE = os.path.dirname(os.path.abspath(__file__))
VERIF = os.path.dirname(HERE)
sys.path.insert(0, os.path.join(VERIF, "selftest"))
import run as selftest_run  # noqa: E402


def main():
    tags = sys.argv[1:] or sorted(t for t in os.listdir(os.path.join(VERIF, "seeded")) if os.path.isdir(os.path.join(VERIF, "seeded", t)))
    man = json.load(open(os.path.join(VERIF, "MANIFEST.json")))
    pids = [c["property_id"] for c in man["checks"]]
    tmp = tempfile.mkdtemp(prefix="verif_seedmx_")
    out = {}
    try:
        base = selftest_run.make_base(tmp)
        jobs = []
        for tag in tags:
            d = os.path.join(tmp, tag)
            shutil.copytree(base, d)
            patch = os.path.join(VERIF, "seeded", tag, "patch.diff")
            p = subprocess.run(["patch", "-p1", "-s", "-f", "--no-backup-if-mismatch", "-i", patch], cwd=d, capture_output=True, text=True)
            if p.returncode != 0:
                out[tag] = dict(error="patch does not apply to the current tree: " + (p.stdout + p.stderr)[-300:])
                continue
            out[tag] = dict(fired={})
            for pid in pids:
                jobs.append((tag, pid, d))

        def one(job):
            tag, pid, d = job
            env = dict(os.environ, VERIF_NO_EVIDENCE="1")
            r = subprocess.run([os.path.join(VERIF, "check"), pid, "--root", d], capture_output=True, text=True, env=env)
            rules = sorted(set(re.findall(r"\[(C\d\d\.[A-Z]\d+[a-z]?)[\]/]", r.stdout)))
            return tag, pid, r.returncode, rules
        with ThreadPoolExecutor(16) as ex:
            for tag, pid, rc, rules in ex.map(one, jobs):
                if rc == 1:
                    out[tag]["fired"][pid] = rules
                elif rc != 0:
                    out[tag].setdefault("analysis_error", []).append(pid)
    finally:
        shutil.rmtree(tmp, ignore_errors=True)
    bad = 0
    for tag in tags:
        o = out[tag]
        meta_p = os.path.join(VERIF, "seeded", tag, "meta.json")
        meta = json.load(open(meta_p))
        fired = o.get("fired", {})
        meta["caught_by_checks"] = fired
        if "error" in o:
            meta["caught_by_checks"] = {"error": o["error"]}
        json.dump(meta, open(meta_p, "w"), indent=1)
        own = meta.get("property")
        status = "CAUGHT" if fired else ("ANALYSIS-ERROR only" if o.get("analysis_error") else "MISSED")
        if not fired:
            bad += 1
        print("%-6s (property %s) %-8s %s %s" % (tag, own, status, "; ".join("%s: %s" % (k, ",".join(v)) for k, v in sorted(fired.items())),
                                                ("analysis-error in %s" % o["analysis_error"]) if o.get("analysis_error") else o.get("error", "")))
    if len(tags) > 1:
        json.dump(out, open(os.path.join(VERIF, "seeded", "MATRIX.json"), "w"), indent=1, sort_keys=True)
    return 1 if bad else 0


if __name__ == "__main__":
    sys.exit(main())
