#!/bin/sh
# tools/try_patch.sh PATCH PID [check args]  - apply PATCH to a scratch copy of the /repo sources and run ./check PID on it (scratch removed)
set -e
P=$(readlink -f "$1"); PID=$2; shift 2
V=$(dirname "$(dirname "$(readlink -f "$0")")")
T=$(mktemp -d "${TMPDIR:-/tmp}/verif_try.XXXXXX")
trap 'rm -rf "$T"' EXIT
rsync -a --prune-empty-dirs --exclude .git --exclude build --exclude docs --exclude /test --exclude webgui --exclude /data --exclude __pycache__ \
   --include '*/' --include '*.py' --include '*.c' --include '*.h' --include '*.pyf' --exclude '*' "${VERIF_ROOT:-/repo}/" "$T/"
(cd "$T" && patch -p1 -s -f --no-backup-if-mismatch -i "$P")
set +e
VERIF_NO_EVIDENCE=1 "$V/check" "$PID" --root "$T" "$@"
echo "exit=$?"
