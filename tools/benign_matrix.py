#!/venv/bin/python
"""tools/benign_matrix.py [--import DIR] [TAG ...]  - behaviour-preserving changes (benign/<tag>/benign_N.diff, produced by
independent sub-agents who verified bit-identical behaviour) are applied one at a time to a scratch copy of the current /repo
sources and every claimed check is run against it.  Exit code 1 of a check is a FALSE ALARM (checker defect), exit code 2 is
"cannot decide" (tolerated, listed).  --import DIR copies DIR/<tag>/benign_*.diff + notes.md into benign/ first.
Writes benign/MATRIX.json.  Exit 1 if any false alarm."""
import json
import os
import re
import shutil
import subprocess
import sys
import tempfile
from concurrent.futures import ThreadPoolExecutor

HERE = os.path.dirname(os.path.abspath(__file__))
VERIF = os.path.dirname(HERE)
sys.path.insert(0, os.path.join(VERIF, "selftest"))
import run as selftest_run  # noqa: E402


def main():
    args = sys.argv[1:]
    bdir = os.path.join(VERIF, "benign")
    os.makedirs(bdir, exist_ok=True)
    if args and args[0] == "--import":
        srcdir = args[1]
        args = args[2:]
        for tag in sorted(os.listdir(srcdir)):
            d = os.path.join(srcdir, tag)
            diffs = [f for f in os.listdir(d) if re.match(r"benign_\d+\.diff$", f)] if os.path.isdir(d) else []
            if not diffs:
                continue
            os.makedirs(os.path.join(bdir, tag), exist_ok=True)
            for f in diffs + (["notes.md"] if os.path.exists(os.path.join(d, "notes.md")) else []):
                shutil.copy(os.path.join(d, f), os.path.join(bdir, tag, f))
    tags = args or sorted(t for t in os.listdir(bdir) if os.path.isdir(os.path.join(bdir, t)))
    man = json.load(open(os.path.join(VERIF, "MANIFEST.json")))
    pids = [c["property_id"] for c in man["checks"]]
    tmp = tempfile.mkdtemp(prefix="verif_benign_")
    out = {}
    try:
        base = selftest_run.make_base(tmp)
        jobs = []
        for tag in tags:
            for f in sorted(os.listdir(os.path.join(bdir, tag))):
                if not re.match(r"benign_\d+\.diff$", f):
                    continue
                name = "%s/%s" % (tag, f[:-5])
                d = os.path.join(tmp, name.replace("/", "_"))
                shutil.copytree(base, d)
                p = subprocess.run(["patch", "-p1", "-s", "-f", "--no-backup-if-mismatch", "-i", os.path.join(bdir, tag, f)], cwd=d,
                                   capture_output=True, text=True)
                if p.returncode != 0:
                    out[name] = dict(error="patch does not apply: " + (p.stdout + p.stderr)[-200:])
                    continue
                out[name] = dict(alarm={}, undecided={})
                for pid in pids:
                    jobs.append((name, pid, d))

        def one(job):
            name, pid, d = job
            env = dict(os.environ, VERIF_NO_EVIDENCE="1")
            r = subprocess.run([os.path.join(VERIF, "check"), pid, "--root", d], capture_output=True, text=True, env=env)
            lines = [l.strip() for l in r.stdout.splitlines() if l.startswith("   ") and "[" in l and "instances" not in l]
            err = [l for l in r.stdout.splitlines() if l.startswith("ANALYSIS-ERROR")]
            return name, pid, r.returncode, lines[:3], err[:1]
        with ThreadPoolExecutor(16) as ex:
            for name, pid, rc, lines, err in ex.map(one, jobs):
                if rc == 1:
                    out[name]["alarm"][pid] = lines
                elif rc != 0:
                    out[name]["undecided"][pid] = err
    finally:
        shutil.rmtree(tmp, ignore_errors=True)
    nalarm = nund = nok = 0
    for name in sorted(out):
        o = out[name]
        if "error" in o:
            print("%-22s PATCH-ERROR %s" % (name, o["error"][:120]))
            continue
        if o["alarm"]:
            nalarm += 1
            for pid, lines in o["alarm"].items():
                print("%-22s FALSE-ALARM %s: %s" % (name, pid, (lines[0] if lines else "")[:260]))
        if o["undecided"]:
            nund += 1
            for pid, err in o["undecided"].items():
                print("%-22s undecided   %s: %s" % (name, pid, (err[0] if err else "")[:220]))
        if not o["alarm"] and not o["undecided"]:
            nok += 1
    print("benign changes: %d silent, %d with a false alarm, %d with an exit-2 somewhere (of %d)" % (nok, nalarm, nund, len(out)))
    if len(tags) > 1 or not args:
        json.dump(out, open(os.path.join(bdir, "MATRIX.json"), "w"), indent=1, sort_keys=True)
    return 1 if nalarm else 0


if __name__ == "__main__":
    sys.exit(main())
