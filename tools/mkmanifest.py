#!/venv/bin/python
"""Regenerates /verif/MANIFEST.json from the table below (kept here so the manifest is always valid)."""
import json
import os

VERIF = os.path.dirname(os.path.dirname(os.path.abspath(__file__)))

TRUST = ("Trusted base: clang-14 parser/sema, CPython ast, numpy.f2py.crackfortran, OpenMP/numpy/numba/h5py "
         "behaving as documented, the analyser itself (validated both ways by /verif/selftest). ")

CHECKS = {
    "C07": dict(
        category="other", design_ref="DESIGN.md section 3 / C07",
        technique="OpenMP data-sharing + affine index disjointness analysis (clang AST), CFG guard/dominance rule, "
                  "constant-fill abstract interpretation of Python call sites",
        text="Static: (R1) proves the score_and_assign parallel loop race-free and schedule-independent for every "
             "thread count (complete for the schedule clause); (R2) the kernel has the running-strict-minimum shape "
             "that makes the result order-independent except at ties; (R3) every library caller initialises the "
             "error/label buffers so that 'unassigned' is distinguishable and labels are distinct per grain; (R4) "
             "per-grain g-vectors feed the matching ubi. Necessary conditions of the input-quantified clauses, a "
             "decision of the schedule clause.",
        note=TRUST + "Not decided: myhistogram equals the label histogram for all label sets; tie behaviour; "
             "numerical value of the error. Labels/grain names are assumed non-negative."),
}

CHECKS["C13"] = dict(
    category="other", design_ref="DESIGN.md section 3 / C13",
    technique="OpenMP data-sharing / partition discipline on the clang AST, symbolic offset-table agreement, "
              "affine write-coverage analysis",
    text="Static: (R1) every OpenMP construct of localmaxlabel.c is race-free (work-shared loops write injective affine "
         "cells; the hand-partitioned walk stage reads only cells no thread writes - predicate-partitioned access), which "
         "decides 'identical for any number of threads'; (R2) the direction codes stored by neighbormax and the offsets "
         "o[] used to follow them denote the same neighbour; (R3) the work buffer is completely overwritten before it is "
         "read and labels are only copied from finished pixels, i.e. no dependence on previous buffer content; (R4) "
         "sparse variants single threaded. (R5) no difference (column - 1, row - 1) is stored into an unsigned variable in the labelling kernels: neighbour windows are computed in int.",
    note=TRUST + "Assumes image shape >= 3x3 and untorn byte/word stores. Not decided: that following the largest "
         "neighbour is steepest ascent on every image, dense/sparse partition equality.")
CHECKS["C19"] = dict(
    category="proof", design_ref="DESIGN.md section 3 / C19",
    technique="polynomial value numbering (exact rational arithmetic, sin^2+cos^2=1) of the interpreted Python AST; "
              "ast closure-effect and call-binding rules",
    text="Proof for all inputs (real arithmetic) that the seven conversion pairs of sinograms/geometry.py are mutual "
         "inverses in both directions, that the in-beam dty makes lab y vanish, and that the degree/sincos and alias "
         "forms agree (19 obligations). Structural necessary conditions for the reconstruction clauses: numba clone of "
         "the in-beam distance equals the geometry function, iradon workers share no written state and are combined in "
         "order, shift/pad reach run_iradon in the right slots, and (R5) sino_shift_and_pad's shift is the signed identity "
         "ny/2 - (y0 - ymin)/ystep, consistent with dty_to_dtyi, with pad = ceil(2|shift|) + 1.",
    note=TRUST + "Floating-point rounding not modelled; ystep != 0. Not decided: 1.5 pixel landing, linearity, "
         "iradon's internal half-pixel conventions.")

CHECKS["C06"] = dict(
    category="other", design_ref="DESIGN.md section 3 / C06",
    technique="must-defined dataflow on the C CFG; dominance of guards; symbolic execution of the kernels and "
              "interpretation of the Python references in a polynomial value-numbering domain (sibling agreement)",
    text="Static: (R1) no local of closest.c is read before assignment on any path (this is what found refine_assigned's "
         "uninitialised accumulators); (R2) ubi is overwritten only on the path where both 3x3 inversions succeeded, and "
         "inverse3x3 writes/returns 0 only under det != 0; (R3) score, score_and_refine, score_and_assign and the Python "
         "references compute the same polynomial sum_j (h_j - rnd(h_j))^2 with h = ubi.g and compare it strictly with "
         "tol^2; (R4) score_and_refine, refine_assigned, indexing.refine and indexer.refine produce the same expression "
         "inv(R inv(H)) with R = sum g h^T, H = sum h h^T (uninterpreted 3x3 inverse), count and mean as sum/n; (R5) "
         "preconditions of the magic-number rounding. Equality is of real-valued expressions for a generic peak. (R6) every OpenMP directive of closest.c keeps counters and sums as reductions and temporaries private (E2), so the returned counts do not depend on the thread count.",
    note=TRUST + "rnd() models both the magic-add rounding and floor(x+0.5) (they differ at exact halves). Not decided: "
         "floating-point agreement with numpy.linalg, conditioning, |h| ~ 1e3 accuracy.")
CHECKS["C17"] = dict(
    category="other", design_ref="DESIGN.md section 3 / C17",
    technique="typestate / representation-invariant rules over the class's methods: ast effect sets, statement CFG "
              "post-dominance (resync after every storage rebind), dominance of length gates, freshness of copied columns",
    text="Static, per method and therefore for every history: (R1) every method that rebinds the private column storage "
         "re-synchronises the per-title attributes on all normal exits; (R2) filter/reorder/copyrows apply one loop-invariant "
         "selector to all columns, nrows follows the data; (R3) length gates dominate stores; (R4) copy/copyrows allocate "
         "fresh columns, titles and parameters; (R5) chkarray precedes reads of the storage; (R6) the 2-D cache is only "
         "adopted when provably fresh. These are necessary conditions of the invariant 'attribute, item and getcolumn views "
         "are the same rectangular data'.",
    note=TRUST + "Not decided: numpy indexing/argsort semantics; objects built by HDF loaders beyond addcolumn.")

CHECKS["C18"] = dict(
    category="other", design_ref="DESIGN.md section 3 / C18",
    technique="writer/reader table extraction from the ast of both sides (format strings, tag sets, dtype selection, "
              "attribute tables) and agreement / inverse-conversion rules; who-may-rebind rule for h5py attribute managers",
    text="Static: for each on-disk format the writer's table and the reader's table are extracted from the current "
         "code and compared: columnfile text (header syntax, one numeric conversion per title, integer titles get "
         "integer conversions, exponent formats for strains, positional float parsing), columnfile HDF5 (INTS<->int64 in "
         "both writers, group tag accepted by the reader, whole-dataset read-back, resize on overwrite), parameter files "
         "(two-field lines, type coercion on every path), grain text (9x >=9 digits UBI row-major, >=6 digits "
         "translation, every written tag restored through the inverse conversion, state reset), grain HDF5 (same "
         "attribute tables, inverse conversions, integer-sorted groups), ubi files, sparse frames (attrs/datasets on "
         "both sides; h5py .attrs never rebound). Necessary conditions of the round trips. (R2 also) every path through the HDF writers' title loop stores the column: create_dataset(.., data=..) or a whole-dataset assignment.",
    note=TRUST + "Not decided: digit-level precision of particular values, negative zero, overwriting an HDF5 group that "
         "holds a different set of titles, h5py/numpy exactness (assumed).")

CHECKS["C16"] = dict(
    category="proof", design_ref="DESIGN.md section 3 / C16",
    technique="exhaustive exact-integer group closure of the generator strings parsed from the ast; polynomial identity "
              "M.G.M^T = G for the generic conforming metric; ast rules on the orbit enumeration",
    text="Proof (finite, exhaustive): the ten named groups are re-generated in exact integer arithmetic from the generator "
         "strings in sym_u.py, modelling m_from_string's row convention read from its source, and each is shown closed, "
         "with identity and inverses, all determinants +1, of the order of the proper point group, and metric preserving "
         "for the generic conforming cell under the left application find_uniq_u uses (this is what exposed the trigonal "
         "generator). Structural: the reduction enumerates the whole orbit of its input with a strict maximum and falls "
         "back to the input, so with a closed group it returns the same maximiser for every orbit member; the registry "
         "and the callers are consistent. (R5, shared with C04.R1) users of the reduction install the canonical matrix through grain.set_ubi; no direct write of <grain>.ubi leaves stale U/UB/B/Rod caches.",
    note=TRUST + "Assumes group.makegroup computes the closure (float allclose on integer matrices is exact). Not decided: "
         "ties of the trace / hkl score, numerical consequences for indexing.")

CHECKS["C03"] = dict(
    category="other", design_ref="DESIGN.md section 3 / C03",
    technique="abstract interpretation of the centring predicates over the congruence domain Z/6Z (exhaustive, exact); "
              "dispatch-table identity; path enumeration / dominance rules on the ring builder and the generator; cache-"
              "coherence (typestate) rule on (peaks, limit)",
    text="Static: (R1) the centring dispatch table is the identity on names and covers exactly the accepted letters "
         "(found 'A' -> I); (R2) each of P,A,B,C,I,F,R is evaluated on every residue class mod 6 and equals the "
         "crystallographic absence condition - exhaustive and exact because the predicates factor through Z/6Z, which is "
         "checked; (R3) makerings partitions the sorted list: every path of the loop body files the reflection in exactly "
         "one ring; (R4) a reflection is kept only under ds < dsmax and not absent, (000) skipped, list sorted; (R5) "
         "whatever gethkls returns is what it cached with its limit. Soundness of the list and the ring partition are "
         "decided as necessary conditions; COMPLETENESS of the axis walk for oblique cells is not decided.",
    note=TRUST + "Completeness of the signed axis walk with early-exit counters (the properties file records that triclinic "
         "cells lose reflections) is a statement about the reach of a search heuristic; no static rule implies or refutes "
         "it and none is substituted. xfab's genhkl_all (integer space groups) is outside the analysed code.")

CHECKS["C04"] = dict(
    category="other", design_ref="DESIGN.md section 3 / C04",
    technique="polynomial value numbering of the interpreted Python/numba sources (sibling agreement of formula copies, "
              "uninterpreted 3x3 inverse); typestate / who-may-write rules on grain's caches; guard-shape rule on the "
              "guvectorize kernels",
    text="Static: (R2-R4) the five copies of the Busing-Levy B formula, the four copies of cell-from-metric and the three "
         "copies of U=(B.ubi)^T are interpreted symbolically for a generic cell / ubi and shown to have identical normal "
         "forms (equality of real functions for ALL cells incl. triclinic - exactly the oblique cases no test covers); "
         "grain.UB = inv(ubi), mt = ubi.ubi^T. (R1) cache discipline: every cached property is reset by clear_cache, ubi "
         "is only assigned through set_ubi, properties return copies, no library code writes <obj>.ubi or hands it to a "
         "kernel that overwrites it. (R5) each guvectorize kernel guards every array input with isnan and writes NaN on "
         "that path, so masked voxels stay NaN (gufunc semantics keep neighbours independent).",
    note=TRUST + "Not decided: that B is the Cholesky-like factor of the reciprocal metric, det U = +1, rotation/cell round "
         "trips, xfab's u_to_rod.")

CHECKS["C10"] = dict(
    category="other", design_ref="DESIGN.md section 3 / C10",
    technique="polynomial value numbering of finite_strain.py / grain.py / tensor_map.py with uninterpreted SVD factors and "
              "3x3 inverses: program duality (lab(F) == ref(F^T)), sibling agreement of the map kernels with the per-grain "
              "route, packing-table inverses",
    text="Static, for symbolic F / ubi / cell (all inputs): (R1) the e6 packing tables of both modules are identical and "
         "mutually inverse on symmetric matrices; (R2) finite_strain_lab(F) equals finite_strain_ref(F^T) for every supported "
         "m in {-1,..,2} (same branch, divisor, power), results are symmetric, and the m=1, 0.5, 0 forms are Green-"
         "Lagrange, Biot and Hencky expressions of the SVD factors; (R3) polar factors R=w.vh, S=vh^T.d.vh, V=w.d.w^T, "
         "F=ubi^T.ub0^T, and the vectorised tensor_map strain kernels equal grain.eps_sample_matrix/eps_grain_matrix "
         "entry by entry for a generic triclinic reference cell; (R4) frame/role plumbing and the U.T.U^T rotations.",
    note=TRUST + "SVD semantics (F = w.diag(s).vh, orthogonality) are NOT used, so objectivity, exactness for a known "
         "stretch, vanishing at zero strain and first-order agreement across m are not decided.")

CHECKS["C01"] = dict(
    category="other", design_ref="DESIGN.md section 3 / C01",
    technique="translation-validation style sibling agreement by polynomial value numbering: symbolic execution of the C "
              "kernels (clang AST) and interpretation of the Python/numba sources, atan2/half-angle rewriting, numeric "
              "refutation + exact normal-form proof; call-site role rules; OpenMP discipline",
    text="Static, for symbolic values of every parameter at once (all flips, omegasign, wedge and chi together with a "
         "translation): (R4) the fast route = Ctransform packing (interpreted) + compute_xlylzl + compute_geometry "
         "(symbolically executed) equals the documented Python formulas stage by stage - lab coordinates, grain-origin "
         "shift, two-theta, eta, g-vector, d-star; (R2) the two C kernels agree; (R3) each numba clone equals the "
         "transform.py function of the same name and compute_gve equals the reference chain; (R1) every kernel call site "
         "passes omegasign/wavelength/wedge/chi/t in the slot the interface names; (R5) fast and slow branches of "
         "updateGeometry write the same nine columns from the same inputs, omega sign applied, refinegrains passes "
         "wedge and chi everywhere; (R6) the parallel loops are race free. Equality is of real-valued functions, not "
         "of floating-point results.",
    note=TRUST + "Generic branch of 'if chi != 0 / wedge != 0 / t != 0' tests (the skipped branches are the same formula at "
         "the special value). Not decided: rounding, spatial distortion upstream.")
CHECKS["C02"] = dict(
    category="proof", design_ref="DESIGN.md section 3 / C02",
    technique="polynomial identities (sin^2+cos^2=1) proved on the interpreted Python/numba sources and the symbolically "
              "executed C kernels; mask-discipline and domain-guard rules on the ast",
    text="Proof for all inputs (real arithmetic): |compute_g_from_k(k,omega,wedge,chi)|^2 = |k|^2 in transform.py and the "
         "numba copy on every branch, |compute_k_vectors|^2 = (2 sin(theta)/lambda)^2, |compute_g_vectors|^2 likewise; in "
         "C gv.gv = k.k, out[2]^2 = |g|^2 and k.k = (2/lambda^2)(1 - d0/|d|) - reference-independent laws, so an error made "
         "consistently in every implementation is still caught. Structural: returned angles are multiplied by the "
         "validity mask, callers bind it, and the mask bounds the arcsin argument on both sides. (R6, shared with C01) the "
         "forward maps that the inversion laws invert are one function: compute_geometry's g == compute_gv's g, and both "
         "equal the Python chain stage by stage (same omega.chi.wedge composition order, same grain-origin shift).",
    note=TRUST + "Not decided: the two-solution inversion g -> angles -> g, the detector projection round trip, rigid "
         "rotation about the axis under a change of omega (needs angle-addition).")

CHECKS["C15"] = dict(
    category="other", design_ref="DESIGN.md section 3 / C15",
    technique="premise checking of a hand proof of schedule independence (ast rules on the numba kernels: write/read sets, "
              "guards, reduction shape), prange store discipline, field-table agreement",
    text="Static: the label sweep is a deliberate shared read-modify-write under prange; instead of flagging it, the check "
         "verifies the syntactic premises of the argument that its fixed point is schedule independent: (R1) only "
         "pkid[x] = min of the two labels of the same edge, to both ends, under 'labels differ', counter incremented exactly "
         "there; (R2) the driver stops only after a sweep returned 0, from labels = arange; (R3) renumbering counts roots "
         "sequentially and its parallel loop writes only its own cell under the 'tagged' guard while reading only root "
         "cells; (R4) merged-peak sums/means: row table of numbapkmerge <-> pk2dmerge dictionary, scale branch = unscaled "
         "branch x scale; (R5) no scatter-add under prange (the merge kernel stays sequential). R1 also decides that a sweep visits every edge once: prange(len(i)), or a blocked sweep whose block size is the ceiling of len(i)/nblk.",
    note=TRUST + "Assumes untorn aligned 8-byte stores and termination. Not decided: equality of the sums with an independent "
         "oracle, the scipy route.")

CHECKS["C11"] = dict(
    category="other", design_ref="DESIGN.md section 3 / C11",
    technique="symbolic index analysis of the raster scan on the clang AST (neighbour-offset table per region), CFG guard "
              "rules, disjoint-set typestate / pairing rules, affine write coverage, OpenMP discipline",
    text="Static: (R1) for each of the four regions of the dense scan the set of (neighbour offset, needs-eightconnected) "
         "links is computed from the subscripts and compared with the table of already-visited neighbours that exist "
         "there; sparse window constants; (R2) all three variants test v > threshold strictly; (R3) every dset_new result is "
         "assigned back to the set it grew, initialise/compress/free pairing, compressed table applied, dset_link points "
         "higher ids at lower, the running count survives table growth (last store covering the count cell); (R4) every "
         "label cell is written on every path (affine coverage + first pixel both branches); (R5) relabel loop race free. "
         "Necessary conditions; the union-find correctness argument itself is not mechanised. R1 also requires every neighbour link to be unconditional on the other neighbours' labels (no 'W is labelled, skip N' shortcut).",
    note=TRUST + "Assumes ns, nf >= 2 and sorted sparse input. Not decided: that these unions yield exactly the connected "
         "components, the returned count, equality of the partitions of the three variants.")

CHECKS["C12"] = dict(
    category="other", design_ref="DESIGN.md section 3 / C12",
    technique="effect-set / operator-class extraction from the clang AST (accumulator homomorphism), column-table agreement "
              "from the ast, path rules on the statement CFG (hand-over typestate), call-site census of merge()",
    text="Static: (R1) add_pixel and merge are classified field by field (sum, max-group, max, min) and must agree, so "
         "merging two peaks gives the accumulators of the union of their pixels; blobproperties seeds exactly the "
         "min/max fields with identities; compute_moments reads only accumulated fields; (R2) the 30 titles, "
         "conversions and printed fields of labelimage are one table with the intended role per column and consistent "
         "integer typing; (R3) on every path of mergelast the images are swapped once and the previous-frame state is "
         "taken from the current frame, bloboverlaps is called only with two non-empty frames and in (previous, current) "
         "order, closed peaks are finished then written, finalise flushes; (R4) merge() is used only in the three "
         "disjoint link cases, surviving rows are moved by plain copy, labels relabelled through the compaction table. (R5, shared with C11.R1) the dense labeller links every already-visited neighbour in every border region, the premise of one 2D blob per component.",
    note=TRUST + "Not decided: one-to-one correspondence with 3-D connected components, centroid/variance arithmetic, "
         "spatial correction.")

CHECKS["C14"] = dict(
    category="other", design_ref="DESIGN.md section 3 / C14",
    technique="resolved self-call arity (ast), CFG guard analysis of the two-pointer merges on the clang AST, unsigned-"
              "wrap lint, sibling-caller contradiction rule, interface dtype agreement",
    text="Static: (R1) every self.m(...) in sparseframe.py fits m's signature (found sort()/sort_by() uncallable); (R2) "
         "reorder permutes row, col and all pixel arrays with one order, sort is row-major; (R3) in sparse_overlaps and "
         "coverlaps the frame with the smaller (row,col) key advances, equal keys record one hit and advance both, the "
         "loops run while both frames have pixels, packed keys are built in 32 bits and compared directly - never "
         "through the sign of an unsigned difference; mask_to_coo rejects shapes beyond 65535; compress_duplicates "
         "writes its last run; (R4) the two callers of sparse_overlaps -> compress_duplicates agree on the empty-overlap "
         "guard (found overlaps() lacking it), histograms sized for the largest label, matrix route checks labels; "
         "(R5) 16-bit unsigned coordinates on both sides of the interface.",
    note=TRUST + "Assumes sorted, duplicate-free frames. Not decided: exact value round trip dense->sparse->dense and "
         "exact overlap counts (they follow from the merge discipline only together with numpy/scipy semantics).")

CHECKS["C08"] = dict(
    category="other", design_ref="DESIGN.md section 3 / C08",
    technique="CFG dominance / guard analysis and def-use of indexer.scorethem (ast), who-may-write rule for indexer.ubis, "
              "try/finally pairing, polynomial value numbering of unitcell.BTmat (Python) against quickorient (C)",
    text="Static, soundness half only: (R1) indexer.ubis grows only in scorethem under strict npk > self.minpks and "
         "uniqueness > self.uniqueness; npk is self.score(<stored matrix>, float(self.hkl_tol)); matrix and count are "
         "replaced together, by the same list entry, only under <new> >= npk; ga[ind], ubis, scores updated in one block, "
         "label provably >= 0, ind = getind(<stored matrix>); (R2) pairs with a claimed peak or i == j never reach orient, "
         "find() draws from ga == -1 of ring_1 / ring_2, one sentinel; (R3) do_index restores the OpenMP thread count in a "
         "finally; (R4) crystal triad of BTmat and lab triad of quickorient are the same symbolic construction, first axis "
         "along v1, third axis perpendicular to v2, det^2 == 1, product order BT.(u1;u2;u3), call-site wiring: hence "
         "det(UBI) = det(B^-1) and UBI.g1 || h1; (R5) uniqueness is (#free among getind(UBI)) / (#getind(UBI)) and getind "
         "selects with hkl_tol and returns the label it passed to the kernel. (R6) the appended matrix is not modified in place (score_and_refine & co., per the .pyf intent of their first argument, also through plain aliases) after the count that passed the gate was taken - this rule found the refine-after-gate defect, repaired in /repo; (R7, shared with C06.R3/R4) the gate's count, the claimed peaks and the refinement use one tolerance predicate sum_j (h_j - rnd h_j)^2 < tol^2.",
    note=TRUST + "Thin partial claim. Not decided: that the refined matrix still indexes > minpks peaks after "
         "score_and_refine, cell parameters within tolerance, sign of det(B), de-duplication up to lattice symmetry, and the "
         "whole completeness half (every grain found exactly once on ideal data) - outcomes of a numerical search.")

CHECKS["C09"] = dict(
    category="other", design_ref="DESIGN.md section 3 / C09",
    technique="typestate (must-precede in the same loop iteration) over a statement CFG with a small grain-identity "
              "resolution, slot-agreement tables, def-use and dominance checks on refinegrains.py (ast)",
    text="Static, structural necessary conditions on the makemap route only: (R1) every translation-dependent geometry "
         "use inside a loop over grains (self.compute_gv, compute_tth_eta_from_xyz(**parameters), Simplex(self.gof)) is "
         "dominated in the same iteration by set_translation of the same grain; (R2) set_translation and the copy-back in "
         "refinepositions pair translation[0,1,2] with t_x,t_y,t_z, the simplex varies exactly those for exactly that grain, "
         "self.tolerance is restored; (R3) assignlabels feeds compute_gv / score_and_assign the current grain's translation "
         "and ubi, one gv buffer, label int(g) that the second loop selects on, buffers become the columns, per-grain arrays "
         "are taken at that selection; (R4) savegrains writes gx..gz, hr..lr, h..l from the matching rows at g.ind after "
         "recomputing this grain's g-vectors, h,k,l = floor(hkl_real+0.5); (R5) compute_gv applies omegasign and passes "
         "wavelength, wedge, chi everywhere and stores the last gv on every path; (R6) refine works on a copy with "
         "(mat, self.gv, self.tolerance) and returns it; gof installs the trial parameters, refines from the matrix read in, "
         "weights by npks, guards the division. (R7, shared with C01.R2/R4) the C kernel route of assignlabels and the Python route of compute_gv are one function of (xyz, omega*sign, wedge, chi, t), stage by stage.",
    note=TRUST + "Thin partial claim. Not decided: convergence of the simplex, recovery of UBI / translation to tolerance, "
         "peak ownership on real data - numerical outcomes. fit() (global parameters) is exempt from R1 by design of the code. "
         "Observation outside the property: refinepositions stores the last trial point of the simplex, not its best vertex "
         "(identical on convergence to within the final simplex size).")

CHECKS["C20"] = dict(
    category="other", design_ref="DESIGN.md section 3 / C20",
    technique="bounds ledger by abstract interpretation over polynomial index forms (loop-range elimination, lower-bound "
              "substitution, depth-bounded combination of dominating-condition facts; counter, clip and remainder idioms; "
              "interprocedural requirement summaries) on the clang AST; .pyf <-> C signature agreement via crackfortran; "
              "must-defined dataflow; OpenMP dependence discipline; allocation pairing on the CFG; output coverage analysis",
    text="Static necessary-condition ledger, not a memory-safety proof: (R1) the 57 .pyf routines equal the wrapper blocks in "
         "the C sources and agree with the C signatures in count, order, scalar/array-ness, element width and class, fixed "
         "inner dimensions and hidden extents; (R2) no local scalar / small array cell of any of the 71 C functions is read "
         "before it is assigned; (R3) all OpenMP directives satisfy the data-sharing / affine-disjointness discipline; (R4) "
         "heap blocks are null-checked (or listed), freed on every path to a return, not used after free; (R5) intent(out) "
         "arrays are written over their whole extent and scalar outputs on every path; (R6) each of ~1760 subscripts / "
         "dereferences / pointer hand-overs is PROVEN or GUARDED in [0, extent) from loop ranges, dominating conditions and "
         ".pyf extents under the property's own domain (images >= 2x2, counts >= 0), is checked at its call sites against the "
         "callee's requirement summary, or sits at one of 139 confirmed PRECONDITION sites (sortedness of (i,j), labels <= "
         "npk, permutation tables, disjoint-set invariants, assumed-size .pyf arrays), each with a reason; an unbounded "
         "input-dependent index, an insufficient guard, or an affine index with an out-of-range witness is a violation. (R7) no difference is stored into a variable of unsigned integer type (value-changing implicit conversion).",
    note=TRUST + "PRECONDITION sites (161 accesses) and the disjoint-set arrays are trusted, so an off-by-one inside a scan that "
         "relies on sortedness is invisible to R6 (C11-C14 cover the scan guards). Integer overflow of index arithmetic, "
         "alignment, aliasing between arguments and the f2py-generated wrapper code itself are not analysed. Found and fixed: "
         "cluster1d, sparse_localmaxlabel and compress_duplicates touched element 0 of empty arrays.")

# rules added after the third round of independently seeded changes (one sentence each; the full statements are in the evidence files)
ADDED = {
    "C03": " R4 also decides completeness of the enumeration: a box of half-width >= dsmax * cell length per axis with no early exit (a walk along lattice lines that stops at the first reflection beyond the limit is reported - found F21). R3 requires makerings to read the first reflection only where the list is not empty (found F27). (R5) cache coherence of gethkls / gethkls_xfab: every list returned is the one stored in self.peaks together with self.limit = dsmax. R5 also requires a list that depends on another argument than the limit (the space-group name of gethkls_xfab) to be cached only where that argument is None (found F31).",
    "C13": " (R6) sparse_smooth adds exactly the stored pixels with |di| <= 1 and |dj| <= 1 with weights 4/16, 2/16, 1/16: finite case analysis of the guards of the accumulation over (di, dj) in [-3, 3]^2. R6 evaluates the guards with C int arithmetic at the far distances +-46340, +-46341, +-65535 as well (found F18). (R7) the label / signal array that the sparseframe wrappers store with set_pixels does not come out of module-level state. (R8) the walk stage's thread partition multiplies the pixel count by the thread index in a 64-bit type (found F25: int overflow for pixels x threads >= 2^31). R3 also requires every return of localmaxlabel after the parallel region has opened to be dominated by the end of the last stage (no early return that leaves labels from stage 1 / 2).",
    "C11": " (R6) Python callers of the connected-pixel kernels keep label 0 = background when they renumber labels (np.where(L > 0, L + k, 0) or an L > 0 mask). R3 also requires dset_find to iterate (recursion or loop) up to the root. R3 also requires dset_makeunion to link the roots of both labels (dset_find on both), and R4 that the splat kernel's output loop writes every label cell on every path, 0 for pixels below threshold (found F26). R2 decides each threshold test for the four orderings of (value, threshold) including unordered (NaN): only 'above' is foreground in every variant (found F35). R3 decides dset_link on nine small models.",
    "C04": " (R6) TensorMap: the set of maps derived from UBI alone is computed from the property bodies and every one of them must be deleted by clear_cache, which must run in the UBI setter and in add_map('UBI'). (R7) no numba signature in tensor_map.py declares a contiguous layout ('::1'): numba does not enforce it and strided 3x3 views would be read as 9 consecutive doubles. (R8) indexing.ubitoB, read as a word over ubi, transposes, inverses and a Cholesky factor (axiom chol(W).chol(W)^T = W), satisfies B^T.B = inverse(ubi.ubi^T) and is a transposed Cholesky factor (found F20). (R9) unitcell.__init__ stores a copy of the lattice parameters it derives g, gi and B from, never the caller's array.",
    "C01": " (R3 now also runs the numba / reference comparison for every on/off combination of t_x, t_y, t_z, so 'no translation' shortcuts are taken exactly when they apply.) R6 also checks definite initialisation of the private variables of the OpenMP loops (E3). (R7) on the fast route of columnfile.updateGeometry / updateGV the Ctransform whose methods are called is constructed from pars.parameters on every path of the call - one kept from an earlier call under an identity test of the (mutable) parameters object is reported. (R8) in transform.py an array made from an argument and updated in place with arithmetic results is made with a float dtype (found F19: integer pixel coordinates were truncated in compute_xyz_lab). (R9) refinegrains.fit recomputes the lab coordinates whenever a varied parameter is one that transform.compute_xyz_lab takes: the 'recompute' test is compared with that function's signature. (R10) every call of the numba compute_gve in point_by_point.py receives omega multiplied by a formal that the enclosing function's call sites feed from the parameters' 'omegasign', as get_local_gv hands it to cImageD11.compute_gv (found F28).",
    "C02": " (R7) compute_xyz_from_tth_eta masks a projected position only where the ray . detector-normal product is zero - never by its sign, which flips with the handedness of the detector axes. (R8) the 'no translation' shortcut of compute_tth_eta_from_xyz is guarded by every translation component that compute_grain_origins receives being zero. (R9) no function of transform.py / gv_general.py chooses between the (3, n) and (n, 3) layouts by testing a shape entry against 3 and transposing (ambiguous for exactly three vectors).",
    "C06": " (R7) the reference functions of indexing.py do not choose between the (n, 3) and (3, n) layouts of the g-vectors by testing a shape entry against 3 (ambiguous for exactly three peaks).",
    "C07": " (R5) the value score_and_assign returns is never kept as a per-grain count; fight_over_peaks derives the counts from the final label array after all grains competed. R2 also forbids a continue / break in the per-peak loop before this grain's error is computed and compared. (R6) myhistogram's returned counts depend on the values of the bin edges, and fight_over_peaks passes bins starting at -0.5.",
    "C08": " (R8) unitcell.getanglehkls drops its ring-number keyed cache whenever makerings may have renumbered the rings (the validity test compares a stamp makerings rewrites, and B). (R9) the ring-pair drivers (score_all_pairs, do_index) enumerate every unordered pair of the chosen rings including a ring with itself. (R10) no math.asin / acos / sqrt / log (which raise where numpy gives nan) on the route every search takes (assigntorings, find, scorethem, ...), other than the confirmed sites. (R11) unitcell.orient reads the hkl-pair table only where it is known not to be empty (filter_pairs may keep no pair) and indexer.scorethem uses self.unitcell.UBI only when orient made an orientation (found F29).",
    "C09": " (R8) grain.__init__ copies the translation it is given (refinepositions stores refined positions in place, so grains must not share the array). R6 classifies the working matrix of refine() as a copy or a possible alias of the caller's matrix. (R9) scripts/makemap.py writes '<flt>.new' after savegrains() with no assignlabels() in between.",
    "C10": " R2 also shows that the tensor an object returns does not depend on which tensors it was asked for before (memo tables / cached decompositions). R5: in TensorMap every tensor_crystal_to_sample / tensor_sample_to_crystal call is applied to a map in the frame the function converts from, with self.U as the rotation (the defect F17, fixed by 7a264cb, was found by it). (R6) TensorMap.dzero_unitcell pairs each voxel with self.phases[<its phase id>] (items() under the mask phase_ids == key, or a subscript by key), never with a list of the dict's values indexed by phase id.",
    "C12": " R1 requires the field compared in a min / max update to be the field updated and the value taken to be the value compared. (R6) peaksearcher.peaksearch gives every frame to the label image of every threshold: peaksearch then mergelast on every path of every iteration, no break / return / early continue in the loop over the thresholds. R1 reads chained assignments and decides the bounding-box seeds on their linear form (a running minimum starts at or above the extent of its own axis).",
    "C14": " R3 requires the int8 mask tests of mask_to_coo to be (in)equalities with zero (sign-agnostic), decides the merge kernels by finite case analysis over the key orderings, and checks the last run of compress_duplicates semantically. R3 also evaluates the statements before the merge loop of sparse_overlaps on all pairs of small sorted frames: the cursors must be at or before the first common pixel with no hit recorded. R3 also requires every return of compress_duplicates that can be positive to be dominated by a store into the count array; R4 finds the histogram buffer by role (5th argument of compress_duplicates). (R6) every array a sparse kernel writes is intent(inout/out) in the .pyf or a confirmed site whose callers allocate the exact type, and the callers of compress_duplicates hand it int32 pair arrays they own (found F24). (R7) overlaps_linear.__call__ returns a table allocated in that call, not a view of a buffer kept on the object.",
    "C15": " R2 is a path property on the flow graph (every path to the renumbering passes 'latest sweep count == 0') and requires that the edge arrays are never rebound between sweeps. (R6) n_pk2d stores s = srI/sI, f = scI/sI, omega.flat[frame], dty.flat[frame] - the quantities numbapkmerge averages, with no arithmetic on one side only. R3 reports, whatever the loop layout, a root counter incremented under a sign test of labels[i] while non-roots are tagged by negation (the tag of a pointer to peak 0 is -0 == 0). (R7) every SharedMemory(create=True, size=...) asks for at least one byte: the pair table of a scan without overlaps is empty (found F34).",
    "C16": " (R6) outside sym_u, group operators are only multiplied from the left onto a UBI, never onto U / U^T / UB. P1 obtains the operator of each generator string by evaluating m_from_string itself in the value-numbering interpreter (exact integers), so the row / column convention is whatever the function computes. R2 also requires that no additem() follows the store of the group into symcache on any path. R3 decides the strictness of the keep test on the effective operator (polarity and negations on the way to the update) and accepts a continue taken on the outcome of the keep test.",
    "C17": " R1 also requires set_attributes to re-point every attribute on every path (no early exit for special tables). (R7) __setattr__ binds the attribute of a column title to the stored column self.__data[index], not to the assigned value (found F22). (R8) list operations on the column storage run only where it is known to be a list, since get_bigarray() makes it an ndarray (found F23). (R9) reorder reads every column before it stores any, because two titles may hold the same array - addcolumn keeps the caller's array (found F32). R3 also requires set_bigarray to read the first column only when there is one (found F33).",
    "C18": " R3 flags an exact == between int(value) and float(value) in the parameter type coercion (false beyond 2**53). R5 reports a reader loop that takes the h5py group's own (alphabetical) iteration order. R1 requires all nine U and all nine UBI element titles to have a format with at least 9 decimals in the evaluated FORMATS table; R5 reads the HDF5 writer by role. R5 requires the HDF5 writer to decide 'attribute present' with `is not None` / hasattr, never by truthiness (npks == 0, name == '' would be dropped). R4 also requires the tests that recognise a '#key value' line of a grain file to look at the start of the line, not to search the whole line for text that must be absent (found F30).",
    "C19": " R2 reads get_voxel_idx through its temporaries before comparing with geometry.dty_values_grain_in_beam_sincos. (R6) no conversion function reads module-level state that the module modifies (a memo validated by object identity or not validated at all is a violation; one validated by comparing values is left undecided). (R7) no conversion function of geometry.py modifies an argument in place. (R8) no result of a function memoised with functools.lru_cache / cache in roi_iradon.py / geometry.py is modified in place by its caller.",
    "C20": " R6 keys its confirmed sites by (array, flat index polynomial, linear facts) instead of source text, analyses helpers inside their callers, covers memset / memcpy, and raises a violation only with positive evidence (a recorded guarded access that lost its proof, a witness that passes every dominating test, an unchecked input element used as index, an affine witness). R6 decides 'end of block <= extent' over the arguments alone when the end of a memset / memcpy region is free of run-time data although its start is not; a regression on a guarded access is reported only when one of the dominating conditions recorded for it is gone. The ledger follows walking pointers (p += c, p++ in loop bodies and for-headers, nested loops with invariant trip counts).",
}
for _k, _v in ADDED.items():
    if _k in CHECKS and _v not in CHECKS[_k]["text"]:
        CHECKS[_k]["text"] = CHECKS[_k]["text"] + _v

# rules added in round 7 (second session)
ADDED7 = {
    "C01": " (R11) the geometry kernels of cdiffraction.c store only into arrays their .pyf block declares out / inout: interprocedural write sets (direct stores, stores through local row pointers, memcpy destinations, arguments a callee writes; static helpers read in place) - the lab coordinates are reused for every grain and every call.",
    "C03": " R4 also evaluates a blocked (tiled) enumeration of the index box for small half-widths: every index is visited exactly once (an inclusive block end that is the next block's start lists a plane of reflections twice).",
    "C04": " (R10) no lazily cached quantity of a grain (UB, B, U, mt, rmt, unitcell) is computed by a formula selected by a tolerance test (np.allclose / isclose / abs(x - c) < eps): a special-case formula is exact only at the special case.",
    "C09": " (R10) an angle difference that feeds a symmetric clip is wrapped to (-180, 180] with d - 360*round(d/360); a one-sided remainder (fmod, %, numpy.mod) reaching numpy.clip(d, -s, s) is reported (reaching definitions on the flow graph).",
    "C10": " (R7) a strain tensor (map) of one frame is never obtained from the other frame's tensor by rotating with the Busing-Levy orientation U: the two are related by the polar rotation of F (found F36 in TensorMap, repaired with a polar-rotation kernel; R5 now accepts self.polar_rotation() for strain maps).",
    "C11": " (R7) a label image kept on the object (labelimage.blim, SparseScan.labels) is rewritten on every path of the function that labels a frame: must-pass-through of a kernel call or a zero fill before every normal exit.",
    "C13": " (R9) sparse_localmaxlabel links pixel k with an earlier stored pixel only when the conditions dominating the link admit nothing but 8-neighbours: finite case analysis over the row / column distances admissible for sorted input.",
    "C14": " (R8) sparse_frame.to_dense: a caller-supplied 'out' is overwritten as a whole (coo_matrix.todense(out=)) or zero-filled before the pixels are scattered into it. (R9) from_data_mask takes the pixel count, the kernel argument and the value index from one boolean selection, never the raw mask (found F39: uninitialised coordinates for label images used as masks).",
    "C16": " (R7) point_by_point.idxpoint returns only orientations that went through sym_u.find_uniq_u, on the one-candidate early return as well as from the sorted loop (dominance on the flow graph).",
    "C17": " R4 also covers a whole-table selection self.__data[:, rows] stored into the copy. R9 also forbids storing permuted values INTO the old column arrays when a writer keeps the caller's array (overlapping views; found F37); R2 no longer demands in-place stores.",
    "C18": " (R8) sparse-frame groups: from_hdf_group reads every dataset and attribute it finds, so to_hdf_group deletes the datasets and per-array attributes of an earlier save that it does not write (found F38).",
}
for _k, _v in ADDED7.items():
    if _k in CHECKS and _v not in CHECKS[_k]["text"]:
        CHECKS[_k]["text"] = CHECKS[_k]["text"] + _v

NOT_YET = {}

NOT_APPLICABLE = {
    "C05": "Which hkl pairs filter_pairs may discard and whether the generated orientation indexes all reflections are "
           "numerical facts about lattices decided at run time by tolerances; no structural clause beyond what "
           "test_indexing.test_2pks already pins is in reach of static analysis.",
}


def main():
    props = [json.loads(l) for l in open(os.path.join(VERIF, "properties.jsonl"))]
    ids = [p["id"] for p in props]
    checks = []
    for pid in ids:
        if pid not in CHECKS:
            continue
        c = CHECKS[pid]
        checks.append(dict(
            property_id=pid,
            quick_cmd="./check %s --tier quick" % pid,
            thorough_cmd="./check %s --tier thorough" % pid,
            evidence_file="evidence/%s.json" % pid,
            replay_cmd_template="./check %s --replay {path}" % pid,
            engine="static-analysis",
            level_claimed=dict(category=c["category"], text=c["text"], design_ref=c["design_ref"]),
            level_note=c["note"],
            technique=c["technique"],
        ))
    na = []
    for pid in ids:
        if pid in CHECKS:
            continue
        reason = NOT_APPLICABLE.get(pid) or NOT_YET.get(pid) or \
            "check not built yet in this round (planned in DESIGN.md section 3); not claimed until its rules exist"
        na.append(dict(property_id=pid, reason=reason))
    man = dict(
        version=1,
        setup_cmd="./setup.sh",
        hooks=dict(guard="FABLE_3DXRD_IMAGED11_VERIF", enable="none: the checks parse sources only; no hook exists in /repo",
                   baseline_off_cmd="cd /repo && /venv/bin/python -m pytest -ra -q -p no:cacheprovider --timeout=900 "
                                    "--continue-on-collection-errors",
                   source_commits=[], add_only=True),
        engines=[
            dict(name="cfront/ccfg", path="engine/cfront.py", kind_free_text="clang-14 JSON AST -> IR, statement CFG, dominators"),
            dict(name="omp", path="engine/omp.py", kind_free_text="OpenMP data-sharing / affine dependence discipline"),
            dict(name="definit", path="engine/definit.py", kind_free_text="definite-assignment dataflow for C locals"),
            dict(name="iface", path="engine/iface.py", kind_free_text=".pyf <-> C signature agreement (crackfortran)"),
            dict(name="poly/vn", path="engine/poly.py", kind_free_text="polynomial value numbering (exact rational arithmetic)"),
            dict(name="pyfacts", path="engine/pyfacts.py", kind_free_text="Python ast facts, statement CFG, small abstract interpreters"),
        ],
        checks=checks,
        not_applicable=na,
        notes="Every check is ./check <ID>; exit 0 ok / 1 VIOLATION / 2 ANALYSIS-ERROR (analyser cannot decide; never a "
              "silent pass). Known findings: known_findings.json.",
    )
    with open(os.path.join(VERIF, "MANIFEST.json"), "w") as f:
        json.dump(man, f, indent=1)
        f.write("\n")
    print("MANIFEST.json: %d checks, %d not_applicable" % (len(checks), len(na)))


if __name__ == "__main__":
    main()
