BL = "src/blobs.c"
CP = "src/connectedpixels.c"
LI = "ImageD11/labelimage.py"
VARIANTS = [
 dict(name="merge-forgets-ooI", kind="break", rule="C12.R1", file=BL, old="    b1[s_ooI] += b2[s_ooI]; /* Sum o * intensity */\n", new=""),
 dict(name="merge-min-as-max", kind="break", rule="C12.R1", file=BL, old="    b1[bb_mn_f] = ((b2[bb_mn_f] < b1[bb_mn_f]) ? b2[bb_mn_f] : b1[bb_mn_f]);", new="    b1[bb_mn_f] = ((b2[bb_mn_f] > b1[bb_mn_f]) ? b2[bb_mn_f] : b1[bb_mn_f]);"),
 dict(name="merge-sum-wrong-field", kind="break", rule="C12.R1", file=BL, old="    b1[s_sI] += b2[s_sI];   /* Sum s * intensity */", new="    b1[s_sI] += b2[s_fI];   /* Sum s * intensity */"),
 dict(name="merge-max-position-not-copied", kind="break", rule="C12.R1", file=BL, old="        b1[mx_I_s] = b2[mx_I_s]; /* slow at Max intensity */\n", new=""),
 dict(name="seed-min-at-zero", kind="break", rule="C12.R1", file=CP, old="        res[i * NPROPERTY + bb_mn_f] = nf + 1;\n", new=""),
 dict(name="merge-source-not-zeroed", kind="break", rule="C12.R1", file=BL, old="    /* Trash b2 to be on the safe side */\n    for (i = 0; i < NPROPERTY; i++)\n        b2[i] = 0;", new="    /* b2 left alone */\n    b2[s_1] = b2[s_1];"),
 dict(name="titles-swap-IMax_s-f", kind="break", rule="C12.R2", file=LI, old='    titles += "  IMax_int  IMax_s  IMax_f  IMax_o"', new='    titles += "  IMax_int  IMax_f  IMax_s  IMax_o"'),
 dict(name="tuple-swaps-min-max-f", kind="break", rule="C12.R2", file=LI, old="                    i[bb_mn_s],i[bb_mx_s],i[bb_mn_f],i[bb_mx_f],", new="                    i[bb_mn_s],i[bb_mx_s],i[bb_mx_f],i[bb_mn_f],"),
 dict(name="format-one-column-short", kind="break", rule="C12.R2", file=LI, old='    format += "  %.4f"*6\n', new='    format += "  %.4f"*5\n'),
 dict(name="sigo-prints-covso", kind="break", rule="C12.R2", file=LI, old="                    i[m_oo], i[m_so], i[m_fo],", new="                    i[m_so], i[m_oo], i[m_fo],"),
 dict(name="first-frame-no-swap", kind="break", rule="C12.R3", file=LI, old="            # Swap the blob images\n            self.lastbl, self.blim = self.blim, self.lastbl\n            self.lastnp = self.npk\n            self.lastres = self.res\n            return", new="            self.lastnp = self.npk\n            self.lastres = self.res\n            return"),
 dict(name="overlaps-when-previous-empty", kind="break", rule="C12.R3", file=LI, old="        if self.npk > 0 and self.lastnp > 0:", new="        if self.npk > 0:"),
 dict(name="overlaps-args-swapped", kind="break", rule="C12.R3", file=LI, old="            self.npk = cImageD11.bloboverlaps(self.lastbl,\n                                              self.lastnp,\n                                              self.lastres,\n                                              self.blim,\n                                              self.npk,\n                                              self.res,", new="            self.npk = cImageD11.bloboverlaps(self.blim,\n                                              self.npk,\n                                              self.res,\n                                              self.lastbl,\n                                              self.lastnp,\n                                              self.lastres,"),
 dict(name="lastres-stale-when-empty", kind="break", rule="C12.R3", file=LI, old="        if self.npk > 0:\n            self.lastres = self.res[:self.npk]  # free old lastres I hope\n        else:\n            self.lastres = None", new="        if self.npk > 0:\n            self.lastres = self.res[:self.npk]  # free old lastres I hope"),
 dict(name="moved-row-via-merge", kind="break", rule="C12.R4", file=CP, regex=True,
      old=r"                for \(j = 0; j < NPROPERTY; j\+\+\) \{\n                    res2\[NPROPERTY \* \(T\[i\] - 1\) \+ j\] =\n                        res2\[NPROPERTY \* \(link\[i\] - 1\) \+ j\];\n                    res2\[NPROPERTY \* \(link\[i\] - 1\) \+ j\] = 0;\n                \}",
      new="                merge(&res2[NPROPERTY * (T[i] - 1)], &res2[NPROPERTY * (link[i] - 1)]);"),
 dict(name="cross-frame-merge-direction", kind="break", rule="C12.R4", file=CP, old="                merge(&res2[NPROPERTY * jpk], &res1[NPROPERTY * ipk]);", new="                merge(&res1[NPROPERTY * ipk], &res2[NPROPERTY * jpk]);"),
 dict(name="label-spaces-overlap", kind="break", rule="C12.R4", file=CP, old="            dset_makeunion(link, p2, p1 + n2 + 1);", new="            dset_makeunion(link, p2, p1 + n2);"),
 dict(name="keep-merge-reordered", kind="keep", file=BL, old="    b1[s_1] += b2[s_1];     /* Npix */\n    b1[s_I] += b2[s_I];     /* Sum intensity */", new="    b1[s_I] += b2[s_I];     /* Sum intensity */\n    b1[s_1] += b2[s_1];     /* Npix */"),
 dict(name="keep-format-more-digits", kind="keep", file=LI, old='    format += "  %.4f  %.4f"\n', new='    format += "  %.5f  %.5f"\n'),
]
