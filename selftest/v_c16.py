F = "ImageD11/sym_u.py"
VARIANTS = [
 dict(name="trigonal-transposed-generator", kind="break", rule="C16.P1", file=F, old='generate_group ( "-y,x-y,z", "y,x,-z" )', new='generate_group ( "y,-x-y,z", "y,x,-z" )'),
 dict(name="tetragonal-mirror", kind="break", rule="C16.P1", file=F, old='generate_group ( "-y,x,z", "-x,y,-z" )', new='generate_group ( "-y,x,z", "-x,y,z" )'),
 dict(name="orthorhombic-missing-generator", kind="break", rule="C16.P1", file=F, old='generate_group( "-x,-y,z", "-x,y,-z" )', new='generate_group( "-x,-y,z" )'),
 dict(name="cubic-four-fold-typo", kind="break", rule="C16.P1", file=F, old='generate_group( "z,x,y",  "-y,x,z" )', new='generate_group( "z,x,y",  "-y,x,-z" )'),
 dict(name="hexagonal-on-wrong-axis", kind="break", rule="C16.P1", file=F, old='generate_group ( "-y,x-y,z", "-x,-y,z", "y,x,-z" )', new='generate_group ( "x,-z,y-z", "-x,-y,z", "y,x,-z" )'),
 dict(name="m_from_string-column-convention", kind="break", rule="C16.P1", file=F, old="    return np.array(m)\n\ndef fmt(c):", new="    return np.array(m).T\n\ndef fmt(c):", ),
 dict(name="registry-typo", kind="break", rule="C16.R2", file=F, old="'monoclinic_b','triclinic','rhombohedralP']", new="'monoclinic_b','triclinic','rhombohedral']"),
 dict(name="uniq-applied-to-running-best", kind="break", rule="C16.R3", file=F, old="        cand = grp.op(o, u)\n", new="        cand = grp.op(o, uniq)\n"),
 dict(name="uniq-early-exit", kind="break", rule="C16.R3", file=F, old="            uniq = cand\n            tmax = t\n    return np.array(uniq)", new="            uniq = cand\n            tmax = t\n            break\n    return np.array(uniq)"),
 dict(name="uniq-nonstrict", kind="break", rule="C16.R3", file=F, old="        if func(cand) > tmax:", new="        if func(cand) >= tmax:"),
 dict(name="user-passes-constructor", kind="break", rule="C16.R4", file="ImageD11/refinegrains.py", regex=True,
      old=r"g = getgroup\(\s*symmetry\s*\)\(\)", new="g = getgroup( symmetry )"),
 dict(name="keep-generator-order", kind="keep", file=F, old='generate_group ( "-y,x,z", "-x,y,-z" )', new='generate_group ( "-x,y,-z", "-y,x,z" )'),
 dict(name="keep-cubic-other-generators", kind="keep", file=F, old='generate_group( "z,x,y",  "-y,x,z" )', new='generate_group( "y,z,x",  "y,-x,z" )'),
 dict(name="keep-spaces-in-strings", kind="keep", file=F, old='generate_group("-x,-y,z" )', new='generate_group(" -x, -y, z" )'),
]
