#!/venv/bin/python
"""Both-ways variant suite.

Each variant is an edit (old -> new text, exactly one occurrence unless count given) of one file of the
current /repo tree, applied to a scratch copy under $TMPDIR (removed afterwards).  kind 'refuse' (breaking, but without
positive evidence in reach of the analysis) must make the check exit 2;  kind 'break' must make
./check <pid> exit 1 with a VIOLATION naming the expected rule; kind 'keep' (behaviour-preserving) must
leave it at exit 0.  Anything else fails the suite (exit 2).

usage: selftest/run.py [PID ...] [-j N] [--list] [--only name-substring]
"""
import argparse
import importlib
import json
import os
import re
import shutil
import subprocess
import sys
import tempfile
from concurrent.futures import ThreadPoolExecutor

HERE = os.path.dirname(os.path.abspath(__file__))
VERIF = os.path.dirname(HERE)
sys.path.insert(0, VERIF)
REPO = os.environ.get("VERIF_ROOT", "/repo")


def make_base(tmp):
    base = os.path.join(tmp, "base")
    os.makedirs(base)
    subprocess.check_call(["rsync", "-a", "--prune-empty-dirs",
                           "--exclude", ".git", "--exclude", "build", "--exclude", "docs", "--exclude", "/test",
                           "--exclude", "webgui", "--exclude", "/data", "--exclude", "__pycache__",
                           "--include", "*/", "--include", "*.py", "--include", "*.c", "--include", "*.h",
                           "--include", "*.pyf", "--exclude", "*",
                           REPO + "/", base + "/"])
    return base


def apply_variant(base, tmp, v, n):
    root = os.path.join(tmp, "v%d" % n)
    if v.get("patch"):
        # a unified diff (a seeded change / a behaviour-preserving change kept under seeded/ or benign/): real copy, patch -p1
        shutil.copytree(base, root)
        pr = subprocess.run(["patch", "-p1", "-s", "-f", "--no-backup-if-mismatch", "-i", v["patch"]], cwd=root, capture_output=True, text=True)
        if pr.returncode != 0:
            shutil.rmtree(root, ignore_errors=True)
            return None, "patch does not apply: %s" % (pr.stdout + pr.stderr)[-200:]
        return root, None
    # hard-link copy is enough: we rewrite (not modify in place) the edited file
    shutil.copytree(base, root, copy_function=os.link)
    edits = v.get("edits") or [dict(file=v["file"], old=v["old"], new=v["new"], count=v.get("count", 1),
                                      regex=v.get("regex", False), strict=v.get("strict", True))]
    for e in edits:
        p = os.path.join(root, e["file"])
        with open(p, encoding="utf-8", errors="replace") as f:
            s = f.read()
        if e.get("regex"):
            s2, k = re.subn(e["old"], e["new"], s, count=e.get("count", 1), flags=re.S)
        else:
            k = s.count(e["old"])
            s2 = s.replace(e["old"], e["new"], e.get("count", 1)) if k else s
        want = e.get("count", 1)
        if k < 1 or (not e.get("regex") and e.get("strict", True) and k != want and want == 1):
            return None, "edit does not apply to %s (%d occurrences of %r)" % (e["file"], k, e["old"][:60])
        os.unlink(p)
        with open(p, "w", encoding="utf-8") as f:
            f.write(s2)
    return root, None


def run_one(args):
    base, tmp, pid, v, n = args
    root, err = apply_variant(base, tmp, v, n)
    if root is None:
        return (pid, v, "STALE", err)
    env = dict(os.environ, VERIF_NO_EVIDENCE="1")
    p = subprocess.run([os.path.join(VERIF, "check"), pid, "--root", root, "--tier", "quick"],
                       stdout=subprocess.PIPE, stderr=subprocess.STDOUT, env=env)
    out = p.stdout.decode(errors="replace")
    shutil.rmtree(root, ignore_errors=True)
    kind = v["kind"]
    if kind == "break":
        if p.returncode == 1 and "VIOLATION property=%s" % pid in out:
            want = v.get("rule")
            if want and ("[%s" % want) not in out:
                return (pid, v, "WRONG-RULE", "expected rule %s; got:\n%s" % (want, _viol(out)))
            return (pid, v, "OK", _viol(out)[:200])
        return (pid, v, "MISSED", "exit %d\n%s" % (p.returncode, out[-600:]))
    elif kind == "keep-or-refuse":
        # a behaviour-preserving change written by someone who has not seen the checks: silence (exit 0) is right, 'cannot decide'
        # (exit 2) is tolerated and counted, a VIOLATION is a false alarm
        if p.returncode == 0:
            return (pid, v, "OK", "")
        if p.returncode == 2 and "ANALYSIS-ERROR" in out:
            return (pid, v, "OK", "undecided")
        return (pid, v, "FALSE-ALARM", out[-800:])
    elif kind == "refuse":
        # a breaking change for which the analysis has no positive evidence of a violation: it must refuse to pass (exit 2,
        # 'cannot decide'), never exit 0
        if p.returncode == 2 and "ANALYSIS-ERROR" in out:
            return (pid, v, "OK", "")
        return (pid, v, "MISSED" if p.returncode == 0 else "UNEXPECTED", "exit %d\n%s" % (p.returncode, out[-600:]))
    else:
        if p.returncode == 0:
            return (pid, v, "OK", "")
        return (pid, v, "FALSE-ALARM" if p.returncode == 1 else "ANALYSIS-ERROR", out[-800:])


def _viol(out):
    return "\n".join(l for l in out.splitlines() if l.startswith("   ") and "[" in l and "instances" not in l)


def main():
    ap = argparse.ArgumentParser()
    ap.add_argument("pids", nargs="*")
    ap.add_argument("-j", type=int, default=16)
    ap.add_argument("--list", action="store_true")
    ap.add_argument("--only", default=None)
    ap.add_argument("-v", action="store_true")
    ap.add_argument("--stale-ok", action="store_true", help="variants whose edit no longer applies to the tree are skipped, not failed")
    ap.add_argument("--no-saved", action="store_true", help="only the hand-written variants, not the saved seeded / benign change sets")
    a = ap.parse_args()
    mods = sorted(f[:-3] for f in os.listdir(HERE) if re.match(r"v_c\d+\.py$", f))
    jobs = []
    for mn in mods:
        pid = mn[2:].upper()
        if a.pids and pid not in [x.upper() for x in a.pids]:
            continue
        mod = importlib.import_module("selftest." + mn)
        extra = []
        if not a.no_saved:
            # the independently seeded breaking changes of this property (seeded/<tag>/patch.diff) and the behaviour-preserving
            # change sets written for it (benign/<tag>/benign_N.diff) are part of the suite
            sd = os.path.join(VERIF, "seeded")
            for tag in sorted(os.listdir(sd)) if os.path.isdir(sd) else []:
                mp = os.path.join(sd, tag, "meta.json")
                if not os.path.exists(mp):
                    continue
                meta = json.load(open(mp))
                caught = [k for k in (meta.get("caught_by_checks") or {}) if re.match(r"C\d\d$", k)]
                # a seed belongs to the suite of every check that reports it (seed_matrix.py records that); a seed nobody reports yet
                # stays with its own property, where it shows up as MISSED
                if pid in caught or (not caught and meta.get("property") == pid):
                    extra.append(dict(name="seed:%s" % tag, kind="break", patch=os.path.join(sd, tag, "patch.diff")))
            bd = os.path.join(VERIF, "benign")
            for tag in sorted(os.listdir(bd)) if os.path.isdir(bd) else []:
                if tag[:3] == pid and os.path.isdir(os.path.join(bd, tag)):
                    for f_ in sorted(os.listdir(os.path.join(bd, tag))):
                        if re.match(r"benign_\d+\.diff$", f_):
                            extra.append(dict(name="benign:%s/%s" % (tag, f_[:-5]), kind="keep-or-refuse", patch=os.path.join(bd, tag, f_)))
        for v in list(mod.VARIANTS) + extra:
            if a.only and a.only not in v["name"]:
                continue
            jobs.append((pid, v))
    if a.list:
        for pid, v in jobs:
            print(pid, v["kind"], v["name"])
        return 0
    tmp = tempfile.mkdtemp(prefix="verif_selftest_")
    try:
        base = make_base(tmp)
        with ThreadPoolExecutor(max_workers=a.j) as ex:
            res = list(ex.map(run_one, [(base, tmp, pid, v, n) for n, (pid, v) in enumerate(jobs)]))
    finally:
        shutil.rmtree(tmp, ignore_errors=True)
    bad = 0
    nstale = 0
    for pid, v, status, info in res:
        if status == "STALE" and a.stale_ok:
            nstale += 1
            continue
        if status != "OK" or a.v:
            print("%-14s %s %-6s %s" % (status, pid, v["kind"], v["name"]))
            if status != "OK":
                print("      " + info.replace("\n", "\n      "))
        if status != "OK":
            bad += 1
    nb = sum(1 for r in res if r[1]["kind"] in ("break", "refuse"))
    nund = sum(1 for r in res if r[2] == "OK" and r[3] == "undecided")
    print("selftest: %d variants (%d breaking, %d preserving%s), %d not as expected%s" % (
        len(res), nb, len(res) - nb, (", %d of them left undecided" % nund) if nund else "", bad,
        (", %d skipped (edit does not apply to this tree)" % nstale) if nstale else ""))
    return 2 if bad else 0


if __name__ == "__main__":
    sys.exit(main())
