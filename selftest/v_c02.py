TR = "ImageD11/transform.py"
PBP = "ImageD11/sinograms/point_by_point.py"
CD = "src/cdiffraction.c"
GVG = "ImageD11/gv_general.py"
VARIANTS = [
 dict(name="g_from_k-not-a-rotation", kind="break", rule="C02.P1", file=TR, old="    g[1, :] = -np.sin(om) * k[0, :] + np.cos(om) * k[1, :]", new="    g[1, :] = np.sin(om) * k[0, :] + np.cos(om) * k[1, :]"),
 dict(name="numba-chi-shear", kind="break", rule="C02.P1", file=PBP, old="        t[2, :] = -s * k[1, :] + c * k[2, :]\n        k = t.copy()\n    # This is the reverse rotation", new="        t[2, :] = -s * k[1, :] + k[2, :]\n        k = t.copy()\n    # This is the reverse rotation"),
 dict(name="k-vectors-full-angle", kind="break", rule="C02.P2", file=TR, old="    c = np.cos(tth / 2)  # cos theta\n    s = np.sin(tth / 2)  # sin theta\n    ds = 2 * s / wvln\n    k = np.zeros((3, tth.shape[0]), float)", new="    c = np.cos(tth / 2)  # cos theta\n    s = np.sin(tth / 2)  # sin theta\n    ds = 2 * np.sin(tth) / wvln\n    k = np.zeros((3, tth.shape[0]), float)"),
 dict(name="c-gv-rotation-scaled", kind="break", rule="C02.P3", file=CD, regex=True, count=1, old=r"(void compute_gv\(.*?)gv\[i\]\[2\] = v\[2\];", new=r"\1gv[i][2] = v[2] * cw;"),
 dict(name="c-ds-without-sqrt", kind="break", rule="C02.P3", file=CD, old="        out[i][2] = sqrt(k[0] * k[0] + k[1] * k[1] + k[2] * k[2]);", new="        out[i][2] = sqrt(k[0] * k[0] + k[1] * k[1]) + k[2] * k[2];"),
 dict(name="c-normalise-by-yz-only", kind="break", rule="C02.P3", file=CD, regex=True, count=1, old=r"(void compute_gv\(.*?)modyz = 1\. / sqrt\(d\[0\] \* d\[0\] \+ d\[1\] \* d\[1\] \+ d\[2\] \* d\[2\]\);", new=r"\1modyz = 1. / sqrt(d[1] * d[1] + d[2] * d[2]);"),
 dict(name="uncompute-eta-not-masked", kind="break", rule="C02.R4", file=TR, old="    eta2 = np.degrees(eta_two) * valid", new="    eta2 = np.degrees(eta_two)"),
 dict(name="valid-one-sided", kind="break", rule="C02.R5", file=GVG, old="    valid = (~msk) & ( quot >= -1) & ( quot <= 1)", new="    valid = (~msk) & ( quot >= -1)"),
 dict(name="valid-ored", kind="break", rule="C02.R5", file=GVG, old="    valid = (~msk) & ( quot >= -1) & ( quot <= 1)", new="    valid = (~msk) & (( quot >= -1) | ( quot <= 1))"),
 dict(name="c-geometry-wedge-chi-order", kind="break", rule="C02.R6", file=CD, old="    matmat(cmat, wmat, mat);", new="    matmat(wmat, cmat, mat);", count=1, strict=False),
 dict(name="keep-mask-written-other-way", kind="keep", file=GVG, old="    valid = (~msk) & ( quot >= -1) & ( quot <= 1)", new="    valid = ( -1 <= quot ) & ( 1 >= quot ) & (~msk)"),
 dict(name="keep-k-refactored", kind="keep", file=TR, old="    k[0, :] = -ds * s  # this is negative x", new="    k[0, :] = -2 * s * s / wvln"),
]
