import os
F = "ImageD11/sparseframe.py"
SP = "src/sparse_image.c"
VARIANTS = [
 dict(name="sort-passes-self-again", kind="break", rule="C14.R1", file=F, old="        order = np.lexsort( ( self.col, self.row ) )\n        self.reorder( order )", new="        order = np.lexsort( ( self.col, self.row ) )\n        self.reorder( self, order )"),
 dict(name="reorder-col-not-permuted", kind="break", rule="C14.R2", file=F, old="        self.col[:] = self.col[order]\n", new=""),
 dict(name="sort-column-major", kind="break", rule="C14.R2", file=F, old="        order = np.lexsort( ( self.col, self.row ) )", new="        order = np.lexsort( ( self.row, self.col ) )"),
 dict(name="overlaps-wrong-pointer-advances", kind="break", rule="C14.R3", file=SP, old="            if (j1[p1] > j2[p2]) {\n                p2++;\n            } else if (j1[p1] < j2[p2]) {\n                p1++;", new="            if (j1[p1] > j2[p2]) {\n                p1++;\n            } else if (j1[p1] < j2[p2]) {\n                p2++;"),
 dict(name="overlaps-loop-or", kind="break", rule="C14.R3", file=SP, old="    while ((p1 < nnz1) && (p2 < nnz2)) {\n        /* Three cases:", new="    while ((p1 < nnz1) || (p2 < nnz2)) {\n        /* Three cases:"),
 dict(name="coverlaps-sign-of-difference", kind="break", rule="C14.R3", file=SP, old="        if (p1 > p2)\n            i2++;\n        if (p1 < p2)\n            i1++;", new="        if ((int)(p1 - p2) > 0)\n            i2++;\n        if ((int)(p1 - p2) < 0)\n            i1++;"),
 dict(name="coverlaps-16bit-shift", kind="break", rule="C14.R3", file=SP, old="        p1 = (((uint32_t)row1[i1]) << 16) + col1[i1];", new="        p1 = (row1[i1] << 16) + col1[i1];"),
 dict(name="mask_to_coo-accepts-65536", kind="break", rule="C14.R3", file=SP, old="    if ((nf < 1) || (nf > 65535))", new="    if ((nf < 1) || (nf > 65536))"),
 dict(name="compress-last-run-count-missing", kind="break", rule="C14.R3", file=SP, old="    /* write last */\n    i[c] = ik;\n    j[c] = jk;\n    oi[c] = t;\n    c++;", new="    /* write last */\n    i[c] = ik;\n    j[c] = jk;\n    c++;"),
 dict(name="overlaps-no-empty-guard", kind="break", rule="C14.R4", file=F, old="    if npx == 0: # there are no overlaps (and f2py refuses empty arrays)\n        return scipy.sparse.coo_matrix( (n1, n2), dtype='i' )\n", new=""),
 dict(name="histogram-too-short", kind="break", rule="C14.R4", file=F, old="    tmp = np.empty( max(n1, n2)+1, 'i') # for histogram", new="    tmp = np.empty( max(n1, n2), 'i') # for histogram"),
 dict(name="matrix-no-label-check", kind="break", rule="C14.R4", file=F, old="        assert labels2.max()-1 < n2\n", new=""),
 dict(name="default-itype-int32", kind="break", rule="C14.R5", file=F, old="    def __init__(self, row, col, shape, itype=np.uint16, pixels=None,", new="    def __init__(self, row, col, shape, itype=np.int32, pixels=None,"),
 dict(name="keep-overlaps-else-chain", kind="keep", file=SP, old="        if (p1 > p2)\n            i2++;\n        if (p1 < p2)\n            i1++;", new="        if (p2 < p1)\n            i2++;\n        if (p2 > p1)\n            i1++;"),
 dict(name="keep-guard-other-spelling", kind="keep", file=F, old="    if npx == 0: # there are no overlaps (and f2py refuses empty arrays)", new="    if not npx > 0:"),
 dict(name="keep-overlaps-shortcut-when-row-ranges-strictly-disjoint", kind="keep", patch=os.path.join(os.path.dirname(os.path.abspath(__file__)), "patches", "c14_disjoint_rows_shortcut_strict.diff")),
 dict(name="F24-compress_duplicates-pairs-declared-input-only", kind="break", rule="C14.R6", file="src/_cImageD11.pyf",
      old="        integer, dimension(n), intent(c, inout) :: i, j\n        integer, dimension(n), intent(c, inout) :: oi, oj", new="        integer, dimension(n), intent(c) :: i, j\n        integer, dimension(n), intent(c, inout) :: oi, oj"),
 dict(name="overlaps_linear-pairs-keep-the-caller-dtype", kind="break", rule="C14.R6", file="ImageD11/sparseframe.py",
      old="        r = np.asarray( labels1 )[ self.ki[:npx] ].astype( 'i' )  # my labels", new="        r = np.asarray( labels1 )[ self.ki[:npx] ]  # my labels"),
]
