FS = "ImageD11/finite_strain.py"
GR = "ImageD11/grain.py"
TM = "ImageD11/sinograms/tensor_map.py"
VARIANTS = [
 dict(name="grain-e6-order-voigt", kind="break", rule="C10.R1", file=GR, old="    return np.array((m[0, 0], m[0, 1], m[0, 2],\n                     m[1, 1], m[1, 2],\n                     m[2, 2]))", new="    return np.array((m[0, 0], m[1, 1], m[2, 2],\n                     m[1, 2], m[0, 2],\n                     m[0, 1]))"),
 dict(name="fs-e6_to_symm-typo", kind="break", rule="C10.R1", file=FS, old="                     (e13,e23,e33)))", new="                     (e13,e22,e33)))"),
 dict(name="lab-half-integer-uses-S", kind="break", rule="C10.R2", file=FS, old="            Vm = np.linalg.matrix_power(V, m2)", new="            Vm = np.linalg.matrix_power(S, m2)"),
 dict(name="lab-divisor-m", kind="break", rule="C10.R2", file=FS, old="            Bm = np.linalg.matrix_power( np.dot( self.F, self.F.T ), m )\n            em = (Bm - np.eye(3))/m2", new="            Bm = np.linalg.matrix_power( np.dot( self.F, self.F.T ), m )\n            em = (Bm - np.eye(3))/m"),
 dict(name="ref-log-halved", kind="break", rule="C10.R2", file=FS, old="            Em = logFFT # empirically", new="            Em = logFFT * 0.5 # empirically"),
 dict(name="ref-even-uses-FFt", kind="break", rule="C10.R2", file=FS, old="            Cm = np.linalg.matrix_power( np.dot( self.F.T, self.F ), m )", new="            Cm = np.linalg.matrix_power( np.dot( self.F, self.F.T ), m )"),
 dict(name="polar-S-from-w", kind="break", rule="C10.R3", file=FS, old="            S = np.dot( vh.T, np.dot( np.diag(sing),  vh ) )", new="            S = np.dot( w, np.dot( np.diag(sing),  w.T ) )"),
 dict(name="F-not-transposed", kind="break", rule="C10.R3", file=FS, old="        self.F = np.dot( ubi.T, ub0.T )", new="        self.F = np.dot( ubi.T, ub0 )"),
 dict(name="map-sample-uses-S", kind="break", rule="C10.R3", file=TM, old="        V = np.dot(w, np.dot(np.diag(sing), w.T))\n        em = V - np.eye(3)", new="        V = np.dot(vh.T, np.dot(np.diag(sing), vh))\n        em = V - np.eye(3)"),
 dict(name="map-crystal-F-order", kind="break", rule="C10.R3", file=TM, regex=True, count=1,
      old=r"(def ubi_and_unitcell_to_eps_crystal.*?)F = np\.dot\(ubi\.T, B\.T\)", new=r"\1F = np.dot(B.T, ubi.T)"),
 dict(name="eps_sample-uses-ref", kind="break", rule="C10.R4", file=GR, old="        eps = F.finite_strain_lab(m)", new="        eps = F.finite_strain_ref(m)"),
 dict(name="eps_grain-ignores-m", kind="break", rule="C10.R4", file=GR, old="        eps = F.finite_strain_ref(m)", new="        eps = F.finite_strain_ref()"),
 dict(name="rotation-wrong-side", kind="break", rule="C10.R4", file=TM, old="        res[...] = U.dot(tensor_crystal).dot(U.T)", new="        res[...] = U.T.dot(tensor_crystal).dot(U)"),
 dict(name="keep-polar-V-regrouped", kind="keep", file=FS, old="            V = np.dot( w   , np.dot( np.diag(sing), w.T ) )", new="            V = np.dot( np.dot( w, np.diag(sing) ), w.T )"),
 dict(name="keep-even-path-explicit", kind="keep", file=FS, old="            em = (Bm - np.eye(3))/m2", new="            em = (Bm - np.eye(3))/(2*m)"),
 dict(name="reference-B-uses-U-of-grain", kind="break", rule="C10.R4", file=GR, strict=False, old="            B = dzero_cell.UB\n", new="            B = dzero_cell.U\n"),
 dict(name="reference-B-test-negated", kind="break", rule="C10.R4", file=GR, strict=False, old='        if hasattr(dzero_cell, "UB"):\n            B = dzero_cell.UB', new='        if not hasattr(dzero_cell, "UB"):\n            B = dzero_cell.UB'),
 dict(name="keep-reference-B-conditional-expression", kind="keep", file=GR, strict=False,
      old='        if hasattr(dzero_cell, "UB"):\n            B = dzero_cell.UB\n        else:\n            B = ImageD11.unitcell.unitcell(dzero_cell).B\n',
      new='        B = dzero_cell.UB if hasattr(dzero_cell, "UB") else ImageD11.unitcell.unitcell(dzero_cell).B\n'),
]
