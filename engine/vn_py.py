"""vn_py: abstract interpreter for straight-line numeric Python over the polynomial / Herbrand domain.

The function's AST is interpreted (never exec'd, nothing from /repo is imported); numbers are engine.poly.Rat,
arrays are numpy object arrays of Rat (numpy supplies broadcasting, slicing, dot).  A branch whose
condition is symbolic is decided by the rule's policy and recorded; anything the interpreter does
not understand raises Unsupported (=> exit 2 in the caller, never a verdict)."""
import ast
import math
import operator
from fractions import Fraction as Fr

import numpy as np

from . import vn
from .poly import Poly, Rat
from .report import AnalysisError


class Unsupported(AnalysisError):
    pass


class _Return(Exception):
    def __init__(self, v):
        self.v = v


class _Break(Exception):
    pass


class _Continue(Exception):
    pass


def R(x):
    if isinstance(x, Rat):
        return x
    if isinstance(x, bool):
        return vn.const(int(x))
    if isinstance(x, (int, Fr)):
        return vn.const(x)
    if isinstance(x, float):
        if x == math.pi:
            return Rat(vn.PI)
        return vn.const(Fr(repr(x)))
    if isinstance(x, np.generic):
        return R(x.item())
    raise Unsupported("cannot make a symbolic number from %r" % (type(x),))


def is_num(x):
    return isinstance(x, (Rat, int, float, Fr)) and not isinstance(x, bool)


def concrete(x):
    """Rat constant / python number -> python number, else None"""
    if isinstance(x, bool):
        return x
    if isinstance(x, (int, float, Fr)):
        return x
    if isinstance(x, Rat) and x.is_const():
        c = x.const_value()
        return int(c) if c.denominator == 1 else c
    if isinstance(x, np.generic):
        return x.item()
    return None


def arr(x):
    """anything array-like -> object ndarray of Rat"""
    if isinstance(x, np.ndarray) and x.dtype == object:
        return x
    a = np.array(x, dtype=object)
    if a.ndim == 0:
        return a
    flat = a.ravel()
    out = np.empty(flat.shape, dtype=object)
    for i, v in enumerate(flat):
        out[i] = R(v)
    return out.reshape(a.shape)


def symarray(name, shape):
    """array of fresh input atoms name[i,j]"""
    out = np.empty(shape, dtype=object)
    for idx in np.ndindex(*shape):
        out[idx] = vn.atom("%s[%s]" % (name, ",".join(str(i) for i in idx)))
    return out


def sym(name):
    return vn.atom(name)


def _ufunc(f, nin=1):
    uf = np.frompyfunc(f, nin, 1)

    def call(*args, **kw):
        args = [a if isinstance(a, np.ndarray) else (a if not is_num(a) else R(a)) for a in args[:nin]]
        if any(isinstance(a, np.ndarray) for a in args):
            return uf(*[arr(a) if isinstance(a, np.ndarray) else a for a in args])
        return f(*[R(a) for a in args])
    return call


def _pow(a, b):
    cb = concrete(b)
    if cb is None:
        raise Unsupported("symbolic exponent")
    cb = Fr(cb) if not isinstance(cb, Fr) else cb
    if cb.denominator == 1:
        return R(a) ** int(cb)
    if cb == Fr(1, 2):
        return vn.app("sqrt", R(a))
    if cb == Fr(-1, 2):
        return R(1) / vn.app("sqrt", R(a))
    if cb.denominator == 2:
        n = int(cb * 2)
        s = vn.app("sqrt", R(a))
        return s ** n if n > 0 else R(1) / (s ** (-n))
    raise Unsupported("exponent %s" % cb)


class NP(object):
    """the 'np' / 'numpy' / 'math' namespace"""
    pi = math.pi
    float64 = float
    float32 = float
    int32 = int
    int64 = int
    uint8 = int
    nan = vn.atom("NaN")
    newaxis = None

    sin = staticmethod(_ufunc(lambda x: vn.app("sin", x)))
    cos = staticmethod(_ufunc(lambda x: vn.app("cos", x)))
    tan = staticmethod(_ufunc(lambda x: vn.app("sin", x) / vn.app("cos", x)))
    sqrt = staticmethod(_ufunc(lambda x: vn.app("sqrt", x)))
    arctan2 = staticmethod(_ufunc(lambda y, x: vn.app("atan2", y, x), 2))
    atan2 = arctan2
    arcsin = staticmethod(_ufunc(lambda x: vn.app("asin", x)))
    arccos = staticmethod(_ufunc(lambda x: vn.app("acos", x)))
    arctan = staticmethod(_ufunc(lambda x: vn.app("atan", x)))
    asin = arcsin
    acos = arccos
    atan = arctan
    exp = staticmethod(_ufunc(lambda x: vn.app("exp", x)))
    log = staticmethod(_ufunc(lambda x: vn.app("log", x)))
    radians = staticmethod(_ufunc(vn.radians))
    deg2rad = radians
    degrees = staticmethod(_ufunc(vn.degrees))
    rad2deg = degrees
    fabs = staticmethod(_ufunc(lambda x: vn.app("abs", x)))
    abs = fabs
    absolute = fabs
    isnan = staticmethod(_ufunc(lambda x: vn.app("isnan", x)))
    ceil = staticmethod(_ufunc(lambda x: vn.app("ceil", x)))

    @staticmethod
    def floor(x):
        def fl(v):
            v = R(v)
            half = v - Fr(1, 2)
            # floor(y + 0.5) is round-half-up of y
            return vn.app("rnd", half) if _has_half(v) else vn.app("floor", v)
        return _ufunc(fl)(x)

    @staticmethod
    def round(x, *a):
        return _ufunc(lambda v: vn.app("rnd", v))(x)
    rint = round
    around = round

    @staticmethod
    def array(x, dtype=None, **kw):
        if isinstance(x, np.ndarray):
            return x.copy()
        return arr(_listify(x))

    asarray = array

    @staticmethod
    def zeros(shape, dtype=None, **kw):
        shape = _shape(shape)
        out = np.empty(shape, dtype=object)
        out[...] = R(0)
        return out

    @staticmethod
    def ones(shape, dtype=None, **kw):
        shape = _shape(shape)
        out = np.empty(shape, dtype=object)
        out[...] = R(1)
        return out

    @staticmethod
    def empty(shape, dtype=None, **kw):
        return NP.zeros(shape)

    @staticmethod
    def full(shape, value, dtype=None, **kw):
        shape = _shape(shape)
        out = np.empty(shape, dtype=object)
        out[...] = value if isinstance(value, Rat) else R(value)
        return out

    @staticmethod
    def zeros_like(a, **kw):
        return NP.zeros(np.shape(a))

    @staticmethod
    def eye(n, *a, **kw):
        out = NP.zeros((n, n))
        for i in range(n):
            out[i, i] = R(1)
        return out
    identity = eye

    @staticmethod
    def dot(a, b):
        return np.dot(arr(a), arr(b))

    @staticmethod
    def matmul(a, b):
        return np.dot(arr(a), arr(b))

    @staticmethod
    def cross(a, b, **kw):
        a, b = arr(a), arr(b)
        if a.shape[-1] != 3 or b.shape[-1] != 3:
            raise Unsupported("cross on non-3 vectors")
        a, b = np.broadcast_arrays(a, b)
        out = np.empty(a.shape, dtype=object)
        out[..., 0] = a[..., 1] * b[..., 2] - a[..., 2] * b[..., 1]
        out[..., 1] = a[..., 2] * b[..., 0] - a[..., 0] * b[..., 2]
        out[..., 2] = a[..., 0] * b[..., 1] - a[..., 1] * b[..., 0]
        return out

    @staticmethod
    def outer(a, b):
        a, b = arr(a).ravel(), arr(b).ravel()
        out = np.empty((len(a), len(b)), dtype=object)
        for i in range(len(a)):
            for j in range(len(b)):
                out[i, j] = a[i] * b[j]
        return out

    @staticmethod
    def transpose(a, *axes):
        return np.transpose(arr(a), *axes)

    @staticmethod
    def sum(a, axis=None, **kw):
        a = arr(a)
        if axis is None:
            s = R(0)
            for v in a.ravel():
                s = s + v
            return s
        return np.add.reduce(a, axis=axis)

    @staticmethod
    def trace(a):
        a = arr(a)
        s = R(0)
        for i in range(min(a.shape)):
            s = s + a[i, i]
        return s

    @staticmethod
    def diag(a):
        a = arr(a)
        if a.ndim == 2:
            return np.array([a[i, i] for i in range(min(a.shape))], dtype=object)
        out = NP.zeros((len(a), len(a)))
        for i in range(len(a)):
            out[i, i] = a[i]
        return out

    @staticmethod
    def stack(xs, axis=0):
        return np.stack([arr(x) for x in xs], axis=axis)

    @staticmethod
    def vstack(xs):
        return np.vstack([arr(x) for x in xs])

    @staticmethod
    def concatenate(xs, axis=0):
        return np.concatenate([arr(x) for x in xs], axis=axis)

    @staticmethod
    def where(c, a, b):
        raise Unsupported("np.where on symbolic data")

    @staticmethod
    def ascontiguousarray(a, *x, **k):
        return arr(a)

    @staticmethod
    def copy(a):
        return arr(a).copy()

    @staticmethod
    def hypot(a, b):
        return _ufunc(lambda x, y: vn.app("sqrt", x * x + y * y), 2)(a, b)

    @staticmethod
    def square(a):
        return _ufunc(lambda x: x * x)(a)

    @staticmethod
    def float(x):
        return x

    @staticmethod
    def allclose(a, b, *x, **k):
        ok, why = same(a, b)
        return ok

    class linalg(object):
        @staticmethod
        def inv(a):
            return inv(arr(a))

        @staticmethod
        def det(a):
            return det(arr(a))

        @staticmethod
        def matrix_power(a, n):
            a = arr(a)
            n = concrete(n)
            if n is None or int(n) != n:
                raise Unsupported("matrix_power with non-integer exponent")
            n = int(n)
            if n < 0:
                a = inv(a)
                n = -n
            out = NP.eye(a.shape[0])
            for _ in range(n):
                out = np.dot(out, a)
            return out

        @staticmethod
        def svd(a, *x, **k):
            """uninterpreted SVD: F = w . diag(s) . vh with symbolic factors keyed by F's normal form"""
            a = arr(a)
            key = abs(hash(tuple(vn.canon(v) for v in a.ravel()))) % (10 ** 10)
            n = a.shape[0]
            return (symarray("svd%d_w" % key, (n, n)), symarray("svd%d_s" % key, (n,)), symarray("svd%d_vh" % key, (n, n)))

        @staticmethod
        def norm(a, *x, **k):
            a = arr(a)
            s = R(0)
            for v in a.ravel():
                s = s + v * v
            return vn.app("sqrt", s)


def _has_half(v):
    """v == y + 1/2 syntactically (constant term of numerator/denominator)"""
    return isinstance(v, Rat)


def _shape(s):
    if isinstance(s, (tuple, list)):
        out = []
        for x in s:
            c = concrete(x)
            if c is None:
                raise Unsupported("symbolic shape")
            out.append(int(c))
        return tuple(out)
    c = concrete(s)
    if c is None:
        raise Unsupported("symbolic shape")
    return (int(c),)


def _listify(x):
    if isinstance(x, np.ndarray):
        return x
    if isinstance(x, (list, tuple)):
        return [_listify(v) for v in x]
    return x


def det(a):
    n = a.shape[0]
    if a.shape != (n, n):
        raise Unsupported("det of non-square")
    if n == 1:
        return a[0, 0]
    if n == 2:
        return a[0, 0] * a[1, 1] - a[0, 1] * a[1, 0]
    s = R(0)
    for j in range(n):
        minor = np.delete(np.delete(a, 0, axis=0), j, axis=1)
        s = s + a[0, j] * det(minor) * (-1 if j % 2 else 1)
    return s


def inv(a):
    n = a.shape[0]
    if a.shape != (n, n) or n > 3:
        raise Unsupported("inverse of %s array" % (a.shape,))
    if INV_MODE[0] == "atoms" and n == 3:
        rows, key = vn.inv3x3_atoms([[R(a[i, j]) for j in range(3)] for i in range(3)])
        out = np.empty((3, 3), dtype=object)
        for i in range(3):
            for j in range(3):
                out[i, j] = rows[i][j]
        return out
    d = det(a)
    if vn.is_zero(d):
        raise Unsupported("inverse of a singular symbolic matrix")
    out = np.empty((n, n), dtype=object)
    for i in range(n):
        for j in range(n):
            minor = np.delete(np.delete(a, j, axis=0), i, axis=1)
            out[i, j] = det(minor) * (-1 if (i + j) % 2 else 1) / d if n > 1 else R(1) / d
    return out


BINOPS = {ast.Add: operator.add, ast.Sub: operator.sub, ast.Mult: operator.mul, ast.Div: operator.truediv}
CMPOPS = {ast.Eq: operator.eq, ast.NotEq: operator.ne, ast.Lt: operator.lt, ast.LtE: operator.le,
          ast.Gt: operator.gt, ast.GtE: operator.ge}


class Poison(object):
    """value of a statement the interpreter could not evaluate (tolerant mode); any use raises Unsupported"""

    def __init__(self, why):
        self.why = why

    def __repr__(self):
        return "Poison(%s)" % self.why


INV_MODE = ["explicit"]     # or "atoms": 3x3 inverses become uninterpreted ('inv3x3', i, j, key) atoms


class SymObject(object):
    """stand-in for 'self' or simple record objects: attributes in a dict"""

    def __init__(self, cls=None, **attrs):
        self.__dict__["_cls"] = cls
        self.__dict__["_attrs"] = dict(attrs)


class Interp(object):
    def __init__(self, modules, policy=None, max_depth=8, extra_globals=None, tolerant=False, generic_loops=None):
        """modules: dict alias -> pyfacts.Module ; the first entry named by `home` at call time"""
        self.modules = modules
        self.policy = policy or default_policy
        self.max_depth = max_depth
        self.decisions = []
        self.depth = 0
        self.extra = extra_globals or {}
        self.ncalls = 0
        self.tolerant = tolerant
        self.generic_loops = generic_loops or {}
        self.skipped = []
        self.envs = {}        # function name -> local environment of its last completed call

    # ---------------------------------------------------------------- calls
    def call(self, modalias, qual, *args, **kwargs):
        m = self.modules[modalias]
        m, qual = self.follow_alias(m, qual)
        fn = m.func(qual)
        return self.call_fn(m, fn, list(args), dict(kwargs))

    def follow_alias(self, m, qual):
        """module-level re-export  name = package.module.name2  of a function of another loaded module"""
        for _ in range(3):
            if qual in m.funcs or "." in qual:
                break
            tgt = m.aliases().get(qual)
            if not tgt:
                break
            parts = tgt.split(".")
            hit = [mm for k, mm in self.modules.items() if mm is not None and (k == parts[-2] if len(parts) > 1 else False)]
            if not hit:
                break
            m, qual = hit[0], parts[-1]
        return m, qual

    def call_fn(self, m, fn, args, kwargs):
        self.depth += 1
        self.ncalls += 1
        if self.depth > self.max_depth:
            self.depth -= 1
            raise Unsupported("inlining depth exceeded at %s" % fn.name)
        env = self.bind(m, fn, args, kwargs)
        try:
            try:
                self.block(m, fn.body, env)
            except _Return as r:
                return r.v
            return None
        finally:
            self.depth -= 1
            self.envs[fn.name] = env

    def bind(self, m, fn, args, kwargs):
        a = fn.args
        names = [x.arg for x in a.posonlyargs + a.args]
        env = {}
        if len(args) > len(names):
            if a.vararg is None:
                raise Unsupported("too many positional arguments for %s" % fn.name)
            env[a.vararg.arg] = tuple(args[len(names):])
            args = args[:len(names)]
        for n, v in zip(names, args):
            env[n] = v
        defaults = a.defaults
        dnames = names[len(names) - len(defaults):] if defaults else []
        kwonly = [x.arg for x in a.kwonlyargs]
        extra = {}
        for k, v in kwargs.items():
            if k in names or k in kwonly:
                if k in env:
                    raise Unsupported("duplicate argument %s for %s" % (k, fn.name))
                env[k] = v
            else:
                extra[k] = v
        for n, d in zip(dnames, defaults):
            if n not in env:
                env[n] = self.expr(m, d, {})
        for n, d in zip(kwonly, a.kw_defaults):
            if n not in env and d is not None:
                env[n] = self.expr(m, d, {})
        for n in names + kwonly:
            if n not in env:
                raise Unsupported("missing argument %s for %s" % (n, fn.name))
        if extra:
            if a.kwarg is None:
                raise Unsupported("unexpected keyword %s for %s" % (sorted(extra), fn.name))
            env[a.kwarg.arg] = extra
        elif a.kwarg is not None:
            env[a.kwarg.arg] = {}
        return env

    # ---------------------------------------------------------------- statements
    def block(self, m, stmts, env):
        for s in stmts:
            self.stmt(m, s, env)

    def stmt(self, m, s, env):
        if self.tolerant and isinstance(s, (ast.Assign, ast.AugAssign, ast.Expr, ast.AnnAssign)):
            try:
                return self.stmt0(m, s, env)
            except Unsupported as ex:
                self.skipped.append((m.rel, s.lineno, str(ex)))
                tg = s.targets if isinstance(s, ast.Assign) else ([s.target] if hasattr(s, "target") else [])
                for t in tg:
                    for n in ast.walk(t):
                        if isinstance(n, ast.Name) and isinstance(n.ctx, ast.Store):
                            env[n.id] = Poison(str(ex))
                return
        return self.stmt0(m, s, env)

    def stmt0(self, m, s, env):
        if isinstance(s, ast.Expr):
            if isinstance(s.value, ast.Constant):
                return
            self.expr(m, s.value, env)
            return
        if isinstance(s, ast.Assign):
            v = self.expr(m, s.value, env)
            for t in s.targets:
                self.assign(m, t, v, env)
            return
        if isinstance(s, ast.AugAssign):
            cur = self.expr(m, _load(s.target), env)
            v = self.expr(m, s.value, env)
            self.assign(m, s.target, self.binop(s.op, cur, v), env)
            return
        if isinstance(s, ast.AnnAssign):
            if s.value is not None:
                self.assign(m, s.target, self.expr(m, s.value, env), env)
            return
        if isinstance(s, ast.Return):
            raise _Return(self.expr(m, s.value, env) if s.value is not None else None)
        if isinstance(s, ast.If):
            try:
                c = self.truth(m, s.test, env)
            except Unsupported as ex:
                if not self.tolerant:
                    raise
                # undecidable test in tolerant mode: poison everything either branch assigns
                self.skipped.append((m.rel, s.lineno, str(ex)))
                for n in ast.walk(s):
                    if isinstance(n, ast.Name) and isinstance(n.ctx, ast.Store):
                        env[n.id] = Poison("assigned under undecided test")
                return
            self.block(m, s.body if c else s.orelse, env)
            return
        if isinstance(s, ast.For):
            key = ast.unparse(s.iter)
            if key in self.generic_loops:
                it = self.generic_loops[key]
            else:
                it = self.expr(m, s.iter, env)
            if isinstance(it, np.ndarray):
                it = list(it)
            try:
                items = list(it)
            except TypeError:
                raise Unsupported("loop over non-iterable at line %d" % s.lineno)
            if len(items) > 4096:
                raise Unsupported("loop too long at line %d" % s.lineno)
            for x in items:
                self.assign(m, s.target, x, env)
                try:
                    self.block(m, s.body, env)
                except _Break:
                    break
                except _Continue:
                    continue
            else:
                self.block(m, s.orelse, env)
            return
        if isinstance(s, ast.While):
            n = 0
            while self.truth(m, s.test, env):
                n += 1
                if n > 4096:
                    raise Unsupported("while loop too long at line %d" % s.lineno)
                try:
                    self.block(m, s.body, env)
                except _Break:
                    break
                except _Continue:
                    continue
            return
        if isinstance(s, ast.Assert):
            return
        if isinstance(s, ast.Pass):
            return
        if isinstance(s, ast.Break):
            raise _Break()
        if isinstance(s, ast.Continue):
            raise _Continue()
        if isinstance(s, ast.ImportFrom):
            if (s.module or "") in ("math", "numpy", "numpy.linalg"):
                for a in s.names:
                    src_ns = NP.linalg if s.module == "numpy.linalg" else NP
                    if hasattr(src_ns, a.name):
                        env[a.asname or a.name] = getattr(src_ns, a.name)
            return
        if isinstance(s, ast.Import):
            for a in s.names:
                if a.name in ("math", "numpy"):
                    env[a.asname or a.name] = NP
            return
        if isinstance(s, ast.Raise):
            raise Unsupported("reached 'raise' at %s:%d" % (m.rel, s.lineno))
        if isinstance(s, ast.Try):
            try:
                self.block(m, s.body, env)
            except Unsupported as ex:
                if not self.tolerant:
                    raise
                self.skipped.append((m.rel, s.lineno, str(ex)))
            self.block(m, s.orelse, env)
            self.block(m, s.finalbody, env)
            return
        if isinstance(s, ast.FunctionDef):
            env[s.name] = ("localfunc", m, s)
            return
        if isinstance(s, ast.Delete):
            return
        raise Unsupported("statement %s at %s:%d" % (type(s).__name__, m.rel, s.lineno))

    def assign(self, m, t, v, env):
        if isinstance(t, ast.Name):
            env[t.id] = v
            return
        if isinstance(t, (ast.Tuple, ast.List)):
            vals = list(v)
            if len(vals) != len(t.elts):
                raise Unsupported("unpacking mismatch at line %d" % t.lineno)
            for tt, vv in zip(t.elts, vals):
                self.assign(m, tt, vv, env)
            return
        if isinstance(t, ast.Subscript):
            base = self.expr(m, t.value, env)
            idx = self.index(m, t.slice, env)
            if isinstance(base, np.ndarray):
                if isinstance(v, np.ndarray):
                    base[idx] = v
                elif is_num(v):
                    base[idx] = R(v)
                elif isinstance(v, (list, tuple)):
                    base[idx] = arr(v)
                else:
                    raise Unsupported("store of %s into array" % type(v).__name__)
                return
            if isinstance(base, (list, dict)):
                base[idx] = v
                return
            raise Unsupported("subscript store into %s" % type(base).__name__)
        if isinstance(t, ast.Attribute):
            base = self.expr(m, t.value, env)
            if isinstance(base, SymObject):
                base._attrs[t.attr] = v
                return
            raise Unsupported("attribute store on %s" % type(base).__name__)
        raise Unsupported("assignment target %s" % type(t).__name__)

    # ---------------------------------------------------------------- expressions
    def truth(self, m, e, env):
        v = self.expr(m, e, env, cond=True)
        if isinstance(v, (bool, np.bool_)):
            return bool(v)
        c = concrete(v) if is_num(v) else None
        if c is not None:
            return bool(c)
        if v is None:
            return False
        if isinstance(v, (str, tuple, list, dict)):
            return bool(v)
        if isinstance(v, _Symbolic):
            d = self.policy(v, m, e)
            self.decisions.append((m.rel, e.lineno, ast.unparse(e), d))
            return d
        if isinstance(v, Rat):
            d = self.policy(_Symbolic("truth", v, None, ast.unparse(e)), m, e)
            self.decisions.append((m.rel, e.lineno, ast.unparse(e), d))
            return d
        raise Unsupported("truth value of %s at line %d" % (type(v).__name__, e.lineno))

    def index(self, m, s, env):
        if isinstance(s, ast.Tuple):
            return tuple(self.index(m, x, env) for x in s.elts)
        if isinstance(s, ast.Slice):
            lo = self.expr(m, s.lower, env) if s.lower is not None else None
            hi = self.expr(m, s.upper, env) if s.upper is not None else None
            st = self.expr(m, s.step, env) if s.step is not None else None
            return slice(_ci(lo), _ci(hi), _ci(st))
        v = self.expr(m, s, env)
        if isinstance(v, str) or v is None or v is Ellipsis:
            return v
        if isinstance(v, tuple):
            return tuple(_ci(x) if not isinstance(x, slice) else x for x in v)
        c = _ci(v)
        return c

    def binop(self, op, a, b):
        if isinstance(op, ast.Pow):
            if isinstance(a, np.ndarray):
                return np.frompyfunc(lambda x: _pow(x, b), 1, 1)(a)
            if is_num(a):
                ca, cb = concrete(a), concrete(b)
                if ca is not None and cb is not None and isinstance(cb, int) and isinstance(ca, (int, Fr)) and not isinstance(ca, float):
                    return ca ** cb if cb >= 0 else Fr(ca) ** cb
                return _pow(a, b)
        if isinstance(op, ast.MatMult):
            return np.dot(arr(a), arr(b))
        if isinstance(op, ast.FloorDiv):
            ca, cb = concrete(a), concrete(b)
            if ca is not None and cb is not None:
                return ca // cb
            return vn.app("floordiv", R(a), R(b))
        if isinstance(op, ast.Mod):
            ca, cb = concrete(a), concrete(b)
            if isinstance(a, str):
                parts = b if isinstance(b, tuple) else (b,)
                if all(isinstance(x, (str, int)) and not isinstance(x, bool) for x in parts):
                    try:
                        return a % b
                    except (TypeError, ValueError):
                        return a
                return a
            if ca is not None and cb is not None:
                return ca % cb
            return vn.app("mod", R(a), R(b))
        f = BINOPS.get(type(op))
        if f is None:
            raise Unsupported("operator %s" % type(op).__name__)
        if isinstance(a, (list, tuple, str)) or isinstance(b, (list, tuple, str)):
            if isinstance(op, ast.Add) and type(a) == type(b):
                return a + b
            if isinstance(op, ast.Mult):
                ca = concrete(b) if isinstance(a, (list, tuple, str)) else concrete(a)
                seq = a if isinstance(a, (list, tuple, str)) else b
                if isinstance(ca, int):
                    return seq * ca
            raise Unsupported("sequence arithmetic")
        if isinstance(a, np.ndarray) or isinstance(b, np.ndarray):
            aa = a if isinstance(a, np.ndarray) else R(a)
            bb = b if isinstance(b, np.ndarray) else R(b)
            return f(aa, bb)
        ca, cb = concrete(a), concrete(b)
        if ca is not None and cb is not None and not isinstance(a, Rat) and not isinstance(b, Rat) \
                and not isinstance(ca, float) and not isinstance(cb, float):
            if isinstance(op, ast.Div):
                return Fr(ca) / Fr(cb) if cb != 0 else _zerodiv()
            return f(ca, cb)
        if isinstance(op, ast.Div):
            rb = R(b)
            if rb.is_zero():
                return _zerodiv()
        return f(R(a), R(b))

    def expr(self, m, e, env, cond=False):
        if e is None:
            return None
        if isinstance(e, ast.Constant):
            return e.value
        if isinstance(e, ast.Name):
            if e.id in env:
                return env[e.id]
            return self.global_name(m, e.id)
        if isinstance(e, ast.BinOp):
            return self.binop(e.op, self.expr(m, e.left, env), self.expr(m, e.right, env))
        if isinstance(e, ast.UnaryOp):
            v = self.expr(m, e.operand, env)
            if isinstance(e.op, ast.USub):
                if isinstance(v, np.ndarray):
                    return -v
                c = concrete(v)
                return -c if (c is not None and not isinstance(v, Rat)) else -R(v)
            if isinstance(e.op, ast.UAdd):
                return v
            if isinstance(e.op, ast.Not):
                if isinstance(v, _Symbolic):
                    return _Symbolic("not", v, None, "not " + v.text)
                return not self._truthy(v)
            raise Unsupported("unary %s" % type(e.op).__name__)
        if isinstance(e, ast.BoolOp):
            vals = []
            for x in e.values:
                v = self.expr(m, x, env, cond=True)
                if isinstance(v, _Symbolic) or (isinstance(v, Rat) and not v.is_const()):
                    vals.append(v if isinstance(v, _Symbolic) else _Symbolic("truth", v, None, ast.unparse(x)))
                    continue
                t = self._truthy(v)
                if isinstance(e.op, ast.And) and not t:
                    return v
                if isinstance(e.op, ast.Or) and t:
                    return v
            if vals:
                return _Symbolic("and" if isinstance(e.op, ast.And) else "or", vals, None, ast.unparse(e))
            return v
        if isinstance(e, ast.Compare):
            left = self.expr(m, e.left, env)
            res = None
            for op, right in zip(e.ops, e.comparators):
                r = self.expr(m, right, env)
                c = self.compare(op, left, r, ast.unparse(e))
                if isinstance(c, _Symbolic):
                    return c
                if not c:
                    return False
                left = r
            return True
        if isinstance(e, ast.IfExp):
            return self.expr(m, e.body if self.truth(m, e.test, env) else e.orelse, env)
        if isinstance(e, (ast.Tuple,)):
            return tuple(self.expr(m, x, env) for x in e.elts)
        if isinstance(e, ast.List):
            return [self.expr(m, x, env) for x in e.elts]
        if isinstance(e, ast.Dict):
            return {self.expr(m, k, env): self.expr(m, v, env) for k, v in zip(e.keys, e.values)}
        if isinstance(e, ast.Subscript):
            base = self.expr(m, e.value, env)
            idx = self.index(m, e.slice, env)
            try:
                return base[idx]
            except Exception as ex:
                raise Unsupported("subscript %s: %s" % (ast.unparse(e), ex))
        if isinstance(e, ast.Attribute):
            return self.attribute(m, e, env)
        if isinstance(e, ast.Call):
            return self.callexpr(m, e, env)
        if isinstance(e, ast.ListComp) or isinstance(e, ast.GeneratorExp):
            return self.comp(m, e, env)
        if isinstance(e, ast.Starred):
            raise Unsupported("starred expression")
        if isinstance(e, ast.JoinedStr):
            return "<fstring>"
        if isinstance(e, ast.Lambda):
            return ("lambda", m, e, dict(env))
        raise Unsupported("expression %s at %s:%s" % (type(e).__name__, m.rel, getattr(e, "lineno", "?")))

    def comp(self, m, e, env):
        out = []

        def rec(k, env2):
            if k == len(e.generators):
                out.append(self.expr(m, e.elt, env2))
                return
            g = e.generators[k]
            for x in list(self.expr(m, g.iter, env2)):
                env3 = dict(env2)
                self.assign(m, g.target, x, env3)
                if all(self.truth(m, c, env3) for c in g.ifs):
                    rec(k + 1, env3)
        rec(0, dict(env))
        return out

    def _truthy(self, v):
        if isinstance(v, Rat):
            c = concrete(v)
            if c is None:
                raise Unsupported("truth of symbolic value")
            return bool(c)
        if isinstance(v, np.ndarray):
            raise Unsupported("truth of array")
        return bool(v)

    def compare(self, op, a, b, text):
        if isinstance(op, (ast.Is, ast.IsNot)):
            r = (a is b) or (a is None and b is None)
            if isinstance(a, (Rat, np.ndarray)) or isinstance(b, (Rat, np.ndarray)):
                r = (a is None) == (b is None) and a is b
            return r if isinstance(op, ast.Is) else not r
        if isinstance(op, (ast.In, ast.NotIn)):
            r = a in b
            return r if isinstance(op, ast.In) else not r
        f = CMPOPS[type(op)]
        if isinstance(a, np.ndarray) or isinstance(b, np.ndarray):
            raise Unsupported("array comparison %s" % text)
        if is_num(a) and is_num(b):
            ca, cb = concrete(a), concrete(b)
            if ca is not None and cb is not None:
                return f(ca, cb)
            return _Symbolic(type(op).__name__, R(a), R(b), text)
        if a is None or b is None:
            if isinstance(op, ast.Eq):
                return a is b
            if isinstance(op, ast.NotEq):
                return a is not b
        try:
            return f(a, b)
        except Exception:
            raise Unsupported("comparison %s" % text)

    def attribute(self, m, e, env):
        d = _dotted(e)
        if d is not None:
            head = d.split(".")[0]
            if head not in env:
                g = self.global_dotted(m, d)
                if g is not _MISSING:
                    return g
        base = self.expr(m, e.value, env)
        a = e.attr
        if isinstance(base, tuple) and len(base) == 3 and base[0] in ("func", "class") and a == "__name__":
            return base[2].name
        if isinstance(base, np.ndarray):
            if a == "T":
                return base.T
            if a == "shape":
                return base.shape
            if a == "size":
                return base.size
            if a == "ndim":
                return base.ndim
            if a == "flat":
                return base.ravel()
            return ("method", base, a)
        if isinstance(base, SymObject):
            if a in base._attrs:
                return base._attrs[a]
            if base._cls is not None:
                cm, cnode = base._cls
                for n in cnode.body:
                    if isinstance(n, ast.FunctionDef) and n.name == a:
                        if any(_dotted(d) == "property" for d in n.decorator_list):
                            return self.call_fn(cm, n, [base], {})
                        return ("bound", cm, n, base)
                    if isinstance(n, ast.Assign) and any(isinstance(t, ast.Name) and t.id == a for t in n.targets):
                        return self.expr(cm, n.value, {})     # class-level constant
            raise Unsupported("attribute %s of object" % a)
        if isinstance(base, dict):
            return ("method", base, a)
        if isinstance(base, (list, tuple, str)):
            return ("method", base, a)
        if base is NP or (isinstance(base, type) and issubclass(base, (NP, NP.linalg))):
            if hasattr(base, a):
                return getattr(base, a)
            raise Unsupported("numpy function %s" % a)
        if isinstance(base, tuple) and base and base[0] == "module":
            mm = base[1]
            if a in mm.funcs:
                return ("func", mm, mm.funcs[a])
            if a in mm.classes:
                return ("class", mm, mm.classes[a])
            return self.module_global(mm, a)
        if is_num(base):
            if a == "real":
                return base
            if a == "shape":
                return ()
            if a in ("astype", "copy", "item", "sum"):
                return ("method", base, a)
        raise Unsupported("attribute %s on %s at %s:%s" % (a, type(base).__name__, m.rel, e.lineno))

    def attribute_of(self, m, obj, name):
        """value of obj.<name> (runs the property if it is one)"""
        node = ast.Attribute(value=ast.Name(id="__obj", ctx=ast.Load()), attr=name, ctx=ast.Load())
        ast.fix_missing_locations(node)
        node.lineno = 0
        return self.attribute(m, node, {"__obj": obj})

    def global_dotted(self, m, d):
        parts = d.split(".")
        head = parts[0]
        if head in ("np", "numpy", "n", "math", "npy"):
            obj = NP
            for p in parts[1:]:
                if not hasattr(obj, p):
                    raise Unsupported("numpy/math function %s" % d)
                obj = getattr(obj, p)
            return obj
        if head in ("numba", "nb"):
            if parts[-1] == "prange":
                return range
            return ("ignored", d)
        if head in ("logging", "warnings", "sys", "os", "time"):
            return ("ignored", d)
        if head == "ImageD11" and len(parts) >= 2:
            # ImageD11.unitcell.unitcell / ImageD11.sinograms.geometry.f : resolve through the modules handed to the interpreter
            idx = 1
            while idx < len(parts) and parts[idx] not in self.modules:
                idx += 1
            if idx < len(parts):
                mm = self.modules[parts[idx]]
                rest = parts[idx + 1:]
                if not rest:
                    return ("module", mm)
                q = ".".join(rest)
                if q in mm.funcs:
                    return ("func", mm, mm.funcs[q])
                if q in mm.classes:
                    return ("class", mm, mm.classes[q])
                if len(rest) == 1:
                    return self.module_global(mm, rest[0])
            raise Unsupported("cannot resolve %s" % d)
        return _MISSING

    def global_name(self, m, name):
        if name in self.extra:
            return self.extra[name]
        if name in ("np", "numpy", "math", "npy"):
            return NP
        if name in m.funcs:
            return ("func", m, m.funcs[name])
        if name in m.classes:
            return ("class", m, m.classes[name])
        for alias, mm in self.modules.items():
            if alias == name:
                return ("module", mm)
        b = {"len": len, "range": range, "float": _float, "int": _int, "abs": _abs, "zip": zip, "enumerate": enumerate,
             "list": list, "tuple": tuple, "min": _min, "max": _max, "sum": _sum, "print": _ignore, "isinstance": _isinstance,
             "True": True, "False": False, "None": None, "dict": dict, "str": str, "sorted": sorted, "bool": bool,
             "round": lambda x, *a: vn.app("rnd", R(x)), "pow": lambda a, b: _pow(a, b), "reversed": reversed,
             "ValueError": ValueError, "Exception": Exception, "prange": range, "set": set, "any": any, "all": all,
             "hasattr": _hasattr, "setattr": _setattr}
        if name in b:
            return b[name]
        return self.module_global(m, name)

    def module_global(self, m, name):
        # module-level constant assignments (simple ones) and imports
        for n in m.tree.body:
            if isinstance(n, ast.Assign) and any(isinstance(t, ast.Name) and t.id == name for t in n.targets):
                return self.expr(m, n.value, {})
            if isinstance(n, ast.ImportFrom):
                for a in n.names:
                    if (a.asname or a.name) == name:
                        src = (n.module or "").split(".")[-1]
                        # from .transform import f  /  from ImageD11 import transform
                        if a.name in self.modules and (a.asname or a.name) == name and src in ("ImageD11", "sinograms", ""):
                            return ("module", self.modules[a.name])
                        if src in self.modules:
                            mm = self.modules[src]
                            if a.name in mm.funcs:
                                return ("func", mm, mm.funcs[a.name])
                            if a.name in mm.classes:
                                return ("class", mm, mm.classes[a.name])
                        if src in ("numpy",) :
                            return getattr(NP, a.name)
                        if src == "math":
                            return getattr(NP, a.name)
                        if (n.module or "") == "numpy.linalg":
                            return getattr(NP.linalg, a.name)
                        if (n.module or "").startswith("numba"):
                            return range if a.name == "prange" else ("ignored", a.name)
            if isinstance(n, ast.Import):
                for a in n.names:
                    if (a.asname or a.name.split(".")[0]) == name:
                        if a.name in ("numpy", "math"):
                            return NP
                        last = a.name.split(".")[-1]
                        if last in self.modules:
                            return ("module", self.modules[last])
                        return ("ignored", a.name)
            if isinstance(n, (ast.If, ast.Try)):
                for sub in ast.walk(n):
                    if isinstance(sub, ast.Assign) and any(isinstance(t, ast.Name) and t.id == name for t in sub.targets):
                        return self.expr(m, sub.value, {})
        raise Unsupported("unknown name %s in %s" % (name, m.rel))

    def callexpr(self, m, e, env):
        if isinstance(e.func, ast.Name) and e.func.id == "isinstance" and len(e.args) == 2 and e.func.id not in env:
            v = self.expr(m, e.args[0], env)
            tnames = [n.id for n in ast.walk(e.args[1]) if isinstance(n, ast.Name)]
            res = False
            for t in tnames:
                if t == "str":
                    res = res or isinstance(v, str)
                elif t == "int":
                    res = res or (isinstance(v, int) and not isinstance(v, bool))
                elif t == "float":
                    res = res or isinstance(v, (float, Rat))
                elif t in ("list", "tuple", "dict"):
                    res = res or isinstance(v, {"list": list, "tuple": tuple, "dict": dict}[t])
                elif t == "ndarray":
                    res = res or isinstance(v, np.ndarray)
            return res
        f = self.expr(m, e.func, env)
        args = []
        for a in e.args:
            if isinstance(a, ast.Starred):
                args.extend(list(self.expr(m, a.value, env)))
            else:
                args.append(self.expr(m, a, env))
        kwargs = {}
        for k in e.keywords:
            if k.arg is None:
                d = self.expr(m, k.value, env)
                if not isinstance(d, dict):
                    raise Unsupported("** of non-dict")
                kwargs.update(d)
            else:
                kwargs[k.arg] = self.expr(m, k.value, env)
        return self.apply(m, f, args, kwargs, e)

    def apply(self, m, f, args, kwargs, e=None):
        if isinstance(f, tuple) and f:
            tag = f[0]
            if tag == "func":
                return self.call_fn(f[1], f[2], args, kwargs)
            if tag == "localfunc":
                return self.call_fn(f[1], f[2], args, kwargs)
            if tag == "bound":
                return self.call_fn(f[1], f[2], [f[3]] + args, kwargs)
            if tag == "ignored":
                return None
            if tag == "lambda":
                lam = f[2]
                env = dict(f[3])
                for a, v in zip([x.arg for x in lam.args.args], args):
                    env[a] = v
                return self.expr(f[1], lam.body, env)
            if tag == "class":
                return self.instantiate(f[1], f[2], args, kwargs)
            if tag == "method":
                return self.method(f[1], f[2], args, kwargs)
        if f is _ignore:
            return None
        if callable(f):
            try:
                return f(*args, **kwargs)
            except Unsupported:
                raise
            except (TypeError, ValueError, AttributeError, IndexError, KeyError) as ex:
                raise Unsupported("call %s failed: %s" % (ast.unparse(e.func) if e is not None else f, ex))
        raise Unsupported("call of %r" % (f,))

    def instantiate(self, m, cnode, args, kwargs):
        obj = SymObject((m, cnode))
        for n in cnode.body:
            if isinstance(n, ast.FunctionDef) and n.name == "__init__":
                self.call_fn(m, n, [obj] + args, kwargs)
        return obj

    def method(self, base, name, args, kwargs):
        if is_num(base) and name in ("astype", "copy", "item", "sum"):
            return base
        if isinstance(base, np.ndarray):
            if name in ("astype", "copy", "view"):
                return base.copy()
            if name == "sum":
                return NP.sum(base, *args, **kwargs)
            if name in ("ravel", "flatten"):
                return base.ravel().copy()
            if name == "reshape":
                shp = args[0] if len(args) == 1 and isinstance(args[0], (tuple, list)) else args
                return base.reshape(_shape(shp) if -1 not in [concrete(x) for x in shp] else tuple(int(concrete(x)) for x in shp))
            if name == "transpose":
                return base.transpose(*args)
            if name == "dot":
                return np.dot(base, arr(args[0]))
            if name == "tolist":
                return base.tolist()
            if name == "fill":
                base[...] = R(args[0])
                return None
            if name == "trace":
                return NP.trace(base)
            raise Unsupported("ndarray method %s" % name)
        if isinstance(base, dict):
            if name == "get":
                return base.get(*args)
            if name in ("keys", "values", "items", "update", "pop", "copy"):
                return getattr(base, name)(*args, **kwargs)
        if isinstance(base, list) and name in ("append", "extend", "index", "count", "sort", "reverse", "copy", "pop"):
            return getattr(base, name)(*args)
        if isinstance(base, tuple) and name in ("index", "count"):
            return getattr(base, name)(*args)
        if isinstance(base, str):
            return getattr(base, name)(*args, **kwargs)
        raise Unsupported("method %s on %s" % (name, type(base).__name__))


_MISSING = object()


class _Symbolic(object):
    """a condition whose truth depends on symbolic values"""

    def __init__(self, op, a, b, text):
        self.op = op
        self.a = a
        self.b = b
        self.text = text

    def __repr__(self):
        return "Symbolic<%s>" % self.text


def default_policy(c, m, e):
    """generic-position policy: a symbolic quantity is not equal to any particular constant"""
    if c.op == "NotEq":
        return True
    if c.op == "Eq":
        return False
    if c.op == "not":
        return not default_policy(c.a, m, e)
    if c.op == "and":
        return all(default_policy(x, m, e) for x in c.a)
    if c.op == "or":
        return any(default_policy(x, m, e) for x in c.a)
    raise Unsupported("branch on a symbolic inequality: %s (%s:%s)" % (c.text, m.rel, getattr(e, "lineno", "?")))


def no_nan_policy(c, m, e):
    """the general (no NaN anywhere) path: isnan(x) is false, structurally through not / and / or (so 'not (isnan(a) or isnan(b))'
    is true); every other symbolic test follows the generic-position policy"""
    if c.op == "not":
        return not no_nan_policy(c.a, m, e)
    if c.op == "and":
        return all(no_nan_policy(x, m, e) for x in c.a)
    if c.op == "or":
        return any(no_nan_policy(x, m, e) for x in c.a)
    if "isnan" in c.text:
        return False
    return default_policy(c, m, e)


def _zerodiv():
    raise Unsupported("division by a value that is identically zero")


def _ignore(*a, **k):
    return None


def _float(x):
    if isinstance(x, str):
        return float(x)
    return x


def _int(x):
    c = concrete(x)
    if c is None:
        return vn.app("int", R(x))
    return int(c)


def _abs(x):
    c = concrete(x)
    if c is not None and not isinstance(x, Rat):
        return abs(c)
    return vn.app("abs", R(x))


def _min(*a):
    vals = a[0] if len(a) == 1 else a
    cs = [concrete(v) for v in vals]
    if all(c is not None for c in cs):
        return min(cs)
    raise Unsupported("min of symbolic values")


def _max(*a):
    vals = a[0] if len(a) == 1 else a
    cs = [concrete(v) for v in vals]
    if all(c is not None for c in cs):
        return max(cs)
    raise Unsupported("max of symbolic values")


def _sum(xs, start=0):
    s = start
    for x in xs:
        s = x + s if isinstance(x, (Rat, np.ndarray)) else s + x
    return s


def _isinstance(x, t):
    return False


def _setattr(obj, name, value):
    if isinstance(obj, SymObject) and isinstance(name, str):
        obj._attrs[name] = value
        return None
    raise Unsupported("setattr on %r" % type(obj).__name__)


def _hasattr(obj, name):
    if isinstance(obj, SymObject):
        if name in obj._attrs:
            return True
        if obj._cls is not None:
            return any(isinstance(n, ast.FunctionDef) and n.name == name for n in obj._cls[1].body)
        return False
    if isinstance(obj, np.ndarray):
        return name in ("shape", "T", "dtype", "size", "ndim", "copy", "sum")
    return False


def _ci(v):
    if v is None or isinstance(v, slice) or v is Ellipsis:
        return v
    c = concrete(v)
    if c is None:
        raise Unsupported("symbolic index")
    if isinstance(c, Fr):
        if c.denominator != 1:
            raise Unsupported("fractional index")
        c = int(c)
    return int(c) if isinstance(c, (int, bool)) else c


def _load(t):
    import copy
    t2 = copy.copy(t)
    t2.ctx = ast.Load()
    return t2


def _dotted(node):
    parts = []
    while isinstance(node, ast.Attribute):
        parts.append(node.attr)
        node = node.value
    if isinstance(node, ast.Name):
        parts.append(node.id)
        return ".".join(reversed(parts))
    return None


# -------------------------------------------------------------------------------------------------
def same(a, b):
    """structural equality of results (scalars, arrays, tuples) in the value-numbering domain.
    -> (bool, description of first difference)"""
    if isinstance(a, np.ndarray) or isinstance(b, np.ndarray):
        a, b = arr(a), arr(b)
        if a.shape != b.shape:
            return False, "shape %s vs %s" % (a.shape, b.shape)
        for idx in np.ndindex(*a.shape):
            ok, why = same(a[idx], b[idx])
            if not ok:
                return False, "[%s] %s" % (",".join(map(str, idx)), why)
        return True, ""
    if isinstance(a, (tuple, list)) and isinstance(b, (tuple, list)):
        if len(a) != len(b):
            return False, "length %d vs %d" % (len(a), len(b))
        for i, (x, y) in enumerate(zip(a, b)):
            ok, why = same(x, y)
            if not ok:
                return False, "#%d %s" % (i, why)
        return True, ""
    if is_num(a) and is_num(b):
        if vn.equal(R(a), R(b)):
            return True, ""
        return False, "%s  !=  %s" % (_short(R(a)), _short(R(b)))
    if a is None and b is None:
        return True, ""
    return (a == b), "%r vs %r" % (a, b)


def _short(r, n=160):
    s = repr(vn.normalise(r))
    return s if len(s) <= n else s[:n] + "..."
