"""E7: structural facts about the Python sources (ast only; nothing is imported from /repo)."""
import ast
import os
import re
import warnings

import networkx as nx

from .report import AnalysisError

KERNEL_BASES = ("cImageD11", "ImageD11.cImageD11", "_cImageD11", "ImageD11._cImageD11")


def src(node):
    try:
        return ast.unparse(node)
    except Exception:
        return "<%s>" % type(node).__name__


def clone(node):
    """deep copy of an ast subtree through its _fields only (copy.deepcopy would follow the _parent links up to the module)"""
    if isinstance(node, list):
        return [clone(x) for x in node]
    if not isinstance(node, ast.AST):
        return node
    new = node.__class__()
    for f in node._fields:
        if hasattr(node, f):
            setattr(new, f, clone(getattr(node, f)))
    for a in ("lineno", "col_offset", "end_lineno", "end_col_offset"):
        if hasattr(node, a):
            setattr(new, a, getattr(node, a))
    return new


class Module(object):
    def __init__(self, root, rel):
        self.rel = rel
        self.path = os.path.join(root, rel)
        if not os.path.exists(self.path):
            raise AnalysisError("anchor file missing: %s" % rel)
        with open(self.path, encoding="utf-8", errors="replace") as f:
            self.text = f.read()
        try:
            with warnings.catch_warnings():
                warnings.simplefilter("ignore")
                self.tree = ast.parse(self.text, filename=rel)
        except SyntaxError as e:
            raise AnalysisError("cannot parse %s: %s" % (rel, e))
        self.funcs = {}
        self.classes = {}
        try:
            fold_kernel_keywords(self.tree, root)
        except AnalysisError:
            raise
        except Exception:
            pass     # no interface file / not parsable: calls stay as written
        self._index(self.tree, "")
        for n in ast.walk(self.tree):
            for c in ast.iter_child_nodes(n):
                c._parent = n

    def _index(self, node, prefix):
        for n in getattr(node, "body", []):
            if isinstance(n, (ast.FunctionDef, ast.AsyncFunctionDef)):
                self.funcs.setdefault(prefix + n.name, n)
                self._index(n, prefix + n.name + ".")
            elif isinstance(n, ast.ClassDef):
                self.classes[prefix + n.name] = n
                self._index(n, prefix + n.name + ".")
            elif isinstance(n, (ast.If, ast.Try, ast.With)):
                # definitions under if/try at module level (numba fallbacks etc.)
                self._index(n, prefix)
                for attr in ("orelse", "finalbody"):
                    sub = ast.Module(body=getattr(n, attr, []) or [], type_ignores=[])
                    self._index(sub, prefix)
                for h in getattr(n, "handlers", []) or []:
                    self._index(h, prefix)

    def func(self, qual):
        if qual not in self.funcs:
            raise AnalysisError("anchor vanished: %s:%s" % (self.rel, qual))
        return self.funcs[qual]

    def ifunc(self, qual, depth=2, keep=()):
        """func(qual) with same-module helpers inlined (see inlined()); helpers named in keep stay calls"""
        key = (qual, depth, tuple(keep))
        if key not in self.__dict__.setdefault("_inl", {}):
            self._inl[key] = inlined(self, self.func(qual), depth, keep)
        return self._inl[key]

    def nfunc(self, qual):
        """func(qual) in normal form: counting while / index loops as for loops, append loops as comprehensions, str.format and
        f-strings as %-formatting (no helper inlining - see ifunc for that)"""
        if qual not in self.__dict__.setdefault("_nrm", {}):
            new = clone(self.func(qual))
            normalise_loops(new)
            normalise_formats(new)
            new._parent = getattr(self.func(qual), "_parent", None)
            self._nrm[qual] = new
        return self._nrm[qual]

    def aliases(self):
        """module-level  name = dotted.path  assignments (re-exports of functions defined elsewhere)"""
        if "_aliases" not in self.__dict__:
            self._aliases = {}
            for n in self.tree.body:
                if isinstance(n, ast.Assign) and len(n.targets) == 1 and isinstance(n.targets[0], ast.Name) and isinstance(n.value, (ast.Attribute, ast.Name)):
                    d = dotted(n.value)
                    if d:
                        self._aliases[n.targets[0].id] = d
        return self._aliases

    def cls(self, name):
        if name not in self.classes:
            raise AnalysisError("anchor vanished: class %s in %s" % (name, self.rel))
        return self.classes[name]

    def has(self, qual):
        return qual in self.funcs

    def global_assign(self, name):
        for n in self.tree.body:
            if isinstance(n, ast.Assign) and any(isinstance(t, ast.Name) and t.id == name for t in n.targets):
                return n.value
        raise AnalysisError("anchor vanished: module-level %s in %s" % (name, self.rel))

    def enclosing_function(self, node):
        n = node
        while hasattr(n, "_parent"):
            n = n._parent
            if isinstance(n, (ast.FunctionDef, ast.AsyncFunctionDef)):
                return n
        return None

    def qualname(self, fnode):
        for q, n in self.funcs.items():
            if n is fnode:
                return q
        return getattr(fnode, "name", "?")


_MODCACHE = {}


def module(run, rel):
    key = (run.root, rel)
    if key not in _MODCACHE:
        _MODCACHE[key] = Module(run.root, rel)
    return _MODCACHE[key]


def local_callees(mod, node, depth=2, _seen=None):
    """function / method definitions of the same module that the code under `node` calls (f(...), self.f(...), cls.f(...),
    ClassName.f(...)), transitively up to `depth`: a rule that looks for a construct looks through extracted helpers too"""
    seen = _seen if _seen is not None else {}
    if depth < 0:
        return []
    out = []
    owner = None
    n = node
    while n is not None:
        if isinstance(n, ast.ClassDef):
            owner = n
            break
        n = getattr(n, "_parent", None)
    for c in ast.walk(node):
        if not isinstance(c, ast.Call):
            continue
        target = None
        if isinstance(c.func, ast.Name):
            target = mod.funcs.get(c.func.id)
        elif isinstance(c.func, ast.Attribute) and isinstance(c.func.value, ast.Name):
            base, meth = c.func.value.id, c.func.attr
            if base in ("self", "cls") and owner is not None:
                target = mod.funcs.get("%s.%s" % (owner.name, meth))
            elif "%s.%s" % (base, meth) in mod.funcs:
                target = mod.funcs.get("%s.%s" % (base, meth))
        if target is not None and id(target) not in seen and target is not node:
            seen[id(target)] = target
            out.append(target)
            out += local_callees(mod, target, depth - 1, seen)
    return out


def closure_src(mod, nodes, depth=2):
    """source text of the given statements / function followed by the text of the same-module helpers they call"""
    if not isinstance(nodes, (list, tuple)):
        nodes = [nodes]
    parts = [src(n) for n in nodes]
    seen = {}
    for n in nodes:
        for h in local_callees(mod, n, depth, seen):
            parts.append(src(h))
    return " ".join(parts)


def closure_walk(mod, node, depth=2):
    """ast.walk over node and over the same-module helpers it calls"""
    for x in ast.walk(node):
        yield x
    for h in local_callees(mod, node, depth):
        for x in ast.walk(h):
            yield x


# --------------------------------------------------------------------------------------------------
# module-level mutable state: a function whose result depends on it is not a function of its arguments
MUTATORS = {"append", "extend", "insert", "pop", "remove", "clear", "update", "setdefault", "popitem", "add", "discard", "sort", "reverse",
            "fill", "resize", "put", "itemset"}


def module_state(mod):
    """{name: [mutation nodes]} for the module-level names that some function of the module changes after import: rebinding under
    a 'global' declaration, a subscript / slice / attribute store, an augmented assignment, or a mutating method call
    (append, update, clear ...).  Names that are only ever bound at module level (constants, tables) are not in the result."""
    top = set()
    for st in mod.tree.body:
        for t in ast.walk(st) if isinstance(st, (ast.Assign, ast.AugAssign, ast.AnnAssign)) else []:
            if isinstance(t, ast.Name) and isinstance(t.ctx, ast.Store):
                top.add(t.id)
    out = {}
    for fn in ast.walk(mod.tree):
        if not isinstance(fn, (ast.FunctionDef, ast.AsyncFunctionDef)):
            continue
        glob = set(n for g in ast.walk(fn) if isinstance(g, ast.Global) for n in g.names)
        local = set(a.arg for a in fn.args.args + fn.args.kwonlyargs + fn.args.posonlyargs) | \
            set(x.arg for x in (fn.args.vararg, fn.args.kwarg) if x is not None)
        for n in ast.walk(fn):
            if isinstance(n, ast.Name) and isinstance(n.ctx, ast.Store) and n.id not in glob:
                local.add(n.id)
        for n in ast.walk(fn):
            if isinstance(n, ast.Name) and isinstance(n.ctx, ast.Store) and n.id in glob and n.id in top:
                out.setdefault(n.id, []).append(n)
            if isinstance(n, (ast.Subscript, ast.Attribute)) and isinstance(n.ctx, (ast.Store, ast.Del)):
                b = n
                while isinstance(b, (ast.Subscript, ast.Attribute)):
                    b = b.value
                if isinstance(b, ast.Name) and b.id in top and b.id not in local:
                    out.setdefault(b.id, []).append(n)
            if isinstance(n, ast.Call) and isinstance(n.func, ast.Attribute) and n.func.attr in MUTATORS:
                b = n.func.value
                while isinstance(b, ast.Subscript):
                    b = b.value
                if isinstance(b, ast.Name) and b.id in top and b.id not in local:
                    out.setdefault(b.id, []).append(n)
    return out


def state_reads(mod, fn, depth=3):
    """[(name, read node, owner function)] : loads of mutable module state (module_state) in fn and the same-module helpers it calls"""
    ms = module_state(mod)
    out = []
    if not ms:
        return out
    for f in [fn] + local_callees(mod, fn, depth):
        local = set(a.arg for a in f.args.args + f.args.kwonlyargs + f.args.posonlyargs)
        glob = set(n for g in ast.walk(f) if isinstance(g, ast.Global) for n in g.names)
        for n in ast.walk(f):
            if isinstance(n, ast.Name) and isinstance(n.ctx, ast.Store) and n.id not in glob:
                local.add(n.id)
        for n in ast.walk(f):
            if isinstance(n, ast.Name) and isinstance(n.ctx, ast.Load) and n.id in ms and n.id not in local:
                out.append((n.id, n, f))
    return out


def copy_kind(v, param):
    """how expression v relates to the parameter `param`: True = a copy (x.copy(), np.array(x), np.copy(x), x.astype(t), list(x),
    deepcopy(x)), False = may be the very same object (x, np.asarray / ascontiguousarray / asanyarray / require(x), x.view(), x.reshape(..),
    np.array(x, copy=False), x.astype(t, copy=False)), None = something else"""
    d = dotted(v.func) if isinstance(v, ast.Call) else None
    kw = {k.arg: k.value for k in v.keywords} if isinstance(v, ast.Call) else {}
    nocopy = "copy" in kw and isinstance(kw["copy"], ast.Constant) and kw["copy"].value is False
    if isinstance(v, ast.Name) and v.id == param:
        return False
    if isinstance(v, ast.Call) and isinstance(v.func, ast.Attribute) and src(v.func.value) == param:
        if v.func.attr in ("copy", "tolist"):
            return True
        if v.func.attr == "astype":
            return not nocopy
        if v.func.attr in ("view", "reshape", "ravel", "squeeze", "transpose"):
            return False
    if d is not None and v.args and src(v.args[0]) == param:
        last = d.split(".")[-1]
        if last in ("array",):
            return not nocopy
        if last in ("copy", "deepcopy", "list", "tuple"):
            return True
        if last in ("asarray", "ascontiguousarray", "asanyarray", "require", "asfortranarray", "atleast_1d", "atleast_2d"):
            return False
    return None


def shape_sniffs(fn):
    """[(if statement, array name)] : 'if <test on X.shape[k] against the literal 3>: X = X.T / np.transpose(X)' - the layout of a
    batch of 3-vectors guessed from its shape; a batch of exactly three vectors is a (3, 3) array in either layout"""
    out = []
    for st in ast.walk(fn):
        if not isinstance(st, ast.If):
            continue
        arrs = set()
        for c in ast.walk(st.test):
            if isinstance(c, ast.Compare) and len(c.ops) == 1:
                for side, other in ((c.left, c.comparators[0]), (c.comparators[0], c.left)):
                    if isinstance(side, ast.Subscript) and isinstance(side.value, ast.Attribute) and side.value.attr == "shape" \
                            and isinstance(side.value.value, ast.Name) and const_int(other) == 3:
                        arrs.add(side.value.value.id)
        for a in arrs:
            for b in st.body + st.orelse:
                for x in ast.walk(b):
                    if isinstance(x, ast.Assign) and any(isinstance(t, ast.Name) and t.id == a for t in x.targets):
                        v = x.value
                        tr = (isinstance(v, ast.Attribute) and v.attr == "T" and src(v.value) == a) or \
                            (isinstance(v, ast.Call) and (dotted(v.func) or "").split(".")[-1] in ("transpose", "swapaxes") and
                             (v.args and src(v.args[0]) == a or isinstance(v.func, ast.Attribute) and src(v.func.value) == a))
                        if tr:
                            out.append((st, a))
    return out


def memo_results_mutated(mod):
    """[(memoised function name, call statement, mutating statement, enclosing function)] : results of functions decorated with
    functools.lru_cache / cache (or a hand-made module-level dict memo is NOT covered here) that a caller binds to a name and then
    changes in place (x *= .., x[...] = .., x.sort() ...).  The cache hands out the same object every time, so the change is
    permanent and accumulates from call to call."""
    memo = {}
    for q, fn in mod.funcs.items():
        for d in fn.decorator_list:
            t = src(d.func) if isinstance(d, ast.Call) else src(d)
            if t.split(".")[-1] in ("lru_cache", "cache", "cached", "memoize", "memoise"):
                memo[q.split(".")[-1]] = fn
    out = []
    if not memo:
        return out
    for q, fn in mod.funcs.items():
        for a in ast.walk(fn):
            if isinstance(a, ast.Assign) and len(a.targets) == 1 and isinstance(a.targets[0], ast.Name) and isinstance(a.value, ast.Call) \
                    and (dotted(a.value.func) or "").split(".")[-1] in memo:
                name = a.targets[0].id
                for st in ast.walk(fn):
                    if getattr(st, "lineno", 0) <= a.lineno:
                        continue
                    hit = False
                    if isinstance(st, ast.AugAssign):
                        b = st.target
                        while isinstance(b, ast.Subscript):
                            b = b.value
                        hit = isinstance(b, ast.Name) and b.id == name
                    elif isinstance(st, ast.Assign):
                        for t in st.targets:
                            if isinstance(t, ast.Subscript):
                                b = t
                                while isinstance(b, ast.Subscript):
                                    b = b.value
                                hit = hit or (isinstance(b, ast.Name) and b.id == name)
                            elif isinstance(t, ast.Name) and t.id == name:
                                break      # re-bound: later statements concern another object
                    elif isinstance(st, ast.Expr) and isinstance(st.value, ast.Call) and isinstance(st.value.func, ast.Attribute) \
                            and st.value.func.attr in MUTATORS and isinstance(st.value.func.value, ast.Name) and st.value.func.value.id == name:
                        hit = True
                    if hit:
                        out.append(((dotted(a.value.func) or "").split(".")[-1], a, st, q))
                        break
    return out


def from_module_state(mod, fn, node, depth=4):
    """does the value of expression `node` (used in function fn) come out of module-level state that the module mutates?  Follows names
    back through every assignment to them in fn (tuple unpacking included).  Returns (state name, assignment statement) or None."""
    ms = module_state(mod)
    if not ms:
        return None
    seen = set()

    def walk(e, d):
        for x in ast.walk(e):
            if isinstance(x, ast.Name) and isinstance(x.ctx, ast.Load):
                if x.id in ms and not any(isinstance(a, ast.arg) and a.arg == x.id for a in ast.walk(fn.args)):
                    return x.id, containing_stmt(x)
                if d > 0 and x.id not in seen:
                    seen.add(x.id)
                    for st in ast.walk(fn):
                        if isinstance(st, ast.Assign) and any(isinstance(t, ast.Name) and t.id == x.id for tt in st.targets for t in ast.walk(tt)):
                            r = walk(st.value, d - 1)
                            if r is not None:
                                return r
        return None
    return walk(node, depth)


# --------------------------------------------------------------------------------------------------
# helper inlining: a rule written against one function body keeps working when part of that body is extracted into a
# same-module helper (the commonest behaviour-preserving refactoring).  Purely syntactic, conservative: anything not understood is
# left as the call it was.
def _helper_of(mod, call, owner):
    """(helper FunctionDef, is_method) for f(...), self.f(...), cls.f(...), Class.f(...) resolved in the same module"""
    f = call.func
    if isinstance(f, ast.Name):
        t = mod.funcs.get(f.id)
        return (t, False) if t is not None else (None, False)
    if isinstance(f, ast.Attribute) and isinstance(f.value, ast.Name):
        base, meth = f.value.id, f.attr
        if base in ("self", "cls") and owner is not None:
            t = mod.funcs.get("%s.%s" % (owner.name, meth))
            if t is not None:
                static = any(src(d) in ("staticmethod",) for d in t.decorator_list)
                return t, not static
        t = mod.funcs.get("%s.%s" % (base, meth))
        if t is not None and any(src(d) in ("staticmethod",) for d in t.decorator_list):
            return t, False
    return None, False


def _bind_args(h, call, is_method):
    """param name -> argument node, or None when the call does not bind plainly"""
    a = h.args
    if a.vararg or a.kwarg or a.kwonlyargs or a.posonlyargs:
        return None
    if any(isinstance(x, ast.Starred) for x in call.args) or any(k.arg is None for k in call.keywords):
        return None
    params = [x.arg for x in a.args]
    bound = {}
    if is_method:
        if not params:
            return None
        bound[params[0]] = call.func.value
        params = params[1:]
    if len(call.args) > len(params):
        return None
    for p, v in zip(params, call.args):
        bound[p] = v
    for k in call.keywords:
        if k.arg not in params or k.arg in bound:
            return None
        bound[k.arg] = k.value
    ndef = len(a.defaults)
    defaults = dict(zip([x.arg for x in a.args][len(a.args) - ndef:], a.defaults))
    for p in params:
        if p not in bound:
            if p not in defaults:
                return None
            bound[p] = defaults[p]
    return bound


def _simple_arg(n):
    return isinstance(n, (ast.Name, ast.Constant, ast.Attribute)) or (
        isinstance(n, ast.Subscript) and _simple_arg(n.value) and all(isinstance(x, (ast.Name, ast.Constant, ast.Slice, ast.Attribute, ast.BinOp, ast.UnaryOp, ast.Tuple))
                                                                      or x is None for x in ast.walk(n.slice) if isinstance(x, ast.expr)))


def _stored_names(node):
    out = set()
    for x in ast.walk(node):
        if isinstance(x, ast.Name) and isinstance(x.ctx, (ast.Store, ast.Del)):
            out.add(x.id)
        elif isinstance(x, (ast.Global, ast.Nonlocal)):
            out.update(x.names)
        elif isinstance(x, ast.arg):
            out.add(x.arg)
    return out


class _Subst(ast.NodeTransformer):
    def __init__(self, mapping):
        self.m = mapping

    def visit_Name(self, n):
        if n.id in self.m and isinstance(n.ctx, ast.Load):
            import copy
            return clone(self.m[n.id])
        if n.id in self.m and isinstance(self.m[n.id], ast.Name):
            return ast.copy_location(ast.Name(id=self.m[n.id].id, ctx=n.ctx), n)
        return n

    def visit_Lambda(self, n):
        return n if {a.arg for a in n.args.args} & set(self.m) else self.generic_visit(n)


def _tail_returns(stmts, mk):
    """rewrite a helper body whose returns are all in tail position into statements that hand the value to mk(value) instead;
    None when a return sits anywhere else (inside a loop, try, with)"""
    import copy
    stmts = list(stmts)
    if stmts and isinstance(stmts[0], ast.Expr) and isinstance(stmts[0].value, ast.Constant) and isinstance(stmts[0].value.value, str):
        stmts = stmts[1:]
    out = []
    for k, st in enumerate(stmts):
        last = k == len(stmts) - 1
        has_ret = any(isinstance(x, ast.Return) for x in ast.walk(st)) and not isinstance(st, (ast.FunctionDef, ast.ClassDef))
        if isinstance(st, ast.Return):
            out += mk(st.value)
            return out          # anything after a return is dead
        if not has_ret:
            out.append(st)
            continue
        if isinstance(st, ast.If):
            rest = stmts[k + 1:]
            body_ends = _always_returns(st.body)
            else_ends = _always_returns(st.orelse) if st.orelse else False
            if body_ends and not st.orelse:
                b = _tail_returns(st.body, mk)
                o = _tail_returns(rest, mk) if rest else mk(None)
            elif body_ends and else_ends:
                b, o = _tail_returns(st.body, mk), _tail_returns(st.orelse, mk)
            elif st.orelse and else_ends and not any(isinstance(x, ast.Return) for s2 in st.body for x in ast.walk(s2)):
                o = _tail_returns(st.orelse, mk)
                b = _tail_returns(list(st.body) + rest, mk)
            elif body_ends and st.orelse and not any(isinstance(x, ast.Return) for s2 in st.orelse for x in ast.walk(s2)):
                b = _tail_returns(st.body, mk)
                o = _tail_returns(list(st.orelse) + rest, mk)
            else:
                return None
            if b is None or o is None:
                return None
            n = ast.If(test=st.test, body=b or [ast.Pass()], orelse=o)
            out.append(ast.copy_location(n, st))
            return out
        return None
    out += mk(None) if mk is not None and not _always_returns(stmts) else []
    return out


def _always_returns(stmts):
    if not stmts:
        return False
    last = stmts[-1]
    if isinstance(last, (ast.Return, ast.Raise)):
        return True
    if isinstance(last, ast.If) and last.orelse:
        return _always_returns(last.body) and _always_returns(last.orelse)
    return False


def inlined(mod, fn, depth=2, keep=()):
    """copy of function `fn` in which calls of same-module helpers are replaced by the helper's code:
      - a helper that is one 'return <expr>' is substituted as an expression wherever it is called;
      - 'helper(...)' as a statement, 'x = helper(...)', 'x op= helper(...)' and 'return helper(...)' are replaced by the helper's
        statements when its returns are in tail position;
      - counting while loops are rewritten as for loops over range() (normalise_loops).
    Parameters are substituted by the argument expressions (only plain names / attributes / constants / subscripts, and only when
    the helper never rebinds the parameter); the helper's other locals are renamed when they collide with a name of the caller.
    Helpers named in `keep` stay calls (the rule wants to see them).  Line numbers of inlined code are call_line + k * 1e-4 so that source order is preserved."""
    import copy
    owner = None
    n = fn
    while n is not None:
        if isinstance(n, ast.ClassDef):
            owner = n
            break
        n = getattr(n, "_parent", None)
    new = clone(fn)
    counter = [0]

    def prepare(call, want_expr):
        h, is_method = _helper_of(mod, call, owner)
        if h is None or h is fn or h.name == fn.name or h.name in keep:
            return None
        if any(isinstance(x, (ast.Yield, ast.YieldFrom, ast.Await, ast.Global, ast.Nonlocal)) for x in ast.walk(h)):
            return None
        if h.decorator_list and not all(src(d) == "staticmethod" for d in h.decorator_list):
            return None
        bound = _bind_args(h, call, is_method)
        if bound is None:
            return None
        stored = set()
        for st in h.body:
            stored |= _stored_names(st)
        if stored & set(bound):
            return None
        uses = {}
        for x in ast.walk(h):
            if isinstance(x, ast.Name) and x.id in bound:
                uses[x.id] = uses.get(x.id, 0) + 1
        for p, v in bound.items():
            if not _simple_arg(v) and uses.get(p, 0) > 1:
                return None
            if not _simple_arg(v) and any(isinstance(y, (ast.For, ast.While, ast.Lambda, ast.ListComp, ast.GeneratorExp, ast.DictComp, ast.SetComp)) for y in ast.walk(h)):
                return None
        body = clone(h.body)
        # rename colliding locals
        mine = _stored_names(new) | {a.arg for a in new.args.args}
        ren = {}
        for nm in stored:
            if nm in mine:
                counter[0] += 1
                ren[nm] = ast.Name(id="%s__%s" % (nm, h.name.strip("_")), ctx=ast.Load())
        mapping = dict(bound)
        sub = _Subst(mapping)
        body = [sub.visit(st) for st in body]
        if ren:
            class Ren(ast.NodeTransformer):
                def visit_Name(self, n_):
                    if n_.id in ren:
                        return ast.copy_location(ast.Name(id=ren[n_.id].id, ctx=n_.ctx), n_)
                    return n_
            body = [Ren().visit(st) for st in body]
        return h, body

    def relocate(nodes, line):
        k = 0
        for st in nodes:
            for x in ast.walk(st):
                if hasattr(x, "lineno") or isinstance(x, (ast.stmt, ast.expr)):
                    k += 1
                    x.lineno = line + k * 1e-4
                    x.end_lineno = x.lineno
                    x.col_offset = getattr(x, "col_offset", 0) or 0
                    x.end_col_offset = getattr(x, "end_col_offset", 0) or 0
        return nodes

    class ExprInline(ast.NodeTransformer):
        def visit_Call(self, c):
            self.generic_visit(c)
            p = prepare(c, True)
            if p is None:
                return c
            h, body = p
            if body and isinstance(body[0], ast.Expr) and isinstance(body[0].value, ast.Constant) and isinstance(body[0].value.value, str):
                body = body[1:]
            if len(body) == 1 and isinstance(body[0], ast.Return) and body[0].value is not None:
                v = body[0].value
                relocate([v], c.lineno)
                return v
            # if T: return A [else:] return B   ->   (A if T else B), nested
            def as_expr(stmts):
                if len(stmts) == 1 and isinstance(stmts[0], ast.Return) and stmts[0].value is not None:
                    return stmts[0].value
                if stmts and isinstance(stmts[0], ast.If) and len(stmts[0].body) == 1 and isinstance(stmts[0].body[0], ast.Return) and stmts[0].body[0].value is not None:
                    rest = stmts[0].orelse if stmts[0].orelse else stmts[1:]
                    if stmts[0].orelse and len(stmts) > 1:
                        return None
                    e2 = as_expr(list(rest))
                    if e2 is not None:
                        return ast.IfExp(test=stmts[0].test, body=stmts[0].body[0].value, orelse=e2)
                return None
            v = as_expr(list(body))
            if v is not None:
                relocate([v], c.lineno)
                return v
            return c

    def inline_block(stmts):
        out = []
        for st in stmts:
            for attr in ("body", "orelse", "finalbody"):
                if isinstance(getattr(st, attr, None), list) and not isinstance(st, (ast.FunctionDef, ast.ClassDef, ast.Lambda)):
                    setattr(st, attr, inline_block(getattr(st, attr)))
            for hnd in getattr(st, "handlers", []) or []:
                hnd.body = inline_block(hnd.body)
            call = None
            mk = None
            if isinstance(st, ast.Expr) and isinstance(st.value, ast.Call):
                call = st.value
                mk = lambda v: []
            elif isinstance(st, ast.Assign) and isinstance(st.value, ast.Call):
                call = st.value
                mk = lambda v, st=st: [ast.Assign(targets=clone(st.targets), value=v if v is not None else ast.Constant(value=None), lineno=st.lineno)]
            elif isinstance(st, ast.AugAssign) and isinstance(st.value, ast.Call):
                call = st.value
                mk = lambda v, st=st: [ast.AugAssign(target=clone(st.target), op=st.op, value=v if v is not None else ast.Constant(value=None), lineno=st.lineno)]
            elif isinstance(st, ast.Return) and isinstance(st.value, ast.Call):
                call = st.value
                mk = lambda v, st=st: [ast.Return(value=v, lineno=st.lineno)]
            if call is not None:
                p = prepare(call, False)
                if p is not None:
                    h, body = p
                    rep = _tail_returns(body, mk)
                    if rep is not None:
                        rep = [ast.fix_missing_locations(x) if not hasattr(x, "lineno") else x for x in rep]
                        relocate(rep, st.lineno)
                        out += rep
                        continue
            out.append(st)
        return out

    for _ in range(max(1, depth)):
        before = ast.dump(new)
        new = ExprInline().visit(new)
        new.body = inline_block(new.body)
        if ast.dump(new) == before:
            break
    ast.fix_missing_locations(new)
    normalise_loops(new)
    normalise_formats(new)
    normalise_conditional_stores(new)
    for n_ in ast.walk(new):
        for c in ast.iter_child_nodes(n_):
            c._parent = n_
    new._parent = getattr(fn, "_parent", None)
    return new


def normalise_conditional_stores(fn):
    """in place: 'x = A if C else x' reads as 'if C: x = A', and the pair form 'x, y = (A, B) if C else (x, y)' as
    'if C: x = A; y = B' - only when neither A nor B reads x or y (then the simultaneous assignment and the sequence agree)"""
    def rewrite(st):
        if not (isinstance(st, ast.Assign) and len(st.targets) == 1 and isinstance(st.value, ast.IfExp)):
            return None
        t, v = st.targets[0], st.value
        tl = list(t.elts) if isinstance(t, (ast.Tuple, ast.List)) else [t]
        if not all(isinstance(x, ast.Name) for x in tl):
            return None
        names = [x.id for x in tl]

        def parts(e):
            if len(tl) == 1:
                return [e]
            return list(e.elts) if isinstance(e, (ast.Tuple, ast.List)) and len(e.elts) == len(tl) else None
        a, b = parts(v.body), parts(v.orelse)
        if a is None or b is None:
            return None
        same = lambda ps: all(isinstance(p_, ast.Name) and p_.id == n_ for p_, n_ in zip(ps, names))
        if same(b):
            new_vals, test = a, v.test
        elif same(a):
            new_vals, test = b, ast.UnaryOp(op=ast.Not(), operand=v.test)
        else:
            return None
        if any(isinstance(x, ast.Name) and x.id in names for p_ in new_vals for x in ast.walk(p_)):
            return None
        body = [ast.copy_location(ast.Assign(targets=[ast.Name(id=n_, ctx=ast.Store())], value=p_), st) for n_, p_ in zip(names, new_vals)]
        return ast.fix_missing_locations(ast.copy_location(ast.If(test=test, body=body, orelse=[]), st))
    for n_ in ast.walk(fn):
        for fld in ("body", "orelse", "finalbody"):
            blk = getattr(n_, fld, None)
            if isinstance(blk, list):
                for k_, st in enumerate(blk):
                    r_ = rewrite(st)
                    if r_ is not None:
                        blk[k_] = r_
    return fn


_FIELD = re.compile(r"\{\{|\}\}|\{([^{}!:]*)(?:!([rsa]))?(?::([^{}]*))?\}")


def _spec_to_printf(conv, spec):
    """format-spec mini language -> printf conversion, or None when there is no equivalent"""
    spec = spec or ""
    m = re.match(r"^(?:(.)?([<>^=]))?([+\- ])?(#)?(0)?(\d+)?(,|_)?(?:\.(\d+))?([bcdeEfFgGnosxX%])?$", spec)
    if m is None:
        return None
    fill, align, sign, alt, zero, width, grp, prec, ty = m.groups()
    if (fill and fill != " ") or align in ("^", "=") or grp or (ty in ("b", "c", "n", "%")):
        return None
    if ty is None:
        ty = "s" if (conv in (None, "s") and prec is None) else ("r" if conv == "r" else ("s" if prec is None else "g"))
    if conv == "r" and ty == "s":
        ty = "r"
    flags = ("-" if align == "<" else "") + (sign if sign in ("+", " ") else "") + ("#" if alt else "") + ("0" if zero else "")
    return "%" + flags + (width or "") + (("." + prec) if prec is not None else "") + ty


def normalise_formats(fn):
    """in place on a cloned function:  "..{}..".format(a, b)  and f-strings become the equivalent  "..%s.." % (a, b)  (same conversions,
    widths and precisions), so that rules about what a writer prints read one spelling.  Anything without a printf equivalent is
    left alone."""
    class T(ast.NodeTransformer):
        def visit_Call(self, c):
            self.generic_visit(c)
            if not (isinstance(c.func, ast.Attribute) and c.func.attr == "format" and isinstance(c.func.value, ast.Constant) and isinstance(c.func.value.value, str)):
                return c
            if any(isinstance(a, ast.Starred) for a in c.args) or any(k.arg is None for k in c.keywords):
                return c
            text = c.func.value.value
            kws = {k.arg: k.value for k in c.keywords}
            out, args, auto, ok = [], [], [0], [True]
            pos = 0
            for m in _FIELD.finditer(text):
                out.append(text[pos:m.start()].replace("%", "%%"))
                pos = m.end()
                if m.group(0) in ("{{", "}}"):
                    out.append(m.group(0)[0])
                    continue
                name, conv, spec = m.group(1), m.group(2), m.group(3)
                pf = _spec_to_printf(conv, spec)
                if pf is None or "." in name or "[" in name:
                    ok[0] = False
                    break
                if name == "":
                    k = auto[0]
                    auto[0] += 1
                    val = c.args[k] if k < len(c.args) else None
                elif name.isdigit():
                    val = c.args[int(name)] if int(name) < len(c.args) else None
                else:
                    val = kws.get(name)
                if val is None:
                    ok[0] = False
                    break
                if conv == "s" and not pf.endswith("s"):
                    ok[0] = False
                    break
                out.append(pf)
                args.append(val)
            if not ok[0]:
                return c
            out.append(text[pos:].replace("%", "%%"))
            fmt = ast.copy_location(ast.Constant(value="".join(out)), c)
            right = args[0] if len(args) == 1 and not isinstance(args[0], ast.Tuple) else ast.Tuple(elts=args, ctx=ast.Load())
            if len(args) == 1:
                right = ast.Tuple(elts=args, ctx=ast.Load())
            if not args:
                return fmt if "%" not in "".join(out) else c
            return ast.copy_location(ast.BinOp(left=fmt, op=ast.Mod(), right=right), c)

        def visit_JoinedStr(self, j):
            self.generic_visit(j)
            out, args = [], []
            for v in j.values:
                if isinstance(v, ast.Constant) and isinstance(v.value, str):
                    out.append(v.value.replace("%", "%%"))
                elif isinstance(v, ast.FormattedValue):
                    spec = ""
                    if v.format_spec is not None:
                        if not (isinstance(v.format_spec, ast.JoinedStr) and all(isinstance(x, ast.Constant) for x in v.format_spec.values)):
                            return j
                        spec = "".join(x.value for x in v.format_spec.values)
                    conv = {-1: None, 115: "s", 114: "r", 97: "a"}.get(v.conversion, None)
                    pf = _spec_to_printf(conv, spec)
                    if pf is None or conv == "a":
                        return j
                    out.append(pf)
                    args.append(v.value)
                else:
                    return j
            if not args:
                return j
            fmt = ast.copy_location(ast.Constant(value="".join(out)), j)
            return ast.copy_location(ast.BinOp(left=fmt, op=ast.Mod(), right=ast.Tuple(elts=args, ctx=ast.Load())), j)
    T().visit(fn)
    ast.fix_missing_locations(fn)
    for n_ in ast.walk(fn):
        for c in ast.iter_child_nodes(n_):
            c._parent = n_
    return fn


def normalise_loops(fn):
    """in place on a (cloned / inlined) function:  i = a; while i < n: BODY; i += 1   becomes   for i in range(a, n): BODY  when BODY has
    no continue and does not assign i, n is a name / attribute / len() that BODY does not rebind, and the counter initialisation
    directly precedes the loop.  (i is not read after the loop in the idiom; if it is, the rewrite is skipped.)"""
    def names_stored(nodes):
        out = set()
        for n in nodes:
            out |= _stored_names(n)
        return out

    def fix(stmts, following):
        out = []
        k = 0
        while k < len(stmts):
            st = stmts[k]
            for attr in ("body", "orelse", "finalbody"):
                if isinstance(getattr(st, attr, None), list) and not isinstance(st, (ast.FunctionDef, ast.ClassDef)):
                    setattr(st, attr, fix(getattr(st, attr), stmts[k + 1:] + following))
            for hnd in getattr(st, "handlers", []) or []:
                hnd.body = fix(hnd.body, stmts[k + 1:] + following)
            nxt = stmts[k + 1] if k + 1 < len(stmts) else None
            if isinstance(st, ast.Assign) and len(st.targets) == 1 and isinstance(st.targets[0], ast.Name) and isinstance(nxt, ast.While) and not nxt.orelse:
                i = st.targets[0].id
                t = nxt.test
                body = nxt.body
                def is_inc(b_):
                    return (isinstance(b_, ast.AugAssign) and isinstance(b_.op, ast.Add) and isinstance(b_.target, ast.Name) and b_.target.id == i
                            and isinstance(b_.value, ast.Constant) and b_.value.value == 1) or \
                           (isinstance(b_, ast.Assign) and len(b_.targets) == 1 and isinstance(b_.targets[0], ast.Name) and b_.targets[0].id == i
                            and src(b_.value).replace(" ", "") in ("%s+1" % i, "1+%s" % i))
                incpos = [q for q, b_ in enumerate(body) if is_inc(b_)]
                # the increment may sit anywhere at the top level of the body as long as the counter is not read after it
                lastinc = len(incpos) == 1 and not any(isinstance(x, ast.Name) and x.id == i for b_ in body[incpos[0] + 1:] for x in ast.walk(b_))
                cmp_ok = isinstance(t, ast.Compare) and len(t.ops) == 1 and isinstance(t.ops[0], ast.Lt) and isinstance(t.left, ast.Name) and t.left.id == i
                if lastinc and cmp_ok:
                    inner = body[:incpos[0]] + body[incpos[0] + 1:]
                    bound = t.comparators[0]
                    bnames = {x.id for x in ast.walk(bound) if isinstance(x, ast.Name)}
                    stored = names_stored(inner)
                    has_cont = any(isinstance(x, ast.Continue) for b in inner for x in ast.walk(b))
                    read_after = any(isinstance(x, ast.Name) and x.id == i and isinstance(x.ctx, ast.Load) for b in stmts[k + 2:] + following for x in ast.walk(b))
                    if i not in stored and not (bnames & stored) and not has_cont and not read_after and inner:
                        fixed_inner = fix(inner, [])
                        args = [bound] if (isinstance(st.value, ast.Constant) and st.value.value == 0) else [st.value, bound]
                        loop = ast.For(target=ast.Name(id=i, ctx=ast.Store()), iter=ast.Call(func=ast.Name(id="range", ctx=ast.Load()), args=args, keywords=[]),
                                       body=fixed_inner, orelse=[], lineno=nxt.lineno, col_offset=getattr(nxt, "col_offset", 0))
                        ast.fix_missing_locations(loop)
                        out.append(loop)
                        k += 2
                        continue
            out.append(st)
            k += 1
        return out
    fn.body = fix(fn.body, [])
    # second step:  for k in range(len(X)): ... X[k] ...   with k used for nothing else and X not rebound   ->   for X__item in X: ... X__item ...
    for lp in [n for n in ast.walk(fn) if isinstance(n, ast.For)]:
        it = lp.iter
        if not (isinstance(lp.target, ast.Name) and isinstance(it, ast.Call) and src(it.func) == "range" and len(it.args) in (1, 2) and not lp.orelse):
            continue
        start = it.args[0] if len(it.args) == 2 else None
        if start is not None and not (isinstance(start, ast.Constant) and isinstance(start.value, int) and start.value >= 0):
            continue
        a0 = it.args[-1]
        if isinstance(a0, ast.Name):
            a0 = resolved(fn, a0, 2)       # ncolumns = len(X); for j in range(ncolumns)
        if not (isinstance(a0, ast.Call) and src(a0.func) == "len" and len(a0.args) == 1 and isinstance(a0.args[0], (ast.Name, ast.Attribute))):
            continue
        X, k = a0.args[0], lp.target.id
        xs = src(X)
        uses = [n for b in lp.body for n in ast.walk(b) if isinstance(n, ast.Name) and n.id == k]
        subs = [n for b in lp.body for n in ast.walk(b) if isinstance(n, ast.Subscript) and src(n.value) == xs and isinstance(n.slice, ast.Name) and n.slice.id == k
                and isinstance(n.ctx, ast.Load)]
        rebound = any(src(t) == xs or (isinstance(t, ast.Subscript) and src(t.value) == xs) for b in lp.body for n in ast.walk(b)
                      if isinstance(n, (ast.Assign, ast.AugAssign)) for t in (n.targets if isinstance(n, ast.Assign) else [n.target]))
        if not uses or len(uses) != len(subs) or rebound:
            continue
        item = "%s__item" % re.sub(r"\W", "_", xs)

        class Rep(ast.NodeTransformer):
            def visit_Subscript(self, n):
                if any(n is q for q in subs):
                    return ast.copy_location(ast.Name(id=item, ctx=ast.Load()), n)
                return self.generic_visit(n)
        lp.body = [Rep().visit(b) for b in lp.body]
        lp.target = ast.copy_location(ast.Name(id=item, ctx=ast.Store()), lp.target)
        lp.iter = clone(X) if (start is None or start.value == 0) else ast.Subscript(value=clone(X), slice=ast.Slice(lower=ast.Constant(value=start.value), upper=None, step=None), ctx=ast.Load())
        ast.fix_missing_locations(lp)
    # third step:  for t in S: name = t; BODY   (name assigned nowhere else in the loop, t not used in BODY)  ->  for name in S: BODY
    for lp in [n for n in ast.walk(fn) if isinstance(n, ast.For)]:
        if not (isinstance(lp.target, ast.Name) and lp.body and isinstance(lp.body[0], ast.Assign) and len(lp.body[0].targets) == 1
                and isinstance(lp.body[0].targets[0], ast.Name) and isinstance(lp.body[0].value, ast.Name) and lp.body[0].value.id == lp.target.id):
            continue
        t, name = lp.target.id, lp.body[0].targets[0].id
        rest = lp.body[1:]
        if not rest or any(isinstance(x, ast.Name) and x.id == t for b in rest for x in ast.walk(b)):
            continue
        if any(isinstance(x, ast.Name) and x.id == name and isinstance(x.ctx, ast.Store) for b in rest for x in ast.walk(b)):
            continue
        lp.target = ast.copy_location(ast.Name(id=name, ctx=ast.Store()), lp.target)
        lp.body = rest
    # fourth step:  X = []; for t in S: X.append(E)   ->   X = [E for t in S]      (the loop body is that single statement)
    def comp_blocks(stmts):
        out = []
        k = 0
        while k < len(stmts):
            st = stmts[k]
            for attr in ("body", "orelse", "finalbody"):
                if isinstance(getattr(st, attr, None), list) and not isinstance(st, (ast.FunctionDef, ast.ClassDef)):
                    setattr(st, attr, comp_blocks(getattr(st, attr)))
            for hnd in getattr(st, "handlers", []) or []:
                hnd.body = comp_blocks(hnd.body)
            nxt = stmts[k + 1] if k + 1 < len(stmts) else None
            if isinstance(st, ast.Assign) and len(st.targets) == 1 and isinstance(st.targets[0], ast.Name) and isinstance(st.value, ast.List) and not st.value.elts \
                    and isinstance(nxt, ast.For) and not nxt.orelse and len(nxt.body) == 1 and isinstance(nxt.body[0], ast.Expr):
                c = nxt.body[0].value
                X = st.targets[0].id
                if isinstance(c, ast.Call) and isinstance(c.func, ast.Attribute) and c.func.attr == "append" and isinstance(c.func.value, ast.Name) \
                        and c.func.value.id == X and len(c.args) == 1 and not c.keywords \
                        and not any(isinstance(x, ast.Name) and x.id == X for x in ast.walk(c.args[0])) \
                        and not any(isinstance(x, ast.Name) and x.id == X for x in ast.walk(nxt.iter)):
                    comp = ast.ListComp(elt=c.args[0], generators=[ast.comprehension(target=nxt.target, iter=nxt.iter, ifs=[], is_async=0)])
                    new = ast.Assign(targets=[ast.Name(id=X, ctx=ast.Store())], value=comp, lineno=nxt.lineno)
                    ast.copy_location(new, nxt)
                    ast.fix_missing_locations(new)
                    out.append(new)
                    k += 2
                    continue
            out.append(st)
            k += 1
        return out
    fn.body = comp_blocks(fn.body)
    for n_ in ast.walk(fn):
        for c in ast.iter_child_nodes(n_):
            c._parent = n_
    return fn


def if_else_parts(fn, test_text):
    """(if statement, then-body, else-body) of the top-level 'if <test_text>:' of a function, in either spelling:
    'if c: A  else: B'   or   'if c: A; return ...' followed by B (the rest of the function).  None when there is no such if."""
    for n, st in enumerate(fn.body):
        if isinstance(st, ast.If) and src(st.test) == test_text:
            if st.orelse:
                return st, list(st.body), list(st.orelse)
            if _always_returns(st.body):
                return st, list(st.body), list(fn.body[n + 1:])
            return st, list(st.body), []
    return None


def merge_subscripts(node):
    """in place / returned: A[i][j] with plain indices reads as A[i, j] (a row view of a numpy array indexed again)"""
    class T(ast.NodeTransformer):
        def visit_Subscript(self, n):
            self.generic_visit(n)
            v = n.value
            if isinstance(v, ast.Subscript):
                def parts(sl):
                    return list(sl.elts) if isinstance(sl, ast.Tuple) else [sl]
                inner, outer = parts(v.slice), parts(n.slice)
                if not any(isinstance(x, (ast.Slice, ast.Starred)) or (isinstance(x, ast.Constant) and x.value is Ellipsis) or
                           (isinstance(x, ast.Constant) and x.value is None) for x in inner):
                    return ast.copy_location(ast.Subscript(value=v.value, slice=ast.Tuple(elts=inner + outer, ctx=ast.Load()), ctx=n.ctx), n)
            return n
    return ast.fix_missing_locations(T().visit(node))


def const_int(node):
    """value of an integer constant expression ( 65535, pow(2, 16) - 1, 2 ** 16 - 1, 1 << 16, np.iinfo(np.uint16).max ) or None"""
    if isinstance(node, ast.Constant) and isinstance(node.value, int) and not isinstance(node.value, bool):
        return node.value
    if isinstance(node, ast.UnaryOp) and isinstance(node.op, ast.USub):
        v = const_int(node.operand)
        return None if v is None else -v
    if isinstance(node, ast.BinOp):
        a, b = const_int(node.left), const_int(node.right)
        if a is None or b is None:
            return None
        try:
            if isinstance(node.op, ast.Add):
                return a + b
            if isinstance(node.op, ast.Sub):
                return a - b
            if isinstance(node.op, ast.Mult):
                return a * b
            if isinstance(node.op, ast.Pow) and 0 <= b <= 64:
                return a ** b
            if isinstance(node.op, ast.LShift) and 0 <= b <= 64:
                return a << b
            if isinstance(node.op, ast.FloorDiv) and b != 0:
                return a // b
        except Exception:
            return None
        return None
    if isinstance(node, ast.Call) and src(node.func) == "pow" and len(node.args) == 2:
        a, b = const_int(node.args[0]), const_int(node.args[1])
        return a ** b if a is not None and b is not None and 0 <= b <= 64 else None
    t = src(node).replace(" ", "")
    limits = {"np.iinfo(np.uint16).max": 65535, "numpy.iinfo(numpy.uint16).max": 65535, "np.iinfo(np.int32).max": 2 ** 31 - 1, "np.iinfo(np.uint8).max": 255}
    return limits.get(t)


def cmp_norm(test):
    """(op, left text, right text) of a single comparison with > and >= mirrored into < and <= ( 0.1 > x  ->  x < 0.1 ), 'not'
    folded into the operator; None for anything else"""
    neg = False
    while isinstance(test, ast.UnaryOp) and isinstance(test.op, ast.Not):
        test, neg = test.operand, not neg
    if not (isinstance(test, ast.Compare) and len(test.ops) == 1):
        return None
    op = type(test.ops[0]).__name__
    l, r = test.left, test.comparators[0]
    if neg:
        flip = {"Lt": "GtE", "LtE": "Gt", "Gt": "LtE", "GtE": "Lt", "Eq": "NotEq", "NotEq": "Eq", "Is": "IsNot", "IsNot": "Is", "In": "NotIn", "NotIn": "In"}
        if op not in flip:
            return None
        op = flip[op]
    if op in ("Gt", "GtE"):
        op, l, r = {"Gt": "Lt", "GtE": "LtE"}[op], r, l
    ls, rs_ = src(l).replace(" ", ""), src(r).replace(" ", "")
    if op in ("Eq", "NotEq") and ls > rs_:
        ls, rs_ = rs_, ls
    return (op, ls, rs_)


def unique_defs(fn):
    """name -> value node for local names assigned exactly once in fn by a plain 'name = value' statement"""
    count = {}
    val = {}
    for a in ast.walk(fn):
        if isinstance(a, ast.Assign) and len(a.targets) == 1 and isinstance(a.targets[0], ast.Name):
            n = a.targets[0].id
            count[n] = count.get(n, 0) + 1
            val[n] = a.value
        elif isinstance(a, (ast.AugAssign, ast.For, ast.With, ast.NamedExpr)):
            t = a.target if not isinstance(a, ast.With) else None
            for x in ast.walk(t) if t is not None else []:
                if isinstance(x, ast.Name) and isinstance(x.ctx, ast.Store):
                    count[x.id] = count.get(x.id, 0) + 2
        elif isinstance(a, ast.Assign):
            for t in a.targets:
                for x in ast.walk(t):
                    if isinstance(x, ast.Name) and isinstance(x.ctx, ast.Store):
                        count[x.id] = count.get(x.id, 0) + 2
    return {n: v for n, v in val.items() if count.get(n) == 1}


def resolved(fn, node, depth=3, keep=()):
    """copy of `node` with every local name that has a unique definition in fn replaced by its defining expression, recursively"""
    defs = unique_defs(fn)

    class T(ast.NodeTransformer):
        def __init__(self, d):
            self.d = d

        def visit_Name(self, n):
            if isinstance(n.ctx, ast.Load) and n.id in defs and n.id not in keep and self.d > 0:
                v = clone(defs[n.id])
                return T(self.d - 1).visit(v)
            return n
    return T(depth).visit(clone(node))


def resolved_src(fn, node, depth=3, keep=()):
    """source text of `node` with every local name that has a unique definition in fn replaced by (its defining expression),
    recursively: 'omega_obs' reads as '(om * sign)' when  omega_obs = om * sign  is its only assignment"""
    return src(resolved(fn, node, depth, keep))


def dotted(node):
    """a.b.c -> 'a.b.c' ; else None"""
    parts = []
    while isinstance(node, ast.Attribute):
        parts.append(node.attr)
        node = node.value
    if isinstance(node, ast.Name):
        parts.append(node.id)
        return ".".join(reversed(parts))
    return None


def kernel_calls(tree, names=None, imported=None):
    """Call nodes that invoke a compiled kernel: <base>.name(...) with base a known alias of the
    extension module, or a bare name imported from it."""
    out = []
    imported = set(imported or ())
    aliases = set(KERNEL_BASES)
    for n in ast.walk(tree):
        if isinstance(n, ast.ImportFrom) and n.module and n.module.split(".")[-1] in ("cImageD11", "_cImageD11"):
            for a in n.names:
                imported.add(a.asname or a.name)
        if isinstance(n, ast.ImportFrom) and n.module in ("ImageD11", ".", None, "..", "ImageD11.") :
            for a in n.names:
                if a.name in ("cImageD11", "_cImageD11"):
                    aliases.add(a.asname or a.name)
        if isinstance(n, ast.Import):
            for a in n.names:
                if a.name.split(".")[-1] in ("cImageD11", "_cImageD11") and a.asname:
                    aliases.add(a.asname)
    for n in ast.walk(tree):
        if isinstance(n, ast.Call):
            d = dotted(n.func)
            if d is None:
                continue
            if "." in d:
                base, name = d.rsplit(".", 1)
                if base in aliases and (names is None or name in names):
                    out.append((name, n))
            elif d in imported and (names is None or d in names):
                out.append((d, n))
    return out


_PYSIG = {}


def python_signatures(root):
    """kernel name -> argument names in the order of the f2py-generated Python signature (hidden arguments dropped, required
    before optional), from src/_cImageD11.pyf"""
    path = os.path.join(root, "src", "_cImageD11.pyf")
    if path not in _PYSIG:
        from . import iface
        fns, order = iface.crack(path)
        sig = {}
        for name, b in fns.items():
            req, opt = [], []
            for a in b.get("args", []):
                v = b.get("vars", {}).get(a, {})
                intent = v.get("intent", []) or []
                attr = v.get("attrspec", []) or []
                if "hide" in intent:
                    continue
                (opt if ("optional" in attr or "=" in v) else req).append(a)
            sig[name] = req + opt
        _PYSIG[path] = sig
    return _PYSIG[path]


def fold_kernel_keywords(tree, root):
    """in place: a compiled-kernel call that passes arguments by the names of the f2py signature is rewritten to the positional
    form ( compute_gv(xlylzl=a, omega=b, ...) -> compute_gv(a, b, ...) ), so that rules read one spelling"""
    calls = [c for n_, c in kernel_calls(tree) if c.keywords]
    if not calls:
        return
    sig = python_signatures(root)
    for c in calls:
        d = dotted(c.func) or ""
        names = sig.get(d.rsplit(".", 1)[-1])
        if not names or any(k.arg is None for k in c.keywords) or any(isinstance(a, ast.Starred) for a in c.args):
            continue
        kw = {k.arg: k.value for k in c.keywords}
        if not set(kw) <= set(names):
            continue
        args = list(c.args)
        for nm in names[len(args):]:
            if nm in kw:
                args.append(kw.pop(nm))
            else:
                break
        if not kw:
            c.args = args
            c.keywords = []


def library_files(root, tier="quick"):
    """python files in scope for whole-repo call-site rules"""
    out = []
    skip = ("sandbox", "depreciated", "tkGui") if tier == "quick" else ("depreciated",)
    for base in ("ImageD11", "scripts"):
        for dp, dn, fn in os.walk(os.path.join(root, base)):
            rel = os.path.relpath(dp, root)
            if any(part in skip for part in rel.split(os.sep)) or "__pycache__" in rel:
                continue
            for f in sorted(fn):
                if f.endswith(".py"):
                    out.append(os.path.join(rel, f))
    return sorted(out)


# --------------------------------------------------------------------------------------------------
# Python statement CFG (A5)
class PNode(object):
    __slots__ = ("id", "k", "node", "pol")

    def __init__(self, id, k, node=None, pol=None):
        self.id = id
        self.k = k        # entry exit stmt test assume raise_exit
        self.node = node
        self.pol = pol

    def __repr__(self):
        return "P%d<%s %s>" % (self.id, self.k, src(self.node)[:50] if self.node is not None else "")


class PyCFG(object):
    """normal-flow CFG of one function body.  Exceptional edges are not modelled except that 'raise'
    goes to raise_exit and try/except handlers are entered from the try body start (over-approx)."""

    def __init__(self, fnode):
        self.f = fnode
        self.nodes = []
        self.g = nx.DiGraph()
        self.entry = self.new("entry")
        self.exit = self.new("exit")
        self.raise_exit = self.new("raise_exit")
        self.of = {}     # id(ast stmt) -> PNode
        last = self.block(fnode.body, [self.entry], None, None)
        for n in last:
            self.g.add_edge(n.id, self.exit.id)
        self._dom = None
        self._pdom = None

    def new(self, k, node=None, pol=None):
        n = PNode(len(self.nodes), k, node, pol)
        self.nodes.append(n)
        self.g.add_node(n.id)
        return n

    def link(self, preds, n):
        for p in preds:
            self.g.add_edge(p.id, n.id)

    def test(self, expr, preds):
        t = self.new("test", expr)
        self.link(preds, t)
        a = self.new("assume", expr, True)
        b = self.new("assume", expr, False)
        self.g.add_edge(t.id, a.id)
        self.g.add_edge(t.id, b.id)
        return [a], [b]

    def block(self, stmts, preds, brk, cont):
        for s in stmts:
            preds = self.stmt(s, preds, brk, cont)
        return preds

    def stmt(self, s, preds, brk, cont):
        if isinstance(s, ast.If):
            t, f = self.test(s.test, preds)
            out = self.block(s.body, t, brk, cont)
            out = out + (self.block(s.orelse, f, brk, cont) if s.orelse else f)
            return out
        if isinstance(s, (ast.For, ast.AsyncFor)):
            head = self.new("stmt", s)
            self.of[id(s)] = head
            self.link(preds, head)
            b2, c2 = [], []
            out = self.block(s.body, [head], b2, c2) + c2
            for n in out:
                self.g.add_edge(n.id, head.id)
            after = [head]
            if s.orelse:
                after = self.block(s.orelse, [head], brk, cont)
            return after + b2
        if isinstance(s, ast.While):
            head = self.new("stmt", s)
            self.of[id(s)] = head
            self.link(preds, head)
            t, f = self.test(s.test, [head])
            b2, c2 = [], []
            out = self.block(s.body, t, b2, c2) + c2
            for n in out:
                self.g.add_edge(n.id, head.id)
            if isinstance(s.test, ast.Constant) and s.test.value:
                f = []
            return f + b2
        if isinstance(s, ast.Try):
            start = self.new("stmt", s)
            self.of[id(s)] = start
            self.link(preds, start)
            out = self.block(s.body, [start], brk, cont)
            if s.orelse:
                out = self.block(s.orelse, out, brk, cont)
            hout = []
            for h in s.handlers:
                hn = self.new("stmt", h)
                self.g.add_edge(start.id, hn.id)
                hout += self.block(h.body, [hn], brk, cont)
            out = out + hout
            if s.finalbody:
                out = self.block(s.finalbody, out, brk, cont)
            return out
        if isinstance(s, (ast.With, ast.AsyncWith)):
            n = self.new("stmt", s)
            self.of[id(s)] = n
            self.link(preds, n)
            return self.block(s.body, [n], brk, cont)
        n = self.new("stmt", s)
        self.of[id(s)] = n
        self.link(preds, n)
        if isinstance(s, ast.Return):
            self.g.add_edge(n.id, self.exit.id)
            return []
        if isinstance(s, ast.Raise):
            self.g.add_edge(n.id, self.raise_exit.id)
            return []
        if isinstance(s, ast.Break):
            if brk is not None:
                brk.append(n)
            return []
        if isinstance(s, ast.Continue):
            if cont is not None:
                cont.append(n)
            return []
        return [n]

    @property
    def idom(self):
        if self._dom is None:
            self._dom = nx.immediate_dominators(self.g, self.entry.id)
        return self._dom

    @property
    def ipdom(self):
        if self._pdom is None:
            g = self.g.reverse(copy=True)
            self._pdom = nx.immediate_dominators(g, self.exit.id)
        return self._pdom

    def _chain(self, d, nid):
        out = []
        if nid not in d and nid not in (self.entry.id, self.exit.id):
            return out
        while True:
            out.append(nid)
            p = d.get(nid, nid)
            if p == nid:
                break
            nid = p
        return out

    def node_of(self, stmt):
        """PNode for the simple statement (or loop head) that contains ast node `stmt`"""
        n = stmt
        while n is not None:
            if id(n) in self.of:
                return self.of[id(n)]
            n = getattr(n, "_parent", None)
        # expression inside an if/while test
        return None

    def dominates(self, a, b):
        return a.id in self._chain(self.idom, b.id)

    def postdominates(self, a, b):
        """a is on every path from b to the normal exit"""
        return a.id in self._chain(self.ipdom, b.id)

    def reaching(self, n, target):
        """reaching definitions of the expression text `target` (a name or an attribute path like 'self._x') at PNode n:
        a list of (value, guards) with value the assigned ast expression, None when the function entry is reached without a
        store (the value then comes from the caller / an earlier call) or the string 'unknown' (tuple target, augmented
        assignment, loop target, del); guards = the (test, polarity) assumptions passed on the way back"""
        out = []
        seen = set()

        def stores(s):
            if isinstance(s, ast.Assign):
                for t in s.targets:
                    if src(t) == target:
                        return s.value
                    if isinstance(t, (ast.Tuple, ast.List)) and any(src(e) == target for e in ast.walk(t)):
                        return "unknown"
            if isinstance(s, (ast.AugAssign, ast.AnnAssign)) and src(s.target) == target:
                return s.value if isinstance(s, ast.AnnAssign) and s.value is not None else "unknown"
            if isinstance(s, (ast.For, ast.AsyncFor)) and any(src(e) == target for e in ast.walk(s.target)):
                return "unknown"
            if isinstance(s, ast.Delete) and any(src(e) == target for e in s.targets):
                return "unknown"
            if isinstance(s, (ast.With, ast.AsyncWith)) and any(i.optional_vars is not None and src(i.optional_vars) == target for i in s.items):
                return "unknown"
            if isinstance(s, ast.Expr) and isinstance(s.value, ast.Call) and dotted(s.value.func) == "setattr" and len(s.value.args) == 3 \
                    and target.startswith(src(s.value.args[0]) + "."):
                a1 = s.value.args[1]
                if not isinstance(a1, ast.Constant):
                    return "unknown"
                if src(s.value.args[0]) + "." + str(a1.value) == target:
                    return s.value.args[2]
            return None

        stack = [(n.id, ())]
        while stack:
            nid, guards = stack.pop()
            for p in self.g.predecessors(nid):
                pn = self.nodes[p]
                g2 = guards
                if pn.k == "assume" and not any(g[0] is pn.node and g[1] == pn.pol for g in guards):
                    g2 = guards + ((pn.node, pn.pol),)
                key = (p, frozenset((id(g[0]), g[1]) for g in g2))
                if key in seen:
                    continue
                if len(seen) > 50000:
                    return out + [("unknown", [])]
                seen.add(key)
                if pn.k == "entry":
                    out.append((None, list(g2)))
                    continue
                if pn.k == "stmt":
                    v = stores(pn.node)
                    if v is not None:
                        out.append((v, list(g2)))
                        continue
                stack.append((p, g2))
        return out

    def guards(self, n):
        return [(self.nodes[i].node, self.nodes[i].pol) for i in self._chain(self.idom, n.id)
                if self.nodes[i].k == "assume"]

    def stmts_dominating(self, n):
        return [self.nodes[i] for i in self._chain(self.idom, n.id) if self.nodes[i].k == "stmt"]


def containing_stmt(node):
    """the innermost ast.stmt containing node"""
    n = node
    while n is not None and not isinstance(n, ast.stmt):
        n = getattr(n, "_parent", None)
    return n


# --------------------------------------------------------------------------------------------------
# tiny abstract interpreter over structured statements with joins (used for buffer-initialisation rules)
class AbsInterp(object):
    """subclass and override: top(), join(a,b), assign(state, target_ast, value_ast), call(state, call_ast),
    expr statements.  State is a dict name -> abstract value."""

    TOP = ("top",)

    def join_states(self, a, b):
        if a.get(self.DEAD):
            return dict(b)
        if b.get(self.DEAD):
            return dict(a)
        out = {}
        for k in set(a) | set(b):
            va, vb = a.get(k, self.TOP), b.get(k, self.TOP)
            out[k] = va if va == vb else self.join(va, vb)
        return out

    def join(self, a, b):
        return self.TOP

    DEAD = "__dead__"

    def run_block(self, stmts, st):
        for s in stmts:
            if st.get(self.DEAD):
                break
            st = self.run_stmt(s, st)
        return st

    def run_stmt(self, s, st):
        if isinstance(s, ast.If):
            a = self.run_block(s.body, dict(st))
            b = self.run_block(s.orelse, dict(st))
            return self.join_states(a, b)
        if isinstance(s, (ast.For, ast.While)):
            # fixpoint: at most 4 rounds on a finite-height domain
            cur = dict(st)
            if isinstance(s, ast.For):
                self.bind_loop_target(s, cur)
            for _ in range(6):
                body_out = self.run_block(s.body, dict(cur))
                nxt = self.join_states(cur, body_out)
                if isinstance(s, ast.For):
                    self.bind_loop_target(s, nxt)
                if nxt == cur:
                    break
                cur = nxt
            return self.run_block(s.orelse, cur) if s.orelse else cur
        if isinstance(s, ast.Try):
            a = self.run_block(s.body, dict(st))
            outs = [self.run_block(s.orelse, a) if s.orelse else a]
            for h in s.handlers:
                outs.append(self.run_block(h.body, self.join_states(st, a)))
            out = outs[0]
            for o in outs[1:]:
                # handlers that end in raise do not fall through
                out = self.join_states(out, o)
            if s.finalbody:
                out = self.run_block(s.finalbody, out)
            return out
        if isinstance(s, ast.With):
            return self.run_block(s.body, st)
        if isinstance(s, (ast.Raise, ast.Return)):
            st = self.simple(s, st)
            st = dict(st)
            st[self.DEAD] = True
            return st
        return self.simple(s, st)

    def bind_loop_target(self, s, st):
        for n in ast.walk(s.target):
            if isinstance(n, ast.Name):
                st[n.id] = self.TOP

    def simple(self, s, st):
        return st


def attrs_reset(fn, value_src="None"):
    """(set of 'self.x' attribute texts that fn resets to `value_src`, list of constructs it could not read).
    Understood: self.x = None, chained / tuple targets, setattr(self, 'x', None), and a loop of setattr(self, n, None) over a literal
    tuple / list / set of names (or a module-level constant of that form is NOT resolved here: it goes to the unread list)."""
    out, unread = set(), []
    for a in ast.walk(fn):
        if isinstance(a, ast.Assign) and src(a.value) == value_src:
            for t in a.targets:
                for e in (t.elts if isinstance(t, (ast.Tuple, ast.List)) else [t]):
                    out.add(src(e))
        if isinstance(a, ast.Call) and dotted(a.func) == "setattr" and len(a.args) == 3 and src(a.args[0]) == "self" and src(a.args[2]) == value_src:
            n = a.args[1]
            if isinstance(n, ast.Constant) and isinstance(n.value, str):
                out.add("self." + n.value)
            elif isinstance(n, ast.Name):
                loops = [l for l in ast.walk(fn) if isinstance(l, ast.For) and isinstance(l.target, ast.Name) and l.target.id == n.id
                         and any(x is a for x in ast.walk(l))]
                if len(loops) == 1 and isinstance(loops[0].iter, (ast.Tuple, ast.List, ast.Set)) and \
                        all(isinstance(e, ast.Constant) and isinstance(e.value, str) for e in loops[0].iter.elts):
                    out |= set("self." + e.value for e in loops[0].iter.elts)
                else:
                    unread.append(src(a))
            else:
                unread.append(src(a))
    return out, unread


def guard_atoms(guards):
    """atomic facts {(text without blanks, polarity)} implied by a list of (test, polarity) path conditions: a conjunction taken
    true and a disjunction taken false are split into their parts, 'not' flips, 'a not in b' reads as ('ainb', False),
    'a != b' as ('a==b', False), 'a is not b' as ('aisb', False)"""
    out = set()
    for t, pol in guards:
        if isinstance(t, ast.UnaryOp) and isinstance(t.op, ast.Not):
            out |= guard_atoms([(t.operand, not pol)])
        elif isinstance(t, ast.BoolOp) and ((isinstance(t.op, ast.And) and pol) or (isinstance(t.op, ast.Or) and not pol)):
            out |= guard_atoms([(v_, pol) for v_ in t.values])
        elif isinstance(t, ast.Compare) and len(t.ops) == 1 and isinstance(t.ops[0], (ast.NotIn, ast.NotEq, ast.IsNot)):
            op = {ast.NotIn: "in", ast.NotEq: "==", ast.IsNot: "is"}[type(t.ops[0])]
            out.add((src(t.left).replace(" ", "") + op + src(t.comparators[0]).replace(" ", ""), not pol))
        else:
            out.add((src(t).replace(" ", ""), pol))
    return out


def unroll_literal_loops(fn, limit=8):
    """in place: a for loop over a literal tuple / list of constants (also through enumerate(<literal>[, start]) and zip of two
    literals) with at most `limit` items, no break / continue / else, whose loop variables are not assigned in the body, reads as
    the copies of its body with the variables replaced by the constants - 'for i, name in enumerate(('t_x','t_y','t_z')):
    g.translation[i] = pars[name]' is the three stores it stands for.  Returns fn."""
    def items(it):
        def pure(x):
            # a constant, a name or an attribute chain: evaluating it again in each copy of the body changes nothing
            while isinstance(x, ast.Attribute):
                x = x.value
            return isinstance(x, (ast.Constant, ast.Name))

        def lit(e):
            return list(e.elts) if isinstance(e, (ast.Tuple, ast.List)) and all(pure(x) for x in e.elts) else None
        if lit(it) is not None:
            return [[x] for x in lit(it)]
        if isinstance(it, ast.Call) and dotted(it.func) == "enumerate" and it.args and lit(it.args[0]) is not None:
            start = 0
            if len(it.args) == 2:
                start = const_int(it.args[1])
            for kw in it.keywords:
                if kw.arg == "start":
                    start = const_int(kw.value)
            if start is None:
                return None
            return [[ast.Constant(value=start + k_), x] for k_, x in enumerate(lit(it.args[0]))]
        if isinstance(it, ast.Call) and dotted(it.func) == "zip" and len(it.args) == 2 and all(lit(a_) is not None for a_ in it.args) \
                and len(lit(it.args[0])) == len(lit(it.args[1])):
            return [[a_, b_] for a_, b_ in zip(lit(it.args[0]), lit(it.args[1]))]
        return None

    def expand(st):
        if not isinstance(st, ast.For) or st.orelse:
            return None
        rows = items(st.iter)
        if rows is None or not (1 <= len(rows) <= limit):
            return None
        tg = list(st.target.elts) if isinstance(st.target, (ast.Tuple, ast.List)) else [st.target]
        if not all(isinstance(t_, ast.Name) for t_ in tg) or len(tg) != len(rows[0]):
            return None
        names = [t_.id for t_ in tg]
        for x in ast.walk(ast.Module(body=st.body, type_ignores=[])):
            if isinstance(x, (ast.Break, ast.Continue)):
                return None
            if isinstance(x, ast.Name) and isinstance(x.ctx, (ast.Store, ast.Del)) and x.id in names:
                return None
        out = []
        for row in rows:
            mp = dict(zip(names, row))
            for b_ in st.body:
                nb = _Subst(mp).visit(clone(b_))
                ast.copy_location(nb, b_)
                out.append(ast.fix_missing_locations(nb))
        return out
    changed = True
    while changed:
        changed = False
        for n_ in ast.walk(fn):
            for fld in ("body", "orelse", "finalbody"):
                blk = getattr(n_, fld, None)
                if isinstance(blk, list):
                    for k_, st in enumerate(blk):
                        r_ = expand(st)
                        if r_ is not None:
                            blk[k_:k_ + 1] = r_
                            changed = True
                            break
    for n_ in ast.walk(fn):
        for c in ast.iter_child_nodes(n_):
            c._parent = n_
    return fn


def normalise_endless_for(fn):
    """in place: 'for T in itertools.cycle(E)' / 'itertools.count(..)' / 'itertools.repeat(x)' never runs out, so it reads as
    'while True: T = <next value>; body' (its else clause, if any, is unreachable and dropped) - the exit edge a flow graph gives
    every for loop does not exist for these"""
    def endless(it):
        d = dotted(it.func) if isinstance(it, ast.Call) else None
        if d in ("itertools.cycle", "cycle", "itertools.count", "count"):
            return True
        return d in ("itertools.repeat", "repeat") and len(it.args) == 1 and not it.keywords
    for n_ in ast.walk(fn):
        for fld in ("body", "orelse", "finalbody"):
            blk = getattr(n_, fld, None)
            if isinstance(blk, list):
                for k_, st in enumerate(blk):
                    if isinstance(st, ast.For) and endless(st.iter):
                        nxt = ast.Assign(targets=[st.target], value=ast.Call(func=ast.Name(id="next", ctx=ast.Load()), args=[st.iter], keywords=[]))
                        w = ast.While(test=ast.Constant(value=True), body=[ast.copy_location(nxt, st)] + st.body, orelse=[])
                        blk[k_] = ast.fix_missing_locations(ast.copy_location(w, st))
    for n_ in ast.walk(fn):
        for c in ast.iter_child_nodes(n_):
            c._parent = n_
    return fn


def normalise_continue_else(fn):
    """in place: inside a loop body, 'if C: A; continue' followed by the statements B reads as 'if C: A  else: B' (the continue was
    the last statement of the branch and B is the rest of the body)"""
    changed = True
    while changed:
        changed = False
        for lp in ast.walk(fn):
            if not isinstance(lp, (ast.For, ast.While)):
                continue
            stack = [lp.body]
            while stack:
                blk = stack.pop()
                for k_, st in enumerate(blk):
                    if isinstance(st, ast.If) and not st.orelse and st.body and isinstance(st.body[-1], ast.Continue) and k_ < len(blk) - 1:
                        rest = blk[k_ + 1:]
                        st.body = st.body[:-1] or [ast.copy_location(ast.Pass(), st)]
                        st.orelse = rest
                        del blk[k_ + 1:]
                        changed = True
                        break
                    if isinstance(st, ast.If):
                        # only the tail position of the loop body continues into the if's branches
                        if k_ == len(blk) - 1:
                            stack.append(st.body)
                            stack.append(st.orelse)
                if changed:
                    break
            if changed:
                break
    for n_ in ast.walk(fn):
        for c in ast.iter_child_nodes(n_):
            c._parent = n_
    return fn


def zero_fill(st, bsrc):
    """st is  B[...] = 0 / B[:] = 0 / B.fill(0) / B = np.zeros(..)  for the buffer text bsrc"""
    if isinstance(st, ast.Assign) and len(st.targets) == 1:
        t = st.targets[0]
        if isinstance(t, ast.Subscript) and src(t.value) == bsrc and const_int(st.value) == 0:
            sl = t.slice
            if isinstance(sl, ast.Constant) and sl.value is Ellipsis:
                return True
            if isinstance(sl, ast.Slice) and sl.lower is None and sl.upper is None and sl.step is None:
                return True
        if src(t) == bsrc and isinstance(st.value, ast.Call) and (dotted(st.value.func) or "").split(".")[-1] in ("zeros", "zeros_like"):
            return True
    if isinstance(st, ast.Expr) and isinstance(st.value, ast.Call) and isinstance(st.value.func, ast.Attribute) and st.value.func.attr == "fill" \
            and src(st.value.func.value) == bsrc and len(st.value.args) == 1 and const_int(st.value.args[0]) == 0:
        return True
    return False
