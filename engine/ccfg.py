"""Statement-level CFG over the C IR, with explicit 'assume' nodes on branch edges so that
"X is guarded by cond" is plain node dominance.  Conditions that are the literal 0 (NOISY, TRACE,
CHECKSANITY after preprocessing) prune the dead branch."""
import networkx as nx

from .cfront import E, S, estr, is_zero_lit
from .report import AnalysisError


class Node(object):
    __slots__ = ("id", "k", "e", "s", "pol", "line", "omp")

    def __init__(self, id, k, e=None, s=None, pol=None, line=None, omp=None):
        self.id = id
        self.k = k          # entry exit expr decl cond assume return omp_begin omp_end join
        self.e = e
        self.s = s
        self.pol = pol      # for assume: True/False
        self.line = line
        self.omp = omp

    def __repr__(self):
        if self.k == "assume":
            return "N%d<assume %s%s>" % (self.id, "" if self.pol else "!", estr(self.e))
        if self.k == "decl":
            return "N%d<decl %s>" % (self.id, self.s.var.name)
        return "N%d<%s %s>" % (self.id, self.k, estr(self.e) if self.e is not None else "")


class CFG(object):
    def __init__(self, func):
        self.func = func
        self.nodes = []
        self.g = nx.DiGraph()
        self.stmt_nodes = {}   # id(S) -> list of node ids created for it
        self.entry = self.new("entry")
        self.exit = self.new("exit")
        self.labels = {}
        self.gotos = []
        self._dom = None
        self._pdom = None

    def new(self, k, **kw):
        n = Node(len(self.nodes), k, **kw)
        self.nodes.append(n)
        self.g.add_node(n.id)
        if kw.get("s") is not None:
            self.stmt_nodes.setdefault(id(kw["s"]), []).append(n.id)
        return n

    def edge(self, a, b):
        self.g.add_edge(a.id, b.id)

    # -- dominators
    @property
    def idom(self):
        if self._dom is None:
            self._dom = nx.immediate_dominators(self.g, self.entry.id)
        return self._dom

    @property
    def ipdom(self):
        if self._pdom is None:
            self._pdom = nx.immediate_dominators(self.g.reverse(copy=True), self.exit.id)
        return self._pdom

    def dominators(self, nid):
        """set of node ids that dominate nid (including itself)"""
        out = []
        d = self.idom
        if nid not in d and nid != self.entry.id:
            return []   # unreachable
        while True:
            out.append(nid)
            p = d.get(nid, nid)
            if p == nid:
                break
            nid = p
        return out

    def postdominators(self, nid):
        out = []
        d = self.ipdom
        if nid not in d and nid != self.exit.id:
            return []
        while True:
            out.append(nid)
            p = d.get(nid, nid)
            if p == nid:
                break
            nid = p
        return out

    def guards(self, nid):
        """list of (cond E, polarity) assume nodes that dominate node nid"""
        return [(self.nodes[i].e, self.nodes[i].pol) for i in self.dominators(nid) if self.nodes[i].k == "assume"]

    def reachable(self):
        return set(nx.descendants(self.g, self.entry.id)) | {self.entry.id}

    def find_nodes(self, pred):
        r = self.reachable()
        return [n for n in self.nodes if n.id in r and pred(n)]


def build_cfg(func):
    c = CFG(func)
    b = _Builder(c)
    last = b.stmt(func.body, [c.entry], None, None)
    for n in last:
        c.edge(n, c.exit)
    for g, name in c.gotos:
        if name not in c.labels:
            raise AnalysisError("%s:%s goto to unknown label %s" % (func.file, func.name, name))
        c.edge(g, c.labels[name])
    return c


class _Builder(object):
    def __init__(self, cfg):
        self.c = cfg

    def _link(self, preds, node):
        for p in preds:
            self.c.edge(p, node)

    def cond(self, e, preds, line):
        """returns (true_preds, false_preds).  Short-circuit && and || are split so that each
        conjunct is its own assume node."""
        c = self.c
        if e is None:
            return preds, []
        if e.k == "int":
            if e.val == 0:
                return [], preds
            return preds, []
        if e.k == "bin" and e.op == "&&":
            t1, f1 = self.cond(e.a[0], preds, line)
            t2, f2 = self.cond(e.a[1], t1, line)
            return t2, f1 + f2
        if e.k == "bin" and e.op == "||":
            t1, f1 = self.cond(e.a[0], preds, line)
            t2, f2 = self.cond(e.a[1], f1, line)
            return t1 + t2, f2
        if e.k == "un" and e.op == "!":
            t, f = self.cond(e.a[0], preds, line)
            return f, t
        n = c.new("cond", e=e, line=e.line or line)
        self._link(preds, n)
        t = c.new("assume", e=e, pol=True, line=n.line)
        f = c.new("assume", e=e, pol=False, line=n.line)
        c.edge(n, t)
        c.edge(n, f)
        return [t], [f]

    def stmt(self, s, preds, brk, cont):
        """returns list of nodes from which control falls through"""
        c = self.c
        if s is None:
            return preds
        k = s.k
        if not preds and k != "label" and k != "block":
            # unreachable code (after return/break); still descend for labels
            if not any(x.k == "label" for x in _walk(s)):
                return []
        if k == "block" or k == "multi":
            for x in s.body:
                preds = self.stmt(x, preds, brk, cont)
            return preds
        if k == "decl":
            n = c.new("decl", s=s, e=s.init, line=s.line)
            self._link(preds, n)
            return [n]
        if k == "expr":
            n = c.new("expr", e=s.e, s=s, line=s.line)
            self._link(preds, n)
            return [n]
        if k == "null":
            return preds
        if k == "if":
            t, f = self.cond(s.cond, preds, s.line)
            out = self.stmt(s.then, t, brk, cont)
            if s.els is not None:
                out = out + self.stmt(s.els, f, brk, cont)
            else:
                out = out + f
            return out
        if k == "for":
            if s.init is not None:
                preds = self.stmt(s.init, preds, brk, cont)
            head = c.new("join", line=s.line, s=s)
            self._link(preds, head)
            t, f = self.cond(s.cond, [head], s.line)
            brk2, cont2 = [], []
            out = self.stmt(s.body, t, brk2, cont2)
            out = out + cont2
            if s.inc is not None:
                inc = c.new("expr", e=s.inc, s=s, line=s.line)
                self._link(out, inc)
                out = [inc]
            for n in out:
                c.edge(n, head)
            return f + brk2
        if k == "while":
            head = c.new("join", line=s.line, s=s)
            self._link(preds, head)
            t, f = self.cond(s.cond, [head], s.line)
            brk2, cont2 = [], []
            out = self.stmt(s.body, t, brk2, cont2) + cont2
            for n in out:
                c.edge(n, head)
            return f + brk2
        if k == "do":
            head = c.new("join", line=s.line, s=s)
            self._link(preds, head)
            brk2, cont2 = [], []
            out = self.stmt(s.body, [head], brk2, cont2) + cont2
            t, f = self.cond(s.cond, out, s.line)
            for n in t:
                c.edge(n, head)
            return f + brk2
        if k == "return":
            n = c.new("return", e=s.e, s=s, line=s.line)
            self._link(preds, n)
            c.edge(n, c.exit)
            return []
        if k == "break":
            if brk is None:
                raise AnalysisError("break outside loop at line %s" % s.line)
            n = c.new("join", line=s.line, s=s)      # a node of its own, so that the statement can be located in the graph
            self._link(preds, n)
            brk.append(n)
            return []
        if k == "continue":
            if cont is None:
                raise AnalysisError("continue outside loop at line %s" % s.line)
            n = c.new("join", line=s.line, s=s)
            self._link(preds, n)
            cont.append(n)
            return []
        if k == "goto":
            n = c.new("join", line=s.line, s=s)
            self._link(preds, n)
            c.gotos.append((n, s.name))
            return []
        if k == "label":
            n = c.new("join", line=s.line, s=s)
            self._link(preds, n)
            c.labels[s.name] = n
            return self.stmt(s.body, [n], brk, cont)
        if k == "omp":
            b = c.new("omp_begin", s=s, line=s.line, omp=s)
            self._link(preds, b)
            # break/continue do not cross an OpenMP region boundary
            out = self.stmt(s.body, [b], None, None)
            e = c.new("omp_end", s=s, line=s.line, omp=s)
            self._link(out, e)
            return [e]
        raise AnalysisError("unsupported statement kind %s" % k)


def _walk(s):
    from .cfront import swalk
    return swalk(s)
