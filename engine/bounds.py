"""E4: bounds ledger - every array subscript / pointer dereference of a C function is classified

  PROVEN        index affine in loop variables / extent symbols, 0 <= index < extent follows from the loop ranges
  GUARDED       as above, but the proof needs a fact established by a dominating condition (if / while / && / early exit)
  PRECONDITION  listed in the caller-supplied frozen table (function, array, normalised index) with a reason
  VIOLATION     an index that depends on input data and that nothing bounds, or an affine index for which the analyser
                exhibits admissible extents and an iteration that falls outside the array
  UNDECIDED     anything else (the check exits 2: the analyser cannot decide; it is never a silent pass)

A sequential abstract interpretation of the function body (OpenMP directives transparent) in the domain
'scalar -> polynomial over immutable atoms'.  Atoms are parameters, loop variables (one generic iteration), fresh
unknowns and versioned loads ('value of A[idx] at store-epoch k'); a fact is a polynomial known >= 0 and, because atoms
never change meaning, a fact never goes stale.  No solver: proofs are (a) elimination of loop variables at the end of
their range that minimises the obligation, (b) substitution of lower bounds, (c) a depth-bounded subtraction of
multiples of known facts.
"""
import collections
import itertools
import re
from fractions import Fraction

from . import cfront, omp
from .cfront import S, estr, estr_top, ewalk, swalk
from .poly import Poly, akey
from .report import AnalysisError

PURE = {"sqrt", "sqrtf", "fabs", "fabsf", "floor", "floorf", "ceil", "sin", "cos", "tan", "atan2", "acos", "asin", "exp", "log",
        "pow", "fmin", "fmax", "abs", "printf", "fprintf", "omp_get_thread_num", "omp_get_num_threads", "omp_get_max_threads",
        "omp_get_wtime", "my_get_time", "exit", "lrint", "round", "conv_double_to_int_fast", "conv_double_to_int_safe",
        "omp_set_num_threads", "omp_get_num_procs", "fflush", "assert", "__assert_fail", "getenv", "atoi", "isnan", "isinf"}


def is_int_ty(ty):
    t = re.sub(r"\b(const|volatile|restrict)\b", "", ty or "").strip()
    return bool(re.match(r"^(unsigned |signed )?(int|long|short|char|long long|long int|long unsigned int|unsigned|size_t|u?int\d+_t|_Bool)$", t)) \
        or t in ("unsigned int", "unsigned short", "unsigned char", "unsigned long", "signed char")


def is_unsigned_ty(ty):
    t = (ty or "")
    return "unsigned" in t or t.strip() in ("size_t", "_Bool") or bool(re.match(r"^uint\d+_t", t.strip()))


class Fact(object):
    __slots__ = ("p", "origin", "text", "req", "neq")

    def __init__(self, p, origin, text="", req=None, neq=None):
        self.p = p
        self.origin = origin     # 'range' | 'cond' | 'type' | 'pre'
        self.text = text
        self.req = req           # polynomial that must be >= 0 for this fact to hold (None: unconditional)
        self.neq = neq           # a pending 'q != 0' (integers): p is then the trivial 0 >= 0; once the other facts give q >= 0 or
                                 # q <= 0 the prover reads it as q >= 1 / q <= -1 ('if (x == 0) continue; if (x < 0 || x > n) ..')

    def __repr__(self):
        return "%r>=0[%s]" % (self.p, self.origin)


class NameCanon(object):
    """renaming that makes ledger keys independent of how variables are called and of unrelated declarations: parameters
    become p0, p1, ... by position; a local pointer is named after the call that allocates it (ptr<dset_compress>); a local
    fixed-size array after its type (arr<int[10]>); every other local is numbered a0, a1, ... in order of first appearance
    *within the key itself* (array, access text, dominating conditions)"""

    def __init__(self, func):
        self.static = {}
        self.locals = set()
        for i, p in enumerate(func.params):
            self.static[p.name] = "p%d" % i
        decls = [st for st in swalk(func.body) if st.k == "decl"]
        src_of = {}
        for st, e in cfront.all_exprs(func.body):
            for x in ewalk(e):
                if x.k == "asg" and x.op == "=" and x.a[0].k == "var" and "*" in (x.a[0].ty or ""):
                    r = x.a[1]
                    while r.k == "cast":
                        r = r.a[0]
                    if r.k == "call":
                        src_of.setdefault(x.a[0].name, r.name)
        for st in decls:
            if st.init is not None and "*" in (st.var.ty or ""):
                r = st.init
                while r.k == "cast":
                    r = r.a[0]
                if r.k == "call":
                    src_of.setdefault(st.var.name, r.name)
        used = collections.Counter()
        for st in decls:
            n = st.var.name
            if n in self.static:
                continue
            ty = st.var.ty or ""
            if n in src_of:
                tag = "ptr<%s>" % src_of[n]
            elif "[" in ty and "*" not in ty:
                tag = "arr<%s>" % norm_text(ty)
            else:
                self.locals.add(n)
                continue
            used[tag] += 1
            self.static[n] = tag if used[tag] == 1 else "%s#%d" % (tag, used[tag])
        self._re = re.compile(r"\b[A-Za-z_]\w*\b")

    def parts(self, texts):
        """rename the identifiers of a list of texts consistently -> list of renamed, blank-free texts"""
        dyn = {}

        def sub(m):
            w = m.group(0)
            if w in self.static:
                return self.static[w]
            if w in self.locals:
                if w not in dyn:
                    dyn[w] = "a%d" % len(dyn)
                return dyn[w]
            return w
        return [norm_text(self._re.sub(sub, t or "")) for t in texts]

    def text(self, t):
        return self.parts([t])[0]


class Acc(object):
    __slots__ = ("arr", "var", "idx", "text", "rw", "line", "ranges", "facts", "stmt", "length", "kind", "func", "callee", "cparam",
                 "canon", "_parts")

    def canon_parts(self):
        """(array, access, [all dominating conditions]) in a form that does not depend on how the source spells them: the access is the
        base array (local pointers resolved to what they point into) with its flat index as a polynomial, the conditions are the
        linear facts they contribute; parameters are named by position, loop variables by nesting depth, other locals by role.
        Falls back to consistently renamed source text (NameCanon) when the index has no polynomial form."""
        got = getattr(self, "_parts", None)
        if got is not None:
            return got
        c = getattr(self, "canon", None)
        static = c.static if c is not None else {}
        depth = {}
        for n, r in enumerate(self.ranges or []):
            depth.setdefault(r[0], "L%d" % n)

        def cname(nm):
            if nm in static:
                return static[nm]
            return "loc"

        def catom(at):
            if not isinstance(at, tuple):
                return cname(at)
            if at[0] == "iv":
                return depth.get(at, "Lx")
            if at[0] == "unk":
                return "unk<%s>" % (cname(at[1]) if isinstance(at[1], str) else "?")
            if at[0] == "load" and len(at) == 4:
                return "%s[%s]" % (cname(at[1]), ckey(at[2]))
            if at[0] == "load":
                return "ld<%s>" % (c.text(at[1]) if c is not None else norm_text(at[1]))
            if at[0] in ("op",):
                return "(%s%s%s)" % (ckey(at[2]), at[1], ckey(at[3]))
            if at[0] == "div":
                return "(%s/%s)" % (ckey(at[1]), ckey(at[2]))
            return "<%s>" % at[0]

        def ckey(k):
            terms = []
            for mono, coef in k:
                m = "*".join(sorted((catom(a_) if p_ == 1 else "%s^%d" % (catom(a_), p_)) for a_, p_ in mono))
                cf = Fraction(coef)
                cs = str(cf.numerator) if cf.denominator == 1 else str(cf)
                terms.append((m, cs))
            terms.sort()
            return "+".join(("%s*%s" % (cs, m)) if m else cs for m, cs in terms) or "0"
        arr = cname(self.arr) if self.arr in static else (c.text(self.arr) if c is not None else norm_text(self.arr))
        if self.idx is not None and self.kind in ("elem", None):
            acc = "%s[%s]" % (arr, ckey(self.idx.key()))
        elif self.idx is not None and self.kind == "region":
            acc = "%s[%s..+%s]@%s.%s" % (arr, ckey(self.idx.key()), ckey(self.length.key()) if self.length is not None else "?", self.callee, self.cparam)
        else:
            acc = c.text(self.text) if c is not None else norm_text(self.text)
        conds = []
        rel = []
        idx_atoms = set(x for x in (self.idx.atoms() if self.idx is not None else []) if isinstance(x, tuple) or x not in static)
        for f in self.facts:
            if f.origin != "cond":
                continue
            t = ckey(f.p.key()) + ">=0"
            if t not in conds:
                conds.append(t)
            if t not in rel and idx_atoms & set(f.p.atoms()):
                rel.append(t)
        self._parts = (arr, acc, sorted(set(conds)), sorted(set(rel)))
        return self._parts

    def plain_key(self):
        """human-readable key with the source's own names: function|array|access (used by the reason table)"""
        return "%s|%s|%s" % (self.func, self.arr, norm_text(self.text))

    def key(self):
        """renamed key (function, array, access text)"""
        p = self.canon_parts()
        return (self.func, p[0], p[1])

    def cond_texts(self):
        return list(self.canon_parts()[2])

    def relevant_conds(self):
        """dominating conditions that share a loop variable, loaded value or local with the index of the access"""
        return list(self.canon_parts()[3])

    def show_key(self):
        return "%s|%s|%s" % (self.func, self.arr, norm_text(self.text))


def stmt_text(stmt, x):
    """text of the statement an access occurs in (the condition for if / while / for headers)"""
    if stmt is None:
        return estr(x)
    k = stmt.k
    if k == "expr" and stmt.e is not None:
        return estr_top(stmt.e)
    if k == "decl":
        return "%s = %s" % (stmt.var.name, estr_top(stmt.init)) if stmt.init is not None else stmt.var.name
    if k == "return":
        return "return %s" % (estr_top(stmt.e) if stmt.e is not None else "")
    if k in ("if", "while", "do"):
        return "%s (%s)" % (k, estr_top(stmt.cond)) if stmt.cond is not None else k
    if k == "for":
        return "for (%s)" % (estr_top(stmt.cond) if stmt.cond is not None else "")
    return estr(x)


def norm_text(t):
    return re.sub(r"\s+", "", t or "")


def atoms_datadep(p):
    return [a for a in p.atoms() if isinstance(a, tuple)]


class BWalk(omp.Region):
    """sequential walk collecting accesses with loop ranges and the facts valid at the access"""
    sequential = True

    def __init__(self, func, tus, pointer_param_calls=None):
        fake = S("omp", name="none", clauses=[], body=func.body, line=func.line)
        omp.Region.__init__(self, func, fake, tus)
        self.epoch = collections.Counter()
        self.atom_facts = {}       # atom -> facts that hold by the semantics of the operator that produced it
        self.canon = NameCanon(func)
        self.out = []
        self.call_sites = []       # (call E, env copy, ranges, facts)
        self.allocs = {}           # local pointer name -> (extent Poly | None, text)
        self.returns = []
        self.tu = func.tu
        self.enums = getattr(func.tu, "enums", {}) or {}
        self.scalars = set()
        for st in swalk(func.body):
            if st.k == "decl":
                self.scalars.add(st.var.name)
        for p in func.params:
            self.scalars.add(p.name)

    # ------------------------------------------------------------------ forms
    def form(self, e, env):
        if e is None:
            return None
        k = e.k
        if k == "var" and e.scope == "enum":
            if e.name in self.enums:
                return Poly.const(self.enums[e.name])
            return Poly.atom(e.name)
        if k == "idx" or (k == "un" and e.op == "*"):
            v, idx = self.flat_index(e, env)
            if v is not None and idx is not None:
                return Poly.atom(("load", v.name, idx.key(), self.epoch[v.name]))
            return omp.unk("load")
        if k == "incdec":
            if e.val:     # prefix
                a = self.form(e.a[0], env)
                return None if a is None else a + (1 if e.op == "++" else -1)
            return self.form(e.a[0], env)
        if k == "asg" and e.op == "=":
            return self.form(e.a[1], env)
        if k in ("call", "member", "cond", "float"):
            return omp.unk(k)
        if k == "cast":
            if e.op in ("FloatingToIntegral",):
                return omp.unk("ftoi")
            if e.op in ("IntegralCast", "LValueToRValue", "NoOp") or is_int_ty(e.ty):
                return self.form(e.a[0], env)
            return omp.unk("cast")
        if k == "bin" and e.op in ("%", "&", "|", "^", "<<", ">>", "/"):
            a = self.form(e.a[0], env)
            b = self.form(e.a[1], env)
            if a is None or b is None:
                return None
            if e.op == "/" and a.is_const() and b.is_const() and b.const_value() != 0:
                q = a.const_value() / b.const_value()
                if q.denominator == 1:
                    return Poly.const(q)
            if e.op == "*":
                return a * b
            at = ("op", e.op, a.key(), b.key())
            if e.op == "%" and at not in self.atom_facts:
                # C remainder: for a >= 0 and b >= 1 the result lies in [0, b-1]
                self.atom_facts[at] = [Fact(Poly.atom(at), "range", "%s >= 0" % estr(e), req=a),
                                       Fact(b - 1 - Poly.atom(at), "range", "%s < %s" % (estr(e), estr(e.a[1])), req=b - 1)]
            return Poly.atom(at)
        if k == "sizeof":
            return omp.unk("sizeof")
        return omp.Region.form(self, e, env)

    # ------------------------------------------------------------------ facts from conditions
    def cond_facts(self, c, pol, env, known=None):
        """list of Fact implied when condition c evaluates to pol (known: facts already valid, used to sharpen a != b)"""
        out = []
        if c is None:
            return out
        while c.k == "cast":
            c = c.a[0]
        if c.k == "bin" and c.op == "&&":
            if pol:
                f1 = self.cond_facts(c.a[0], True, env, known)
                return f1 + self.cond_facts(c.a[1], True, env, (known or []) + f1)
            return out
        if c.k == "bin" and c.op == "||":
            if not pol:
                f1 = self.cond_facts(c.a[0], False, env, known)
                return f1 + self.cond_facts(c.a[1], False, env, (known or []) + f1)
            return out
        if c.k == "un" and c.op == "!":
            return self.cond_facts(c.a[0], not pol, env, known)
        if c.k == "bin" and c.op in ("<", "<=", ">", ">=", "==", "!="):
            ta, tb = strip_ty(c.a[0]), strip_ty(c.a[1])
            if not (is_int_ty(ta) and is_int_ty(tb)):
                return out
            a = self.form(c.a[0], env)
            b = self.form(c.a[1], env)
            if a is None or b is None:
                return out
            op = c.op
            if not pol:
                op = {"<": ">=", "<=": ">", ">": "<=", ">=": "<", "==": "!=", "!=": "=="}[op]
            t = "%s%s" % ("" if pol else "!", estr(c))

            def signed_under_unsigned_cast(e_):
                """(unsigned T) x  with x of a signed integer type: the comparison is made on the wrapped value"""
                return e_.k == "cast" and is_unsigned_ty(e_.ty or "") and is_int_ty(strip_ty(e_.a[0])) and not is_unsigned_ty(strip_ty(e_.a[0]) or "")
            if (signed_under_unsigned_cast(c.a[0]) or signed_under_unsigned_cast(c.a[1])) and op in ("<", "<=", ">", ">="):
                # the one-comparison range check:  (unsigned) x < (unsigned) y  with y >= 0  <=>  0 <= x < y.  Without y >= 0 nothing follows.
                small, big = (a, b) if op in ("<", "<=") else (b, a)
                if self.prover is not None and self.prover.prove(big, known or [], 2) is not None:
                    out.append(Fact(small, "cond", t))
                    out.append(Fact(big - small - (1 if op in ("<", ">") else 0), "cond", t))
                return out
            if op == "<":
                out.append(Fact(b - a - 1, "cond", t))
            elif op == "<=":
                out.append(Fact(b - a, "cond", t))
            elif op == ">":
                out.append(Fact(a - b - 1, "cond", t))
            elif op == ">=":
                out.append(Fact(a - b, "cond", t))
            elif op == "==":
                out.append(Fact(a - b, "cond", t))
                out.append(Fact(b - a, "cond", t))
            elif op == "!=" and self.prover is not None and known is not None:
                # a != b together with a >= b gives a >= b + 1 (integers)
                if self.prover.prove(a - b, known, 2) is not None:
                    out.append(Fact(a - b - 1, "cond", t))
                elif self.prover.prove(b - a, known, 2) is not None:
                    out.append(Fact(b - a - 1, "cond", t))
                else:
                    out.append(Fact(a - a, "cond", t, neq=a - b))      # sharpened later, when a sign of a - b is known
            elif op == "!=" and self.prover is not None:
                out.append(Fact(a - a, "cond", t, neq=a - b))
            return out
        # truthiness of an integer: x false  <=>  x == 0
        if not pol and is_int_ty(strip_ty(c)):
            a = self.form(c, env)
            if a is not None:
                out.append(Fact(a, "cond", "!" + estr(c)))
                out.append(Fact(-a, "cond", "!" + estr(c)))
        return out

    # ------------------------------------------------------------------ recording
    def rec(self, e, env, ctx, stmt):
        """record accesses of expression e with short-circuit facts, then apply its effects"""
        if e is None:
            return
        self._rec(e, env, ctx, stmt)
        # effects: stores bump epochs, scalar assignments update env
        W, R = [], []
        cfront.writes_reads(e, W, R)
        for x in W:
            if x.k in ("idx",) or (x.k == "un" and x.op == "*"):
                b = cfront.base_var(x)
                if b is not None:
                    self.epoch[b.name] += 1
        for x in ewalk(e):
            if x.k == "call" and x.name not in PURE:
                for a in x.a:
                    b = cfront.base_var(strip_addr(a))
                    if b is not None and ("*" in (b.ty or "") or "[" in (b.ty or "")):
                        self.epoch[b.name] += 1
                    if a.k == "un" and a.op == "&" and a.a[0].k == "var":
                        env[a.a[0].name] = omp.unk(a.a[0].name)     # scalar passed by address
        self.apply_assign(e, env, dict(guards=[]), True)
        # local pointer (re)binding: S = dset_initialise(..) / malloc
        if e.k == "asg" and e.op == "=" and e.a[0].k == "var" and "*" in (e.a[0].ty or ""):
            self.bind_pointer(e.a[0].name, e.a[1], env)

    def bind_pointer(self, name, rhs, env):
        r = rhs
        while r.k == "cast":
            r = r.a[0]
        if r.k == "call" and r.name in ("malloc", "calloc", "realloc"):
            self.allocs[name] = (self.alloc_extent(r, env), estr(r), r.line)
        elif r.k == "call":
            self.allocs[name] = (None, estr(r), r.line)
        self.epoch[name] += 1

    def alloc_extent(self, call, env):
        """number of elements allocated: malloc(n*sizeof(T)), calloc(n, sizeof(T)), realloc(p, n*sizeof(T))"""
        args = call.a
        if call.name == "calloc" and len(args) == 2:
            if args[1].k == "sizeof" or any(x.k == "sizeof" for x in ewalk(args[1])):
                return self.form(args[0], env)
            if any(x.k == "sizeof" for x in ewalk(args[0])):
                return self.form(args[1], env)
            return None
        sz = args[-1]
        fac = []

        def split(x):
            while x.k == "cast":
                x = x.a[0]
            if x.k == "bin" and x.op == "*":
                split(x.a[0])
                split(x.a[1])
            else:
                fac.append(x)
        split(sz)
        rest = [x for x in fac if x.k != "sizeof"]
        if len(rest) == len(fac):
            return None
        p = Poly.const(1)
        for x in rest:
            f = self.form(x, env)
            if f is None:
                return None
            p = p * f
        return p

    def _rec(self, e, env, ctx, stmt):
        k = e.k
        if k == "bin" and e.op in ("&&", "||"):
            self._rec(e.a[0], env, ctx, stmt)
            c2 = dict(ctx, facts=ctx["facts"] + self.cond_facts(e.a[0], e.op == "&&", env, ctx["facts"]))
            self._rec(e.a[1], env, c2, stmt)
            return
        if k == "cond":
            self._rec(e.a[0], env, ctx, stmt)
            self._rec(e.a[1], env, dict(ctx, facts=ctx["facts"] + self.cond_facts(e.a[0], True, env, ctx["facts"])), stmt)
            self._rec(e.a[2], env, dict(ctx, facts=ctx["facts"] + self.cond_facts(e.a[0], False, env, ctx["facts"])), stmt)
            return
        if k in ("asg", "incdec", "idx", "un", "call", "cast", "bin", "member"):
            # does a short-circuit operator occur below?  if so recurse into operands, otherwise leaf-collect
            if any(x.k == "cond" or (x.k == "bin" and x.op in ("&&", "||")) for x in ewalk(e) if x is not e):
                if k == "asg":
                    self._rec(e.a[1], env, ctx, stmt)
                    self._leaf(e.a[0], env, ctx, stmt, "w" if e.op == "=" else "rw")
                    return
                if k == "call":
                    for a in e.a:
                        self._rec(a, env, ctx, stmt)
                    self.note_call(e, env, ctx)
                    return
                for a in e.a:
                    if isinstance(a, cfront.E):
                        self._rec(a, env, ctx, stmt)
                if k == "idx" or (k == "un" and e.op == "*"):
                    self._leaf_one(e, env, ctx, stmt, "r")
                return
        self._leaf(e, env, ctx, stmt, "r")

    def _leaf(self, e, env, ctx, stmt, mode):
        W, R = [], []
        cfront.writes_reads(e, W, R, mode)
        for rw, lst in (("r", R), ("w", W)):
            for x in lst:
                if x.k in ("var", "member"):
                    continue
                self._leaf_one(x, env, ctx, stmt, rw)
        for x in ewalk(e):
            if x.k == "call":
                self.note_call(x, env, ctx)

    def _leaf_one(self, x, env, ctx, stmt, rw):
        v, idx = self.flat_index(x, env)
        a = Acc()
        a.canon = self.canon
        a.func = self.func.name
        a.var = v
        a.arr = v.name if v is not None else "?"
        a.idx = idx
        a.text = estr(x)
        a.rw = rw
        a.line = x.line or getattr(stmt, "line", None) or self.func.line
        a.ranges = list(ctx["ranges"])
        a.facts = list(ctx["facts"])
        if idx is not None and self.atom_facts:
            for at in idx.atoms():
                if at in self.atom_facts:
                    a.facts = a.facts + self.atom_facts[at]
        a.stmt = stmt_text(stmt, x)
        a.length = Poly.const(1)
        a.kind = "elem"
        a.callee = None
        a.cparam = None
        self.out.append(a)

    def note_call(self, call, env, ctx):
        if call.name in PURE or call.name in ("malloc", "calloc", "realloc", "free", "memset", "memcpy"):
            if call.name in ("memset", "memcpy"):
                self.call_sites.append((call, dict(env), list(ctx["ranges"]), list(ctx["facts"])))
            return
        self.call_sites.append((call, dict(env), list(ctx["ranges"]), list(ctx["facts"])))

    # ------------------------------------------------------------------ statements
    def arrays_written(self, s):
        out = set()
        for st, x in cfront.all_exprs(s):
            W, R = [], []
            cfront.writes_reads(x, W, R)
            for w in W:
                if w.k == "idx" or (w.k == "un" and w.op == "*"):
                    b = cfront.base_var(w)
                    if b is not None:
                        out.add(b.name)
            for c in ewalk(x):
                if c.k == "call" and c.name not in PURE:
                    for a in c.a:
                        b = cfront.base_var(strip_addr(a))
                        if b is not None and ("*" in (b.ty or "") or "[" in (b.ty or "")):
                            out.add(b.name)
                if c.k == "asg" and c.a[0].k == "var" and "*" in (c.a[0].ty or ""):
                    out.add(c.a[0].name)
        return out

    def bump(self, names):
        for n in names:
            self.epoch[n] += 1

    def bblock(self, stmts, env, ctx):
        for x in stmts:
            ctx = self.bstmt(x, env, ctx)
        return ctx

    def bstmt(self, s, env, ctx):
        """walk one statement; returns the context for the statements that follow it in the same block"""
        if s is None:
            return ctx
        k = s.k
        if k in ("block", "multi"):
            end = self.bblock(s.body, env, ctx)
            self._end_facts = end["facts"]
            return ctx
        if k == "decl":
            if s.init is not None:
                self.rec(s.init, env, ctx, s)
                f = self.form(s.init, env)
                env[s.var.name] = f if f is not None else omp.unk(s.var.name)
                if "*" in (s.var.ty or ""):
                    self.bind_pointer(s.var.name, s.init, env)
                    self.bind_alias(s.var.name, s.var.ty, s.init, env)
            else:
                env[s.var.name] = omp.unk(s.var.name)
                env.pop(("ptr", s.var.name), None)
            return ctx
        if k == "expr":
            self.rec(s.e, env, ctx, s)
            return ctx
        if k == "return":
            if s.e is not None:
                self.rec(s.e, env, ctx, s)
            self.returns.append((s, list(ctx["facts"])))
            return ctx
        if k == "if":
            self.rec(s.cond, env, ctx, s)
            if cfront.is_zero_lit(s.cond):
                if s.els is not None:
                    self.bstmt(s.els, env, ctx)
                return ctx
            ft = self.cond_facts(s.cond, True, env, ctx["facts"])
            ff = self.cond_facts(s.cond, False, env, ctx["facts"])
            e1 = dict(env)
            self._end_facts = None
            r1 = self.bstmt(s.then, e1, dict(ctx, facts=ctx["facts"] + ft))
            p1 = self._end_facts if (s.then is not None and s.then.k in ("block", "multi") and self._end_facts is not None) else r1["facts"]
            e2 = dict(env)
            p2 = ctx["facts"] + ff
            if s.els is not None:
                self._end_facts = None
                r2 = self.bstmt(s.els, e2, dict(ctx, facts=ctx["facts"] + ff))
                p2 = self._end_facts if (s.els.k in ("block", "multi") and self._end_facts is not None) else r2["facts"]
            t_esc = omp._escapes(s.then)
            e_esc = s.els is not None and omp._escapes(s.els)
            if t_esc and not e_esc:
                env.clear()
                env.update(e2)
                return dict(ctx, facts=ctx["facts"] + ff)
            if e_esc and not t_esc:
                env.clear()
                env.update(e1)
                return dict(ctx, facts=ctx["facts"] + ft)
            joined = []
            for n in sorted(set(e1) | set(e2), key=str):
                if isinstance(n, tuple):   # local pointer alias: kept only when both branches agree
                    if e1.get(n) == e2.get(n) and e1.get(n) is not None:
                        env[n] = e1[n]
                    else:
                        env.pop(n, None)
                    continue
                if e1.get(n) != e2.get(n):
                    env[n] = omp.unk(n)
                    if e1.get(n) is not None and e2.get(n) is not None:
                        joined.append((n, e1[n], e2[n], env[n]))
                else:
                    env[n] = e1[n]
            extra = self.join_facts(joined, p1, p2) if (joined and not t_esc and not e_esc) else []
            return dict(ctx, facts=ctx["facts"] + extra) if extra else ctx
        if k == "for":
            return self.bloop(s, env, ctx)
        if k in ("while", "do"):
            names = self.assigned_scalars(s)
            arrs = self.arrays_written(s)
            pre = dict(env)
            self.havoc(env, names)
            self.bump(arrs)
            cfacts, post = self.counter_facts(s.body, names, pre, env, None, None, 1)
            c1 = dict(ctx, facts=ctx["facts"] + cfacts)
            if k == "while":
                self.rec(s.cond, env, c1, s)
                c1 = dict(c1, facts=c1["facts"] + self.cond_facts(s.cond, True, env))
            self.bstmt(s.body, env, c1)
            if k == "do":
                self.rec(s.cond, env, c1, s)
            self.havoc(env, names)
            self.bump(arrs)
            extra = post(env)
            if not omp._has_own_break(s.body):
                extra = extra + self.cond_facts(s.cond, False, env)
            return dict(ctx, facts=ctx["facts"] + extra) if extra else ctx
        if k in ("break", "continue", "null"):
            return ctx
        if k == "omp":
            self.bstmt(s.body, env, ctx)
            return ctx
        if k == "goto":
            return ctx
        if k == "label":
            self.havoc(env, self.assigned_scalars(self.func.body))
            self.bump(list(self.epoch) + [p.name for p in self.func.params])
            return dict(ctx, facts=[f for f in ctx["facts"] if f.origin in ("type", "pre")])
        raise AnalysisError("bounds: unsupported statement %s at %s:%s" % (k, self.func.file, s.line))

    prover = None

    def join_facts(self, joined, p1, p2):
        """clip idiom: after 'if (x < lo) x = lo;' the merged value u of x satisfies every bound g(.) that holds for the
        then-value under the then-facts and for the else-value under the else-facts.  Candidates g are the known facts that
        mention the single atom of one of the two values."""
        if self.prover is None:
            return []
        out = []
        for n, v1, v2, u in joined:
            cands = []
            for v in (v1, v2):
                at = [a for a in v.atoms()]
                if len(at) == 1 and v.degree_in(at[0]) == 1 and v.coeff(at[0], 1).is_const() and v.coeff(at[0], 1).const_value() == 1:
                    a = at[0]
                    shift = v.without(a)           # v = a + shift
                    for f in p1 + p2:
                        if f.req is None and a in f.p.atoms() and f.p.degree_in(a) == 1:
                            cands.append((f, a, shift))
            # the sign of the merged value: both alternatives provably >= 0 (p = 0 on one path, p = n under n > 0 on the other)
            try:
                if self.prover.prove(v1, p1, 3) is not None and self.prover.prove(v2, p2, 3) is not None:
                    out.append(Fact(u, "cond", "join of %s: both values >= 0" % n))
            except Exception:
                pass
            seen = set()
            for f, a, shift in cands:
                # g(t) := f.p with a replaced by (t - shift)
                def g(t):
                    return f.p.subs({a: t - shift})
                k = g(Poly.atom("@")).key()
                if k in seen:
                    continue
                seen.add(k)
                if self.prover.prove(g(v1), p1, 3) is not None and self.prover.prove(g(v2), p2, 3) is not None:
                    out.append(Fact(g(u), "cond", "join of %s" % n))
        return out

    def cond_facts_nostore(self, c, pol, env):
        return self.cond_facts(c, pol, env)

    def bloop(self, s, env, ctx):
        hdr = omp.loop_header(s, extra_updates=True)
        names = self.assigned_scalars(s.body) | (self.assigned_scalars(S("expr", e=s.inc)) if s.inc is not None else set())
        arrs = self.arrays_written(s)
        if s.init is not None:
            self.bstmt(s.init, env, ctx)
        if hdr is None:
            pre = dict(env)
            self.havoc(env, names)
            self.bump(arrs)
            whole = S("block", body=[s.body] + ([S("expr", e=s.inc)] if s.inc is not None else []))
            cfacts, post = self.counter_facts(whole, names, pre, env, None, None, 1)
            c1 = dict(ctx, facts=ctx["facts"] + cfacts)
            if s.cond is not None:
                self.rec(s.cond, env, c1, s)
                c1 = dict(c1, facts=c1["facts"] + self.cond_facts(s.cond, True, env))
            self.bstmt(s.body, env, c1)
            if s.inc is not None:
                self.rec(s.inc, env, c1, s)
            self.havoc(env, names)
            self.bump(arrs)
            extra = post(env)
            if s.cond is not None and not omp._has_own_break(s.body):
                extra = extra + self.cond_facts(s.cond, False, env)
            return dict(ctx, facts=ctx["facts"] + extra) if extra else ctx
        iv, start, bound, step, direction, incl = hdr
        lo = self.form(start, env)
        bd = self.form(bound, env)
        # the bound expression is evaluated in the header: record its accesses (e.g. i < n[k])
        self.rec_only(bound, env, ctx, s)
        pre_env = dict(env)
        self.havoc(env, names - {iv})
        self.bump(arrs)
        ivkey = ("iv", iv, next(omp._fresh))
        ivatom = Poly.atom(ivkey)
        env[iv] = ivatom
        # walking pointers: a local pointer into an array that the body advances by a loop-invariant amount at the top level of
        # every iteration points, at the top of iteration iv, (iv - lo) strides further than at loop entry
        walkers = {}
        if lo is not None and step == 1 and direction > 0:
            for n in sorted(x for x in names - {iv} if isinstance(x, str)):
                if ("ptr", n) not in pre_env or pre_env[("ptr", n)][1] is None:
                    continue
                stride = self.pointer_stride(s, n, names, pre_env)
                if stride is not None:
                    b0, o0 = pre_env[("ptr", n)]
                    env[("ptr", n)] = (b0, o0 + stride * (ivatom - lo))
                    walkers[n] = (b0, o0, stride)
        rng = None
        if lo is not None and bd is not None:
            if direction > 0:
                last = bd if incl else bd - 1
                if not incl and not isinstance(step, int):
                    # symbolic stride: when (bound - start) is an exact multiple of the stride the last value is bound - stride
                    if divisible_by_atom(bd - lo, step):
                        last = bd - step
                elif not incl and isinstance(step, int) and step > 1:
                    d = bd - lo
                    if all(Fraction(c) % step == 0 for c in d.t.values()):
                        last = bd - step
                rng = (lo, last)
            else:
                rng = (bd if incl else bd + 1, lo)
        c1 = dict(ctx, ranges=ctx["ranges"] + [(ivkey, rng, iv, step)], facts=list(ctx["facts"]))
        if rng is not None:
            c1["facts"] = c1["facts"] + [Fact(ivatom - rng[0], "range", "%s>=lo" % iv), Fact(rng[1] - ivatom, "range", "%s<=hi" % iv)]
        # counters: scalars only ever incremented in the body
        pre = dict(pre_env)
        cfacts, post = self.counter_facts(s.body, names - {iv}, pre, env, ivatom if (rng is not None and step in (1, -1)) else None, rng, direction)
        c1["facts"] = c1["facts"] + cfacts
        self.bstmt(s.body, env, c1)
        self.havoc(env, names | {iv})
        self.bump(arrs)
        if walkers and not omp._has_own_break(s.body) and bd is not None and not incl:
            trips = bd - lo
            if trips.is_const() and trips.const_value() >= 0:
                for n, (b0, o0, stride) in walkers.items():
                    env[("ptr", n)] = (b0, o0 + stride * trips)
        extra = post(env)
        if not omp._has_own_break(s.body) and rng is not None and step in (1, -1) and not incl and iv in env:
            # value of the loop variable after a normal exit of 'for (iv = lo; iv < bd; iv++)': max(lo, bd)
            v = env[iv]
            if direction > 0:
                extra = extra + [Fact(v - bd, "range", "%s after the loop" % iv), Fact(v - lo, "range", "%s after the loop" % iv),
                                 Fact(bd - v, "range", "%s after the loop" % iv, req=bd - lo)]
            else:
                extra = extra + [Fact(bd - v, "range", "%s after the loop" % iv), Fact(lo - v, "range", "%s after the loop" % iv),
                                 Fact(v - bd, "range", "%s after the loop" % iv, req=lo - bd)]
        if extra:
            return dict(ctx, facts=ctx["facts"] + extra)
        if not omp._has_own_break(s.body) and lo is not None and bd is not None and step in (1, -1):
            # normal exit: iv reached the bound (only meaningful if the loop ran or not: iv == max(lo, bound) for step 1)
            pass
        return ctx

    def pointer_stride(self, loop, name, names, pre_env):
        """total amount (Poly) by which the canonical loop advances pointer `name` per iteration, when every write to it is
        (a) a top-level statement of the loop body of the form p += c, p -= c, p++, p-- (c a literal or a variable the loop does
        not assign), (b) such an update in the comma list of the header's increment expression, or (c) made by an inner canonical
        unit-stride loop at the top level of the body that itself only walks the pointer and whose trip count bd - lo is loop
        invariant and provably >= 0 (contributing stride * trips); else None"""
        body = loop.body
        tops = body.body if body is not None and body.k in ("block", "multi") else [body]
        total = Poly.const(0)
        seen = 0

        def update(e):
            """(amount, 1) for an update expression of the pointer, (None, 1) for another kind of write, (0, 0) if not a write"""
            if e.k == "asg" and e.a[0].k == "var" and e.a[0].name == name:
                if e.op not in ("+=", "-="):
                    return None, 1
                if any(x.k == "var" and x.name in names for x in ewalk(e.a[1])) or any(x.k in ("call", "asg", "incdec", "idx") for x in ewalk(e.a[1])):
                    return None, 1
                d = self.form(e.a[1], pre_env)
                if d is None:
                    return None, 1
                return (d if e.op == "+=" else -d), 1
            if e.k == "incdec" and e.a[0].k == "var" and e.a[0].name == name:
                return Poly.const(1 if e.op == "++" else -1), 1
            return Poly.const(0), 0

        def commas(e):
            if e is not None and e.k == "bin" and e.op == ",":
                return commas(e.a[0]) + commas(e.a[1])
            return [e] if e is not None else []
        for st in tops:
            if st is None:
                continue
            if st.k == "expr" and st.e is not None:
                for e in commas(st.e):
                    d, w = update(e)
                    if w and d is None:
                        return None
                    if w:
                        total = total + d
                        seen += w
            elif st.k == "for" and any((x.k in ("asg", "incdec")) and x.a[0].k == "var" and x.a[0].name == name for _s, x in cfront.all_exprs(st)):
                hdr = omp.loop_header(st, extra_updates=True)
                if hdr is None:
                    return None
                iv2, start, bound, step2, dir2, incl2 = hdr
                if step2 != 1 or dir2 <= 0 or incl2:
                    return None
                if any(x.k == "var" and x.name in names and x.name != iv2 for x in list(ewalk(start)) + list(ewalk(bound))):
                    return None
                a_, b_ = self.form(start, pre_env), self.form(bound, pre_env)
                if a_ is None or b_ is None or self.prover is None or not self.prover.nonneg_by_lb(b_ - a_, {}):
                    return None
                inner_names = self.assigned_scalars(st.body) | (self.assigned_scalars(S("expr", e=st.inc)) if st.inc is not None else set())
                if omp._has_own_break(st.body):
                    return None
                inner = self.pointer_stride(st, name, inner_names | names, pre_env)
                if inner is None:
                    return None
                total = total + inner * (b_ - a_)
                seen += sum(1 for _s, x in cfront.all_exprs(st) if (x.k in ("asg", "incdec")) and x.a[0].k == "var" and x.a[0].name == name)
        for e in commas(loop.inc):
            d, w = update(e)
            if w and d is None:
                return None
            if w:
                total = total + d
                seen += w
        nw = 0
        for st, x in cfront.all_exprs(body):
            if (x.k in ("asg", "incdec")) and x.a[0].k == "var" and x.a[0].name == name:
                nw += 1
            if x.k == "un" and x.op == "&" and x.a[0].k == "var" and x.a[0].name == name:
                return None
        for x in (ewalk(loop.inc) if loop.inc is not None else []):
            if (x.k in ("asg", "incdec")) and x.a[0].k == "var" and x.a[0].name == name:
                nw += 1
        if seen == 0 or nw != seen:
            return None
        return total

    def counter_facts(self, body, names, pre, env, ivatom, rng, direction):
        """scalars that the loop body only ever increments (x++, x += c with c >= 0 constant) never fall below their value
        at loop entry; if additionally every increment is '++' at the top nesting level of a canonical unit-stride loop
        (not inside an inner loop), the scalar is at most entry + (#sites) * (iterations completed).
        -> (facts valid at the top of a generic iteration, function giving the facts valid after the loop)"""
        facts = []
        after = []
        for n in sorted(names):
            if n not in pre or n not in env:
                continue
            init = pre[n]
            if init is None or any(isinstance(a, tuple) and a[0] == "unk" and False for a in init.atoms()):
                continue
            sites = []      # (kind, amount, multiplier Poly | None, requirement Poly | None)
            ok = True
            modified = set(names)

            def trip(loop):
                """trip count of an inner canonical unit-stride loop whose bounds are invariant in the outer body, else None"""
                hdr = omp.loop_header(loop)
                if hdr is None:
                    return None
                iv2, start, bound, step, direction2, incl2 = hdr
                if step not in (1, -1):
                    return None
                for x in list(ewalk(start)) + list(ewalk(bound)):
                    if x.k == "var" and x.name in modified:
                        return None
                    if x.k not in ("var", "int", "bin", "cast", "un"):
                        return None
                a, b = self.form(start, env), self.form(bound, env)
                if a is None or b is None:
                    return None
                t = (b - a) if direction2 > 0 else (a - b)
                return t + 1 if incl2 else t

            def scan(st, mult, req):
                nonlocal ok
                if st is None:
                    return
                if st.k in ("for", "while", "do"):
                    t = trip(st) if st.k == "for" else None
                    m2 = None if (mult is None or t is None) else mult * t
                    r2 = t if (req is None) else None      # one level of nesting keeps an exact requirement
                    if mult is not None and t is not None and req is not None:
                        m2 = None
                    for c in omp._children(st):
                        scan(c, m2, r2 if m2 is not None else None)
                    for x in (st.cond, st.inc):
                        if x is not None:
                            exprs(x, m2, r2 if m2 is not None else None)
                    return
                for x in cfront.stmt_exprs(st):
                    exprs(x, mult, req)
                if st.k == "decl" and st.var.name == n:
                    ok = False
                for c in omp._children(st):
                    scan(c, mult, req)

            def exprs(e, mult, req):
                nonlocal ok
                for x in ewalk(e):
                    if x.k == "incdec" and x.a[0].k == "var" and x.a[0].name == n:
                        sites.append((x.op, 1, mult, req))
                    elif x.k == "asg" and x.a[0].k == "var" and x.a[0].name == n:
                        if x.op in ("+=", "-=") and x.a[1].k == "int":
                            sites.append(("++" if x.op == "+=" else "--", x.a[1].val, mult, req))
                        elif x.op == "=" and x.a[1].k == "bin" and x.a[1].op in ("+", "-") and x.a[1].a[0].k == "var" \
                                and x.a[1].a[0].name == n and x.a[1].a[1].k == "int":
                            sites.append(("++" if x.a[1].op == "+" else "--", x.a[1].a[1].val, mult, req))
                        else:
                            ok = False
                    elif x.k == "un" and x.op == "&" and x.a[0].k == "var" and x.a[0].name == n:
                        ok = False
            scan(body, Poly.const(1), None)
            if not ok or not sites:
                continue
            cur = env[n]
            if all(k == "++" for k, amt, m, rq in sites):
                facts.append(Fact(cur - init, "range", "%s only incremented" % n))
                after.append((n, init, +1, None))
                if ivatom is not None and rng is not None and all(m is not None for k, amt, m, rq in sites):
                    per = Poly.const(0)
                    reqs = [rq for k, amt, m, rq in sites if rq is not None]
                    for k, amt, m, rq in sites:
                        per = per + m.scale(amt)
                    if len(set(r.key() for r in reqs)) <= 1:
                        rq = reqs[0] if reqs else None
                        done = (ivatom - rng[0]) if direction > 0 else (rng[1] - ivatom)
                        facts.append(Fact(init + done * per - cur, "range", "%s incremented at most (%s) per iteration" % (n, show_poly(per)), req=rq))
                        after.append((n, init + (rng[1] - rng[0] + 1) * per, -1, rng[1] - rng[0] + 1 if rq is None else None))
            elif all(k == "--" for k, amt, m, rq in sites):
                facts.append(Fact(init - cur, "range", "%s only decremented" % n))
                after.append((n, init, -1, None))

        def post(env2):
            out = []
            for n, bound, sign, req in after:
                v = env2.get(n)
                if v is None:
                    continue
                out.append(Fact((v - bound) if sign > 0 else (bound - v), "range", "%s after the loop" % n, req=req))
            return out
        return facts, post

    def rec_only(self, e, env, ctx, stmt):
        if e is None:
            return
        self._rec(e, env, ctx, stmt)

    def run(self):
        env = {}
        ctx = dict(ranges=[], facts=[])
        self.bstmt(self.func.body, env, ctx)
        return self


_loop_id = itertools.count()


def divisible_by_atom(p, step):
    """is polynomial p a polynomial multiple of the single-atom polynomial 'step'?"""
    at = list(step.atoms())
    if len(at) != 1 or step.degree_in(at[0]) != 1 or not step.without(at[0]).is_zero():
        return False
    a = at[0]
    return all(any(x == a for x, pw in mono) for mono in p.t)


def strip_ty(e):
    """type of an expression ignoring the implicit promotions clang inserts"""
    x = e
    while x.k == "cast" and x.op in ("IntegralCast", "LValueToRValue", "NoOp"):
        x = x.a[0]
    return x.ty if x.ty else e.ty


def strip_addr(a):
    while a.k == "cast":
        a = a.a[0]
    if a.k == "un" and a.op == "&":
        return a.a[0]
    return a


# ---------------------------------------------------------------------------------------------------------------
# prover
class Prover(object):
    def __init__(self, nonneg_atoms=(), pos_atoms=(), unsigned_arrays=(), lower=None):
        self.nonneg = set(nonneg_atoms)
        self.pos = set(pos_atoms)
        self.unsigned_arrays = set(unsigned_arrays)
        self.lower = dict(lower or {})
        self.used = []

    def atom_lb(self, a, lbs):
        if a in lbs:
            return lbs[a]
        if isinstance(a, tuple) and a[0] == "load" and a[1] in self.unsigned_arrays:
            return 0
        if isinstance(a, tuple) and a[0] == "iv":
            return None
        if a in self.lower:
            return self.lower[a]
        if a in self.pos:
            return 1
        if a in self.nonneg:
            return 0
        return None

    def single_bounds(self, facts):
        """facts c*x + d >= 0 with one atom of degree 1: x >= ceil(-d/c) (c > 0)"""
        import math
        lbs = {}
        for f in facts:
            p = f.p
            at = list(p.atoms())
            if len(at) != 1 or p.degree_in(at[0]) != 1:
                continue
            x = at[0]
            c = p.coeff(x, 1)
            if not c.is_const():
                continue
            cv = c.const_value()
            d = p.without(x).const_value()
            if cv > 0:
                b = math.ceil(Fraction(-d) / cv)
                base = self.atom_lb(x, {})
                lbs[x] = max(lbs.get(x, b), b) if base is None else max(lbs.get(x, base), b, base)
        return lbs

    def nonneg_by_lb(self, p, lbs):
        if p.is_const():
            return p.const_value() >= 0
        sub = {}
        for x in p.atoms():
            b = self.atom_lb(x, lbs)
            if b is None:
                return False
            if b != 0:
                sub[x] = Poly.atom(x) + b
        q = p.subs(sub) if sub else p
        return all(v >= 0 for v in q.t.values())

    def prove(self, p, facts, depth=5):
        """p >= 0 ?  -> list of facts used (possibly empty) or None"""
        if any(getattr(f, "neq", None) is not None for f in facts):
            rest = [f for f in facts if getattr(f, "neq", None) is None]
            extra = []
            for f in facts:
                q = getattr(f, "neq", None)
                if q is None:
                    continue
                if self.prove(q, rest, 2) is not None:
                    extra.append(Fact(q - 1, "cond", f.text))
                elif self.prove(-q, rest, 2) is not None:
                    extra.append(Fact(-q - 1, "cond", f.text))
            facts = rest + extra
        if any(f.req is not None for f in facts):
            plain = [f for f in facts if f.req is None]
            facts = plain + [f for f in facts if f.req is not None and self.prove(f.req, plain, 2) is not None]
        lbs = self.single_bounds(facts)
        rel = [f for f in facts if not f.p.is_const()]
        seen = {}

        def go(q, d, used):
            if self.nonneg_by_lb(q, lbs):
                return used
            if d == 0:
                return None
            key = q.key()
            if seen.get(key, -1) >= d:
                return None
            seen[key] = d
            # back-substitution: eliminate the most recently created atom that makes q troublesome (an unknown / loop variable /
            # load is related by its facts to atoms created before it); the steps of a proof commute, so one order is enough
            target = first_trouble(q, self, lbs)
            if target is None:
                return None
            atom_, mono = target
            for f in rel:
                if atom_ is not None and atom_ not in f.p.atoms():
                    continue
                for m in multipliers(q, f.p, self, lbs, mono, atom_):
                    r = go(q - f.p * m, d - 1, used + [f])
                    if r is not None:
                        return r
            return None
        return go(p, depth, [])


def mono_div(m1, m2):
    """monomial m1 / m2 if m2 divides m1 (tuples of (atom, power)) else None"""
    d = dict(m1)
    for a, pw in m2:
        if d.get(a, 0) < pw:
            return None
        d[a] -= pw
        if d[a] == 0:
            del d[a]
    return tuple(sorted(d.items(), key=lambda x: akey(x[0])))


def atom_age(a):
    """creation index of an atom: fresh unknowns and loop variables carry one; a load / operator atom is as young as the youngest
    atom inside its key; plain symbols (parameters) are the oldest"""
    if isinstance(a, tuple):
        if a and a[0] in ("unk", "iv") and isinstance(a[-1], int):
            return a[-1]
        best = 0
        for x in a:
            if isinstance(x, tuple):
                best = max(best, atom_age(x))
        return best + 0.5 if best else 0.25
    return 0


def first_trouble(q, prover, lbs):
    """(atom, monomial): the youngest atom occurring in a troublesome monomial of q (negative coefficient, or an atom without
    lower bound) and one such monomial containing it; (None, ()) for a lone negative constant; None if nothing is troublesome"""
    best = None
    for mq, cq in q.t.items():
        if not mq:
            continue
        if cq < 0 or any(prover.atom_lb(a, lbs) is None for a, pw in mq):
            for a, pw in mq:
                k = (atom_age(a), repr(a), repr(mq))
                if best is None or k > best[0]:
                    best = (k, a, mq)
    if best is not None:
        return best[1], best[2]
    if q.const_value() < 0:
        return None, ()
    return None


def multipliers(q, f, prover, lbs, target="all", atom_=None):
    """candidate non-negative multipliers m (Poly) such that q - m*f cancels the troublesome monomial `target` of q through a
    monomial of f that contains `atom_` (() = a lone negative constant, cancelled by a fact with a negative constant)"""
    out = []
    seen = set()
    if target == ():
        cq0, cf0 = q.const_value(), f.const_value()
        if cq0 < 0 and cf0 < 0:
            for m in (Poly.const(1), Poly.const(Fraction(cq0) / Fraction(cf0))):
                if m.key() not in seen:
                    seen.add(m.key())
                    out.append(m)
        return out
    items = q.t.items() if target == "all" else [(target, q.t[target])]
    for mq, cq in items:
        if not mq:
            continue
        unbounded = any(prover.atom_lb(a, lbs) is None for a, pw in mq)
        if cq >= 0 and not unbounded:
            continue
        for mf, cf_ in f.t.items():
            if not mf or (cf_ > 0) != (cq > 0):
                continue
            if atom_ is not None and not any(a == atom_ for a, pw in mf):
                continue
            quo = mono_div(mq, mf)
            if quo is None:
                continue
            if any(prover.atom_lb(a, lbs) is None for a, pw in quo):
                continue
            coef = Fraction(cq) / Fraction(cf_)
            if coef <= 0:
                continue
            m = Poly({quo: coef})
            k = m.key()
            if k not in seen:
                seen.add(k)
                out.append(m)
    return out


def eliminate_ivs(p, ranges, prover, facts):
    """lower bound of p over the loop ranges (innermost first).  Returns (poly, ok).  A loop variable whose coefficient has
    no decidable sign is left in place (the range facts may still finish the proof)."""
    lbs = prover.single_bounds(facts)
    for ivatom, rng, name, _step in reversed(ranges):
        if ivatom not in p.atoms():
            continue
        if rng is None:
            continue
        if p.degree_in(ivatom) != 1:
            continue
        cf_ = p.coeff(ivatom, 1)
        rest = p.without(ivatom)
        if any(isinstance(a, tuple) and a[0] == "load" and ivatom in _atoms_of_key(a) for a in p.atoms()):
            continue
        if prover.nonneg_by_lb(cf_, lbs):
            p = rest + cf_ * rng[0]
        elif prover.nonneg_by_lb(-cf_, lbs):
            p = rest + cf_ * rng[1]
        else:
            continue
    return p


def _atoms_in_key(k):
    out = []

    def rec(x):
        if isinstance(x, tuple):
            if x and isinstance(x[0], str) and x[0] in ("iv", "unk", "load", "op", "div"):
                out.append(x)
            for y in x:
                rec(y)
    rec(k)
    return out


def _atoms_of_key(a):
    out = set()

    def rec(x):
        if isinstance(x, tuple):
            if len(x) == 3 and x[0] == "iv":
                out.add(x)
            for y in x:
                rec(y)
    rec(a)
    return out


# ---------------------------------------------------------------------------------------------------------------
def local_extent(var):
    """declared number of cells of a fixed-size array type 'double[3][3]' -> 9 ; else None"""
    ty = var.ty or ""
    if "(*)" in ty:
        return None
    ds = re.findall(r"\[(\d+)\]", ty)
    if not ds:
        return None
    n = 1
    for d in ds:
        n *= int(d)
    return n


def sample_violation(a, extent, prover, symbols, tries=((0,), (1,), (2,), (3,), (5,))):
    """for an affine access (no data-dependent atom in the index and no data-dependent condition on the path): look for
    admissible small values of the symbols and an iteration with index outside [0, extent) (extent None: below 0 only).
    Returns a witness dict or None."""
    if a.idx is None or atoms_datadep_noiv(a.idx) or (extent is not None and atoms_datadep_noiv(extent)):
        return None
    if a.length is None or atoms_datadep_noiv(a.length):
        return None
    facts = [f for f in a.facts]
    if any(atoms_datadep_noiv(f.p) for f in facts if f.origin == "cond"):
        return None
    usable = [f for f in facts if not atoms_datadep_noiv(f.p) and f.req is None]
    syms = sorted(set(x for x in list(a.idx.atoms()) + list(a.length.atoms()) + (list(extent.atoms()) if extent is not None else [])
                      + [y for f in usable for y in f.p.atoms()] + [y for iv_, rg, nm, st in a.ranges if rg for q in rg for y in q.atoms()]
                      if not isinstance(x, tuple)))
    ivs = [r for r in a.ranges]
    lbs = dict(prover.lower) if prover is not None else {}
    import itertools as it
    if len(syms) > 5:
        return None
    choices = []
    for sname in syms:
        lb = lbs.get(sname, 0)
        choices.append([lb + d for d in (0, 1, 2, 3)])
    for combo in it.product(*choices):
        env = dict(zip(syms, combo))

        def iters(k, cur):
            if k == len(ivs):
                yield dict(cur)
                return
            ivatom, rng, name, stp = ivs[k]
            if rng is None or stp is None:
                return
            try:
                lo = int(evalp(rng[0], cur))
                hi = int(evalp(rng[1], cur))
                st = abs(int(stp if isinstance(stp, int) else evalp(stp, cur)))
            except KeyError:
                return
            if st == 0:
                return
            vals_ = list(range(lo, hi + 1, st))
            if len(vals_) > 8:
                vals_ = vals_[:6] + vals_[-2:]
            for v in vals_:
                cur[ivatom] = v
                for z in iters(k + 1, cur):
                    yield z
            cur.pop(ivatom, None)
        for point in iters(0, dict(env)):
            bad = False
            for f in usable:
                try:
                    if evalp(f.p, point) < 0:
                        bad = True
                        break
                except KeyError:
                    continue
            if bad:
                continue
            try:
                i = evalp(a.idx, point)
                ln = evalp(a.length, point)
                ext = evalp(extent, point) if extent is not None else None
            except KeyError:
                continue
            if i < 0 or (ext is not None and i + ln > ext):
                return dict(symbols={k: v for k, v in env.items()}, iteration={n[2]: point[n[0]] for n in ivs if n[0] in point},
                            index=int(i), extent=(int(ext) if ext is not None else None))
    return None


def end_violation(a, extent, prover):
    """a.idx + a.length (one past the last cell touched) and the extent are polynomials in the function's arguments only, although
    a.idx itself is data dependent: look for admissible argument values with end > extent.  Only the facts that are connected to the
    atoms of (extent - end) through shared symbols are relevant; if one of those is data dependent nothing is decided (None)."""
    if a.idx is None or a.length is None or a.ranges and any(r[1] is None for r in a.ranges):
        return None
    end = a.idx + a.length
    gap = extent - end
    if atoms_datadep_noiv(gap) or any(isinstance(x, tuple) for x in gap.atoms()):
        return None
    if not gap.atoms():
        return None
    rel = set(gap.atoms())
    facts = list(a.facts)
    picked = []
    changed = True
    while changed:
        changed = False
        for f in facts:
            if f in picked:
                continue
            at = set(f.p.atoms())
            if at & rel:
                picked.append(f)
                rel |= set(x for x in at if not isinstance(x, tuple))
                changed = True
    if any(atoms_datadep_noiv(f.p) or any(isinstance(x, tuple) for x in f.p.atoms()) for f in picked):
        return None
    syms = sorted(rel)
    if len(syms) > 5:
        return None
    lbs = dict(prover.lower) if prover is not None else {}
    import itertools as it
    choices = [[lbs.get(sname, 0) + d for d in (0, 1, 2, 3)] for sname in syms]
    for combo in it.product(*choices):
        env = dict(zip(syms, combo))
        try:
            if any(evalp(f.p, env) < 0 for f in picked if f.req is None):
                continue
            if evalp(gap, env) < 0:
                return dict(symbols=env, end=int(evalp(end, env)) if not atoms_datadep_noiv(end) else None, extent=int(evalp(extent, env)))
        except KeyError:
            continue
    return None


def atoms_datadep_noiv(p):
    return [x for x in p.atoms() if isinstance(x, tuple) and x[0] != "iv"]


def guard_witness(a, extent, prover):
    """an input-dependent index whose every data value is tested by a dominating condition: treat those values as free integers and
    look for values that pass every dominating condition (and loop range) and still put the index outside [0, extent).  Such a
    witness shows that the validation the code itself performs is insufficient.  None when some data value of the index is not
    tested at all (then a documented precondition may be what bounds it), or when no witness is found."""
    if a.idx is None or a.length is None or extent is None:
        return None
    top = [x for x in a.idx.atoms() if isinstance(x, tuple) and x[0] != "iv"]
    if not top or any(x[0] != "load" for x in top):
        return None
    conds = [f for f in a.facts if f.origin == "cond"]
    for x in top:
        if not any(x in f.p.atoms() for f in conds):
            return None
    ivs = [r for r in a.ranges]
    ivatoms = set(r[0] for r in ivs)
    free = list(top)
    names = set()
    for p_ in [a.idx, a.length, extent] + [y for r in ivs if r[1] for y in r[1]]:
        for x in p_.atoms():
            if not isinstance(x, tuple):
                names.add(x)
            elif x not in ivatoms and x not in free:
                return None
    usable = []
    for f in a.facts:
        if f.req is not None:
            continue
        ats = f.p.atoms()
        if all((not isinstance(x, tuple)) or x in ivatoms or x in free for x in ats):
            usable.append(f)
            names |= set(x for x in ats if not isinstance(x, tuple))
    names = sorted(names)
    if len(names) > 4 or len(free) > 2:
        return None
    lbs = dict(prover.lower) if prover is not None else {}
    import itertools as it
    for combo in it.product(*[[lbs.get(n, 0) + d for d in (0, 1, 2)] for n in names]):
        env = dict(zip(names, combo))
        hi = 8
        try:
            hi = int(max(8, evalp(extent, env) + 3)) if all(not isinstance(x, tuple) for x in extent.atoms()) else 40
        except KeyError:
            hi = 40
        cand = sorted(set([-2, -1, 0, 1, 2, 3] + [hi - 3, hi - 2, hi - 1, hi] + [c for c in combo] + [c + 1 for c in combo] + [c - 1 for c in combo]))
        for vals in it.product(*[cand for _ in free]):
            pt0 = dict(env)
            pt0.update(dict(zip(free, vals)))

            def iters(k, cur):
                if k == len(ivs):
                    yield dict(cur)
                    return
                ivatom, rng, name, stp = ivs[k]
                if rng is None or stp is None:
                    return
                try:
                    lo, hi_ = int(evalp(rng[0], cur)), int(evalp(rng[1], cur))
                    st = abs(int(stp if isinstance(stp, int) else evalp(stp, cur)))
                except KeyError:
                    return
                if st == 0:
                    return
                vs = list(range(lo, hi_ + 1, st))
                if len(vs) > 6:
                    vs = vs[:3] + vs[-3:]
                for v in vs:
                    cur[ivatom] = v
                    for z in iters(k + 1, cur):
                        yield z
                cur.pop(ivatom, None)
            for point in iters(0, dict(pt0)):
                ok = True
                for f in usable:
                    try:
                        if evalp(f.p, point) < 0:
                            ok = False
                            break
                    except KeyError:
                        continue
                if not ok:
                    continue
                try:
                    i = evalp(a.idx, point)
                    ln = evalp(a.length, point)
                    ext = evalp(extent, point)
                except KeyError:
                    continue
                if i < 0 or i + ln > ext:
                    return dict(symbols=env, data={show_atom(x): int(v) for x, v in zip(free, vals)},
                                iteration={n[2]: int(point[n[0]]) for n in ivs if n[0] in point}, index=int(i), extent=int(ext))
    return None


def evalp(p, point):
    tot = Fraction(0)
    for mono, c in p.t.items():
        v = Fraction(c)
        for a, pw in mono:
            v *= Fraction(point[a]) ** pw
        tot += v
    return tot


# ---------------------------------------------------------------------------------------------------------------
# extents
class Extents(object):
    """where the number of cells of each array comes from: the .pyf dimension declarations for exported routines, the
    declared type for fixed-size locals, the allocation expression for malloc/calloc'd locals"""

    def __init__(self, pyf_fns, tus):
        self.fns = {k.lower(): v for k, v in pyf_fns.items()}
        self.tus = tus
        self.enums = {}
        for tu in tus.values():
            self.enums.update(getattr(tu, "enums", {}) or {})

    def exported(self, func):
        return func.name.lower() in self.fns

    def dim_symbols(self, func):
        """C parameter names that are array extents (pyf dimension symbols / hidden shape arguments): >= 0 by construction"""
        b = self.fns.get(func.name.lower())
        out = set()
        if b is None:
            return out
        args = b["args"]
        cmap = {a: func.params[i].name for i, a in enumerate(args) if i < len(func.params)}
        for a in args:
            v = b["vars"][a]
            for d in v.get("dimension") or []:
                for nm in re.findall(r"[A-Za-z_]\w*", str(d)):
                    if nm in cmap:
                        out.add(cmap[nm])
            init = str(v.get("=", ""))
            if init.startswith("shape(") or init.startswith("len(") or "shape(" in " ".join(v.get("check") or []):
                out.add(cmap[a])
        return out

    def param_extent(self, func, pname):
        """-> (Poly | None, description)"""
        b = self.fns.get(func.name.lower())
        if b is None:
            return None, "internal function: extent is the caller's business"
        args = b["args"]
        names = [p.name for p in func.params]
        if pname not in names:
            return None, "not a parameter"
        i = names.index(pname)
        if i >= len(args):
            return None, "no pyf formal at position %d" % i
        v = b["vars"][args[i]]
        dims = v.get("dimension")
        if not dims:
            # scalar passed by reference (intent(out) scalar): one cell
            return Poly.const(1), "pyf scalar '%s'" % args[i]
        cmap = {a: names[k] for k, a in enumerate(args) if k < len(names)}
        p = Poly.const(1)
        for d in dims:
            q = self.dim_poly(str(d), cmap, func, args[i])
            if q is None:
                return None, "pyf dimension '%s' of %s is assumed-size" % (d, args[i])
            p = p * q
        return p, "pyf %s(%s)" % (args[i], ",".join(str(d) for d in dims))

    def dim_poly(self, text, cmap, func, arg):
        import ast as pyast
        t = text.strip()
        if t in ("*", ":"):
            return None
        try:
            tree = pyast.parse(t, mode="eval").body
        except SyntaxError:
            return None

        def ev(n):
            if isinstance(n, pyast.Constant) and isinstance(n.value, int):
                return Poly.const(n.value)
            if isinstance(n, pyast.Name):
                nm = n.id
                if nm in cmap:
                    return Poly.atom(cmap[nm])
                for k, val in self.enums.items():
                    if k.lower() == nm.lower():
                        return Poly.const(val)
                raise KeyError(nm)
            if isinstance(n, pyast.BinOp) and isinstance(n.op, (pyast.Add, pyast.Sub, pyast.Mult)):
                a, b = ev(n.left), ev(n.right)
                return a + b if isinstance(n.op, pyast.Add) else (a - b if isinstance(n.op, pyast.Sub) else a * b)
            raise KeyError(pyast.dump(n))
        try:
            return ev(tree)
        except KeyError:
            return None


# ---------------------------------------------------------------------------------------------------------------
class Ledger(object):
    """classification of every access of one function"""

    def __init__(self, func, tus, ext, table=None, requirements=None, assume_pos=(), domain=None, trusted=None, sites=None, guarded=None):
        self.func = func
        self.tus = tus
        self.ext = ext
        self.table = table or {}
        self.req = requirements or {}        # callee name -> {param: [requirement Poly over callee params] | None}
        self.trusted = trusted or {}         # (function, pointer parameter) -> reason: self-describing structure, not ledgered
        self.sites = sites                   # None: discovery mode (reason table decides); dict site tuple -> {"n": count, "why": reason}
        self.sites3 = set(k[:3] for k in sites) if sites is not None else set()
        # input-dependent accesses that a dominating condition bounded on the confirmed tree -> the conditions (canonical text) that
        # mention the index there.  A regression is reported only when one of those conditions no longer dominates the access: when
        # they are all still there and the proof fails, the analyser lost something else (a value fact) - undecided
        self.guarded3 = guarded or {}
        self.site_use = collections.Counter()
        self.rows = []
        self.lower = []                      # internal functions: polynomials over scalar parameters that every call must keep >= 0
        unsigned = set()
        for p in func.params:
            if is_unsigned_ty((p.ty or "").replace("*", "").strip()):
                unsigned.add(p.name)
        self.prover = Prover(nonneg_atoms=ext.dim_symbols(func), pos_atoms=assume_pos, unsigned_arrays=unsigned, lower=domain)
        w = BWalk(func, tus)
        w.prover = self.prover
        self.walk = w.run()

    def extent_of(self, var):
        if var is None:
            return None, "unresolved base"
        name = var.name
        n = local_extent(var)
        is_param = any(p.name == name for p in self.func.params)
        if n is not None and not is_param:
            return Poly.const(n), "declared %s" % var.ty
        if name in self.walk.allocs and not is_param:
            e, text, line = self.walk.allocs[name]
            return e, "allocated by %s" % text
        if is_param:
            e, why = self.ext.param_extent(self.func, name)
            if e is None and n is not None:
                return Poly.const(n), "declared %s" % var.ty
            return e, why
        return None, "no extent known for '%s'" % name

    def in_table(self, a):
        """-> (reason | None, site id used).  Discovery mode (sites None): the human-readable reason table decides by plain
        key.  Check mode: a frozen site (function, array, access; alpha-renamed) is matched when every dominating condition
        that was recorded for it also dominates this access (more or stronger guards are fine, the statement text is free)."""
        if self.sites is None:
            k3 = a.plain_key()
            if k3 not in self.table:
                return None, None
            return self.table[k3], a.key()
        k3 = a.key()
        # first among the conditions that concern the index itself (what the site was recorded with), then among all dominating ones
        for have in (set(a.relevant_conds()), set(a.cond_texts())):
            best = None
            for sid, row in self.sites.items():
                if sid[:3] != k3:
                    continue
                need = set(sid[3])
                if need <= have and (best is None or len(need) > len(best[0][3])):
                    best = (sid, row)
            if best is not None:
                return best[1]["why"], best[0]
        return None, None

    def confirmed_guarded_site(self, a):
        """is there a confirmed precondition site for this access whose own recorded conditions mention the access' variables?
        (then a differently guarded occurrence is a reworded site: cannot decide; otherwise a guard that constrains the index
        without implying the bound is a defect of that guard)"""
        if self.sites is None:
            return a.plain_key() in self.table
        for sid in self.sites:
            if sid[:3] == a.key() and sid[3]:
                return True
        return False

    def unchecked_input_index(self, a):
        """classical unchecked-input rule, with positive evidence only: exported function, the index is built from elements of its
        own array parameters (and nothing unknown), no dominating condition mentions any of them, and the ledger has no confirmed
        precondition site on this array in this function (otherwise the site may just be re-spelt: undecided)"""
        if not self.ext.exported(self.func) or a.idx is None:
            return False
        top = [x for x in a.idx.atoms() if isinstance(x, tuple) and x[0] != "iv"]
        pnames = set(p.name for p in self.func.params)
        if not top or any(not (x[0] == "load" and len(x) == 4 and x[1] in pnames) for x in top):
            return False
        if any(isinstance(y, tuple) and y[0] in ("unk",) for x in top for y in _atoms_in_key(x[2])):
            return False
        if any(f.origin == "cond" and any(x in f.p.atoms() for x in top) for f in a.facts):
            return False
        arr = a.canon_parts()[0]
        if any(sid[0] == self.func.name and sid[1] == arr for sid in (self.sites or {})):
            return False
        return True

    def row_elsewhere(self, a):
        """is there a confirmed precondition row for this (function, array, access) at another statement?"""
        if self.sites is None:
            return a.plain_key() in self.table
        return a.key() in self.sites3

    def decide(self, a):
        key = a.show_key()
        ext, src = self.extent_of(a.var)
        row = dict(acc=a, key=key, extent=ext, extent_src=src, cls=None, why="", used=[], site=None)
        if (self.func.name, a.arr) in self.trusted and a.kind == "elem":
            row["cls"], row["why"] = "PRECONDITION", self.trusted[(self.func.name, a.arr)]
            return row
        if a.idx is None or a.length is None:
            reason, site = self.in_table(a)
            row["cls"] = "PRECONDITION" if reason else "UNDECIDED"
            row["why"] = reason or "index expression not representable"
            row["site"] = site
            if site:
                self.site_use[site] += 1
            return row
        facts = a.facts
        lo_ok = self.try_prove(a.idx, a, facts)
        hi_ok = None
        if ext is not None:
            hi_ok = self.try_prove(ext - a.idx - a.length, a, facts)
        if lo_ok is not None and hi_ok is not None:
            used = lo_ok + hi_ok
            row["used"] = used
            row["cls"] = "GUARDED" if any(f.origin == "cond" for f in used) else "PROVEN"
            return row
        reason, site = self.in_table(a)
        if reason:
            row["cls"], row["why"], row["site"] = "PRECONDITION", reason, site
            self.site_use[site] += 1
            return row
        if ext is None and not self.ext.exported(self.func) and any(p.name == a.arr for p in self.func.params):
            if lo_ok is not None:
                row["cls"] = "CALLER"
                row["why"] = "upper bound is checked at every call site against the requirement summary"
                return row
            # lower end too: when the smallest index is a polynomial in the function's own scalar parameters, 'that polynomial >= 0'
            # becomes an obligation of every call site
            q = eliminate_ivs(a.idx, a.ranges, self.prover, a.facts)
            scal = set(p.name for p in self.func.params if not ("*" in (p.ty or "") or "[" in (p.ty or "")))
            if q is not None and all((not isinstance(x, tuple)) and x in scal for x in q.atoms()):
                if not any(q.key() == q2.key() for q2, t2 in self.lower):
                    self.lower.append((q, "%s >= 0 (%s)" % (show_poly(q), a.text)))
                row["cls"] = "CALLER"
                row["why"] = "both ends are checked at every call site (index >= 0 as the obligation %s >= 0)" % show_poly(q)
                return row
        side = []
        if lo_ok is None:
            side.append("index >= 0")
        if hi_ok is None:
            side.append("index < extent (%s)" % (src if ext is None else "%s, %s" % (show_poly(ext), src)))
        dd = atoms_datadep_noiv(a.idx)
        if dd and hi_ok is None and ext is not None and self.sites is not None:
            # the upper end of a block (memset / memcpy region) can be free of run-time data although its start is not:
            # &k[n] for (m - n) cells ends at m.  Then 'end <= extent' is a statement about the arguments alone
            w = end_violation(a, ext, self.prover)
            if w is not None:
                row["cls"] = "VIOLATION"
                row["why"] = ("the block ends at cell %s whatever the run-time data, and the array has %s cells (%s): out of bounds for admissible "
                              "arguments %s" % (show_poly(a.idx + a.length), show_poly(ext), src, w))
                row["witness"] = w
                return row
        if dd:
            shown_dd = ", ".join(sorted(set(show_atom(x) for x in dd)))[:160]
            if self.sites is None:
                # discovery mode (reference tree, no frozen ledger yet): everything unprovable is listed for reading
                row["cls"] = "UNDECIDED" if a.plain_key() in self.table else "VIOLATION"
                row["why"] = "the index depends on run-time data (%s): cannot show %s" % (shown_dd, " and ".join(side))
            elif a.key() in self.guarded3 and (not isinstance(self.guarded3, dict) or
                                               any(c not in set(a.cond_texts()) for c in self.guarded3[a.key()]) or not self.guarded3[a.key()]):
                # positive evidence: on the confirmed tree this very access (same array, same index polynomial) was bounded by a
                # dominating condition; the conditions that dominate it now no longer imply the bound
                guarded = sorted(set(f.text for f in facts if f.origin == "cond" and any(x in f.p.atoms() for x in dd)))[:3]
                row["cls"] = "VIOLATION"
                row["why"] = ("this input-dependent index (%s) was bounded by a dominating condition on the confirmed tree; the conditions that "
                              "dominate it now (%s) do not imply %s" % (shown_dd, guarded or "none mentions it", " and ".join(side)))
            elif self.row_elsewhere(a):
                row["cls"] = "UNDECIDED"
                row["why"] = ("a precondition row exists for this index expression but not under these conditions (or more accesses use it than "
                              "were confirmed): the ledger needs review; cannot show %s" % " and ".join(side))
            else:
                pnames_ = set(p_.name for p_ in self.func.params)
                input_only = self.ext.exported(self.func) and all(
                    x[0] == "load" and len(x) == 4 and x[1] in pnames_ for x in a.idx.atoms() if isinstance(x, tuple) and x[0] != "iv")
                w = guard_witness(a, ext, self.prover) if input_only else None
                if w is not None:
                    # positive evidence: values that pass every test the code applies to them and still index outside the array
                    row["cls"] = "VIOLATION"
                    row["why"] = "the conditions that test this input-dependent index let through values that are out of bounds: %s" % w
                    row["witness"] = w
                elif self.unchecked_input_index(a):
                    row["cls"] = "VIOLATION"
                    row["why"] = ("an element of an input array (%s) is used as an index with no test at all, in a function that has no documented "
                                  "precondition on this array: cannot show %s" % (shown_dd, " and ".join(side)))
                else:
                    row["cls"] = "UNDECIDED"
                    row["why"] = ("the index depends on run-time data (%s) and neither a dominating condition nor a confirmed precondition bounds it: "
                                  "cannot show %s" % (shown_dd, " and ".join(side)))
            return row
        w = sample_violation(a, ext, self.prover, None)
        if w is not None:
            row["cls"] = "VIOLATION"
            row["why"] = "out of bounds for admissible extents: %s" % w
            row["witness"] = w
            return row
        row["cls"] = "UNDECIDED"
        row["why"] = "cannot show %s" % " and ".join(side)
        return row

    def try_prove(self, p, a, facts):
        q = eliminate_ivs(p, a.ranges, self.prover, facts)
        r = self.prover.prove(q, facts)
        if r is None and q is not p:
            r = self.prover.prove(p, facts)
        return r

    def run(self):
        for a in self.walk.out:
            self.rows.append(self.decide(a))
        self.call_rows()
        return self

    # ------------------------------------------------------------------ interprocedural part
    def requirement_summary(self):
        """for an internal function: per pointer parameter the list of polynomials (over the function's own scalar
        parameters) that the caller's array must at least have as number of cells; None when some access of that
        parameter has an upper end the analyser cannot express (then the parameter must be covered by the table)"""
        out = {}
        pnames = [p.name for p in self.func.params]
        for r in self.rows:
            a = r["acc"]
            if a.arr not in pnames or a.var is None:
                continue
            if not ("*" in (a.var.ty or "") or "[" in (a.var.ty or "")):
                continue
            lst = out.setdefault(a.arr, [])
            if lst is None:
                continue
            if r["cls"] == "PRECONDITION":
                continue
            if a.idx is None:
                out[a.arr] = None
                continue
            # upper end: maximise idx  ==  minimise -idx
            u = -eliminate_ivs(-(a.idx + a.length), a.ranges, self.prover, a.facts)
            if any(isinstance(x, tuple) for x in u.atoms()) or any(x not in pnames for x in u.atoms()):
                out[a.arr] = None
                continue
            if not any(u.key() == q.key() for q, t in lst):
                lst.append((u, "%s cells (%s)" % (show_poly(u), a.text)))
        for k, lst in out.items():
            if not lst:
                continue
            keep = []
            for u, t in lst:
                if any(u is not u2 and u.key() != u2.key() and self.prover.nonneg_by_lb(u2 - u, {}) for u2, t2 in lst):
                    continue
                keep.append((u, t))
            out[k] = keep or lst[:1]
        return out

    def arg_region(self, e, env):
        """actual pointer argument -> (base var E, offset Poly) or (None, None)"""
        x = e
        while x.k == "cast":
            x = x.a[0]
        if x.k == "var":
            return x, Poly.const(0)
        if x.k == "un" and x.op == "&":
            y = x.a[0]
            if y.k == "var":
                return y, Poly.const(0)
            v, idx = self.walk.flat_index(y, env)
            return v, idx
        if x.k == "bin" and x.op == "+" and x.a[0].k in ("var", "cast"):
            b = cfront.base_var(x.a[0])
            off = self.walk.form(x.a[1], env)
            return b, off
        if x.k == "idx":
            # a row of a 2-D array:  A[i]  passed as pointer
            v, idx = self.walk.flat_index(x, env)
            return v, idx
        return None, None

    def call_rows(self):
        for call, env, ranges, facts in self.walk.call_sites:
            if call.name in ("memset", "memcpy", "memmove") and len(call.a) == 3:
                # a block write / copy touches count = nbytes / sizeof(element) cells from the pointer on
                count = self.walk.alloc_extent(call, env)
                for i in ((0,) if call.name == "memset" else (0, 1)):
                    v, off = self.arg_region(call.a[i], env)
                    a = Acc()
                    a.canon = self.walk.canon
                    a.func, a.var = self.func.name, v
                    a.arr = v.name if v is not None else "?"
                    a.text = "%s(%s, %s)" % (call.name, estr(call.a[i]), estr(call.a[2]))
                    a.rw, a.line, a.ranges, a.facts = ("w" if i == 0 else "r"), call.line, ranges, facts
                    a.stmt, a.kind, a.callee, a.cparam = estr(call), "region", call.name, "arg%d" % i
                    a.idx, a.length = off, count
                    if v is None or off is None or count is None:
                        row = dict(acc=a, key=a.show_key(), extent=None, extent_src="", used=[], site=None)
                        reason, site = self.in_table(a)
                        if reason:
                            row["cls"], row["why"], row["site"] = "PRECONDITION", reason, site
                            self.site_use[site] += 1
                        else:
                            row["cls"], row["why"] = "UNDECIDED", "the block size of %s is not of the form count * sizeof(element)" % call.name
                        self.rows.append(row)
                    else:
                        self.rows.append(self.decide(a))
                continue
            info = self.req.get(call.name)
            if info is None:
                continue
            params = info["params"]
            sub = {}
            for i, pn in enumerate(params):
                if i < len(call.a) and not info["is_ptr"][i]:
                    f = self.walk.form(call.a[i], env)
                    if f is not None:
                        sub[pn] = f
            # callee's documented domain
            for pn, lb in (info.get("domain") or {}).items():
                a = Acc()
                a.canon = self.walk.canon
                a.func, a.arr, a.var, a.text, a.rw, a.line = self.func.name, "(domain)", None, "%s(... %s ...)" % (call.name, pn), "r", call.line
                a.ranges, a.facts, a.stmt, a.length, a.kind, a.callee, a.cparam = ranges, facts, estr(call), Poly.const(1), "domain", call.name, pn
                a.idx = None
                row = dict(acc=a, key=a.show_key(), extent=None, extent_src="", cls=None, why="", used=[], site=None)
                if pn in sub:
                    ok = self.try_prove(sub[pn] - lb, a, facts)
                    row["cls"] = "PROVEN" if ok is not None and not any(f.origin == "cond" for f in ok) else ("GUARDED" if ok is not None else None)
                if row["cls"] is None:
                    reason, site = self.in_table(a)
                    if reason:
                        row["cls"], row["why"], row["site"] = "PRECONDITION", reason, site
                        self.site_use[site] += 1
                    else:
                        row["cls"] = "UNDECIDED"
                        row["why"] = "cannot show that argument %s of %s is >= %d as the callee assumes" % (pn, call.name, lb)
                self.rows.append(row)
            for q, qtext in info.get("lower") or []:
                a = Acc()
                a.canon = self.walk.canon
                a.func, a.arr, a.var, a.text, a.rw, a.line = self.func.name, "(lower)", None, "%s(...) needs %s" % (call.name, qtext), "r", call.line
                a.ranges, a.facts, a.stmt, a.length, a.kind, a.callee, a.cparam = ranges, facts, estr(call), Poly.const(1), "domain", call.name, qtext
                a.idx = None
                row = dict(acc=a, key=a.show_key(), extent=None, extent_src="", cls=None, why="", used=[], site=None)
                if all(x in sub for x in q.atoms()):
                    qs = q.subs({k: v2 for k, v2 in sub.items()})
                    ok = self.try_prove(qs, a, facts)
                    if ok is not None:
                        row["cls"] = "GUARDED" if any(f.origin == "cond" for f in ok) else "PROVEN"
                        row["used"] = ok
                if row["cls"] is None:
                    reason, site = self.in_table(a)
                    if reason:
                        row["cls"], row["why"], row["site"] = "PRECONDITION", reason, site
                        self.site_use[site] += 1
                    else:
                        row["cls"] = "UNDECIDED"
                        row["why"] = "cannot show %s for the arguments of this call, as the callee's subscripts assume" % qtext
                        if all(x in sub for x in q.atoms()):
                            a.idx = q.subs({k: v2 for k, v2 in sub.items()})
                            w = sample_violation(a, None, self.prover, None)
                            a.idx = None
                            if w is not None:
                                row["cls"] = "VIOLATION"
                                row["why"] = "the callee subscripts with %s, which is negative for admissible values: %s" % (qtext.split(" >= ")[0], w)
                                row["witness"] = w
                self.rows.append(row)
            for i, pn in enumerate(params):
                if not info["is_ptr"][i] or i >= len(call.a):
                    continue
                reqs = info["req"].get(pn, [])
                v, off = self.arg_region(call.a[i], env)
                arg = call.a[i]
                while arg.k == "cast":
                    arg = arg.a[0]
                if (call.name, pn) in self.trusted or (arg.k == "un" and arg.op == "&" and arg.a[0].k == "var"):
                    a = Acc()
                    a.canon = self.walk.canon
                    a.func, a.var, a.arr = self.func.name, v, (v.name if v is not None else "?")
                    a.text = "%s(%s) as %s" % (call.name, estr(call.a[i]), pn)
                    a.rw, a.line, a.ranges, a.facts = "r", call.line, ranges, facts
                    a.stmt, a.kind, a.callee, a.cparam, a.idx, a.length = estr(call), "region", call.name, pn, off, None
                    row = dict(acc=a, key=a.show_key(), extent=None, extent_src="", used=[], site=None)
                    if (call.name, pn) in self.trusted:
                        row["cls"], row["why"] = "PRECONDITION", self.trusted[(call.name, pn)]
                    else:
                        ok = reqs is not None and all(q.is_const() and q.const_value() <= 1 for q, t in reqs)
                        row["cls"] = "PROVEN" if ok else "UNDECIDED"
                        row["why"] = "address of a variable: one cell" if ok else "the callee indexes a variable passed by address beyond its single cell"
                    self.rows.append(row)
                    continue
                if reqs is None:
                    reqs = [(None, "?")]
                for q, qtext in reqs:
                    a = Acc()
                    a.canon = self.walk.canon
                    a.func, a.var = self.func.name, v
                    a.arr = v.name if v is not None else "?"
                    a.text = "%s(%s) needs %s" % (call.name, estr(call.a[i]), qtext)
                    a.rw, a.line, a.ranges, a.facts = "r", call.line, ranges, facts
                    a.stmt, a.kind, a.callee, a.cparam = estr(call), "region", call.name, pn
                    a.idx = off
                    a.length = q.subs({k: v2 for k, v2 in sub.items()}) if q is not None else None
                    if q is not None and any(x in params and x not in sub for x in a.length.atoms()):
                        a.length = None
                    if a.length is None or v is None or off is None:
                        row = dict(acc=a, key=a.show_key(), extent=None, extent_src="", used=[], site=None)
                        reason, site = self.in_table(a)
                        if reason:
                            row["cls"], row["why"], row["site"] = "PRECONDITION", reason, site
                            self.site_use[site] += 1
                        elif v is not None and not (("*" in (v.ty or "")) or ("[" in (v.ty or ""))):
                            # address of a scalar: one cell
                            row["cls"], row["why"] = "PROVEN", "address of a scalar"
                            if q is not None and not (q.is_const() and q.const_value() <= 1):
                                row["cls"], row["why"] = "UNDECIDED", "callee indexes a scalar passed by address"
                        else:
                            row["cls"] = "UNDECIDED"
                            row["why"] = "the callee's need for parameter %s is not expressible; list the call in the table" % pn
                        self.rows.append(row)
                        continue
                    self.rows.append(self.decide(a))


def show_atom(x):
    if isinstance(x, tuple):
        if x[0] == "load":
            return "%s[..]" % x[1]
        if x[0] == "unk":
            return "<%s?>" % (x[1],)
        if x[0] == "iv":
            return str(x[1])
        return "<%s>" % str(x[0])
    return str(x)


def show_poly(p):
    if p is None:
        return "?"
    terms = []
    for mono, c in sorted(p.t.items(), key=lambda kv: (len(kv[0]), repr(kv[0]))):
        m = "*".join(show_atom(a) if pw == 1 else "%s^%d" % (show_atom(a), pw) for a, pw in mono)
        c = Fraction(c)
        cs = str(c.numerator) if c.denominator == 1 else str(c)
        if not m:
            terms.append(cs)
        elif c == 1:
            terms.append(m)
        elif c == -1:
            terms.append("-" + m)
        else:
            terms.append("%s*%s" % (cs, m))
    return " + ".join(terms).replace("+ -", "- ") if terms else "0"


def run_all(tus, ext, table=None, domains=None, funcs=None, trusted=None, sites=None, guarded=None):
    """ledgers for all functions, callees of internal functions first so that their requirement summaries exist when the
    callers are analysed.  domains: function name -> {scalar parameter: lower bound}"""
    table = table or {}
    domains = domains or {}
    allf = list(cfront.all_funcs(tus))
    byname = {f.name: f for f in allf}
    internal = [f for f in allf if not ext.exported(f)]
    calls = {}
    for f in allf:
        calls[f.name] = set(x.name for st, e in cfront.all_exprs(f.body) for x in ewalk(e)
                            if x.k == "call" and x.name in byname and x.name != f.name)    # direct self recursion: no summary, table
    order = []
    seen = set()

    def visit(n, stack=()):
        if n in seen:
            return
        if n in stack:
            raise AnalysisError("recursive call chain through %s: requirement summaries not supported" % n)
        for c in sorted(calls[n]):
            visit(c, stack + (n,))
        seen.add(n)
        order.append(n)
    for f in allf:
        visit(f.name)
    req = {}
    out = {}
    for n in order:
        f = byname[n]
        if funcs is not None and n not in funcs and ext.exported(f):
            continue
        L = Ledger(f, tus, ext, table=table, requirements=req, domain=domains.get(n), trusted=trusted, sites=sites, guarded=guarded)
        L.run()
        out[n] = L
        if not ext.exported(f):
            req[n] = dict(params=[p.name for p in f.params],
                          is_ptr=[("*" in (p.ty or "")) or ("[" in (p.ty or "")) for p in f.params],
                          req=L.requirement_summary(), domain=domains.get(n) or {}, lower=list(L.lower))
    # context-sensitive second pass: an internal helper whose accesses cannot be decided on their own (its index comes from data or
    # extents that only its callers know), or whose summary / return value leaves rows of a caller undecided, is analysed inside
    # that caller with its body in place of the call.  The result replaces the caller's ledger only when it is strictly better;
    # when every call site of a helper was treated like that, the helper's own undecided rows are answered by its callers.
    def undecided(L):
        return sum(1 for r in L.rows if r["cls"] == "UNDECIDED")

    def can_inline(g):
        return g in byname and not ext.exported(byname[g]) and cfront.inlinable(byname[g]) is None
    inlined_everywhere = collections.defaultdict(lambda: True)
    ncallers = collections.Counter()
    for _round in range(2):
        weak = set(n for n, L in out.items() if can_inline(n) and undecided(L))
        changed = False
        for n in order:
            if n not in out:
                continue
            f = byname[n]
            L = out[n]
            base_inl = set(getattr(L, "inlined", None) or [])
            c_weak = set(g for g in calls[n] if g in weak)
            c_rows, c_val = set(), set()
            if undecided(L):
                c_rows = set(r["acc"].callee for r in L.rows if r["cls"] == "UNDECIDED" and can_inline(getattr(r["acc"], "callee", None)))
                # helpers whose return value feeds an index ( p = address_of(i, j) )
                for st, x in cfront.all_exprs(f.body):
                    if x.k == "asg" and x.a[1] is not None:
                        rc = x.a[1]
                        while rc.k == "cast":
                            rc = rc.a[0]
                        if rc.k == "call" and can_inline(rc.name) and cfront.pure_function(byname[rc.name]):
                            c_val.add(rc.name)
            tried = []
            for cands in (c_val, c_weak, c_val | c_weak, c_rows, c_val | c_weak | c_rows):
                cands = set(g for g in cands if g and can_inline(g) and g != n) | base_inl
                if not cands or cands == base_inl or cands in tried:
                    continue
                tried.append(cands)
                nf, done, kept = cfront.inline_calls(f, byname, which=cands, depth=3)
                if not done:
                    continue
                L2 = Ledger(nf, tus, ext, table=table, requirements=req, domain=domains.get(n), trusted=trusted, sites=sites, guarded=guarded)
                L2.run()
                if undecided(L2) < undecided(L) or (undecided(L2) == 0 and any(g in weak for g in done) and not set(done) <= base_inl):
                    L2.inlined = sorted(done)
                    out[n] = L2
                    L = L2
                    base_inl = set(done)
                    changed = True
                    if undecided(L2) == 0:
                        break
        if not changed:
            break
    for g, Lg in out.items():
        if not (can_inline(g) and undecided(Lg)):
            continue
        callers = [n for n in out if g in calls.get(n, ())]
        if callers and all(g in (getattr(out[n], "inlined", None) or []) for n in callers):
            for r in Lg.rows:
                if r["cls"] == "UNDECIDED":
                    r["cls"] = "CONTEXT"
                    r["why"] = "decided inside each of its %d caller(s), with this function's body in place of the call" % len(callers)
    return out
