"""vn_c: symbolic execution of C kernels' straight-line arithmetic in the value-numbering domain.

Constant-trip loops are unrolled; a data loop's body is executed once for a symbolic induction value;
symbolic branches fork into paths (few in these kernels).  Unknown constructs raise Unsupported (exit 2)."""
import math
from fractions import Fraction as Fr

from . import cfront, vn
from .cfront import estr
from .crules import is_rnd
from .definit import canon_header, dims_of
from .omp import inner_dims
from .poly import Rat
from .report import AnalysisError


class Unsupported(AnalysisError):
    pass


MATH1 = {"sin": "sin", "cos": "cos", "sqrt": "sqrt", "fabs": "abs", "fabsf": "abs", "floor": "floor", "floorf": "floor",
         "acos": "acos", "asin": "asin", "atan": "atan", "tan": "tan", "sinf": "sin", "cosf": "cos", "sqrtf": "sqrt",
         "exp": "exp", "log": "log"}


class State(object):
    def __init__(self):
        self.v = {}        # scalar name -> Rat
        self.arr = {}      # local array name -> {cell tuple: Rat}
        self.out = {}      # param array name -> {index tuple: Rat}   (stores)
        self.conds = []    # (op, lhs Rat, rhs Rat, polarity, text, line)
        self.ret = None
        self.done = False
        self.flow = None      # None | "continue" | "break"
        self.ptr = {}      # walking local pointer name -> (base array name, concrete flat offset)

    def copy(self):
        s = State()
        s.v = dict(self.v)
        s.arr = {k: dict(v) for k, v in self.arr.items()}
        s.out = {k: dict(v) for k, v in self.out.items()}
        s.conds = list(self.conds)
        s.ret = self.ret
        s.done = self.done
        s.flow = self.flow
        s.ptr = dict(self.ptr)
        return s


class CSym(object):
    def __init__(self, func, tus, models=None, symbolic_loops=None, max_paths=64, inputs=None):
        """symbolic_loops: dict loop line or iv name -> symbolic name to use for the iv (body executed once).
        inputs: dict name -> Rat or callable(idx tuple)->Rat overriding the default atoms for parameters."""
        self.models = models or {}
        # statement-level calls of other functions of the sources (helpers the code was split into) are read with the helper's body in
        # place; functions with a model stay calls
        try:
            byname = {g.name: g for g in cfront.all_funcs(tus)} if tus else {}
            which = set(n for n in byname if n not in self.models and n != func.name)
            called = set(x.name for st, x in cfront.all_exprs(func.body) if x.k == "call")
            if called & which:
                func, _done, _kept = cfront.inline_calls(func, byname, which=which, depth=3)
        except AnalysisError:
            raise
        self.f = func
        self.tus = tus
        self.symloops = symbolic_loops or {}
        self.max_paths = max_paths
        self.inputs = inputs or {}
        self.boolvals = {}
        self.dims = {}
        for d, v in func.locals.items():
            dm = dims_of(v.ty)
            if dm is not None:
                self.dims[v.name] = dm
        self.pdims = {p.name: inner_dims(p.ty) for p in func.params if p.ty and ("*" in p.ty or "[" in p.ty)}
        self.params = {p.name: p for p in func.params}
        self.branch_log = []
        # local pointers bound once to a row / an element address of another array:  g = gv[k]; ... g[i]  reads as gv[k][i]
        self.pdefs = {n: v for n, v in cfront.scalar_defs(func).items()
                      if n in {x.name for x in func.locals.values() if x.ty and "*" in x.ty}}
        self.walkers = {x.name for x in func.locals.values() if x.ty and "*" in x.ty and x.name not in self.pdefs}

    # ------------------------------------------------------------------ entry points
    def run(self, stmt=None, state=None):
        st = state or State()
        paths = self.exec(stmt if stmt is not None else self.f.body, [st])
        return paths

    # ------------------------------------------------------------------ statements
    def exec(self, s, states):
        if s is None:
            return states
        out = []
        live = [x for x in states if not x.done and x.flow is None]
        dead = [x for x in states if x.done or x.flow is not None]
        if not live:
            return states
        k = s.k
        if k in ("block", "multi"):
            cur = live
            for x in s.body:
                cur = self.exec(x, cur)
            return dead + cur
        if k == "decl":
            for st in live:
                name = s.var.name
                if name in self.dims:
                    st.arr[name] = {}
                    if s.init is not None:
                        if s.init.k != "init":
                            raise Unsupported("array initialiser at %s:%s" % (self.f.file, s.line))
                        # C semantics: cells without an initialiser are zero ( double R[3][3] = {{0.}}; )
                        dims = self.dims[name]
                        ncell = 1
                        for d in dims:
                            ncell *= d
                        for i in range(ncell):
                            st.arr[name][self._cell(name, i)] = vn.const(0)

                        def fill(init, level, base):
                            stride = 1
                            for d in dims[level + 1:]:
                                stride *= d
                            pos = base
                            for x in init.a:
                                if x.k == "init" and level + 1 < len(dims):
                                    pos = (pos - base + stride - 1) // stride * stride + base if (pos - base) % stride else pos
                                    fill(x, level + 1, pos)
                                    pos += stride
                                elif x.k == "init":
                                    fill(x, level, pos)
                                    pos += 1
                                else:
                                    if pos < ncell:
                                        st.arr[name][self._cell(name, pos)] = self.ev(x, st)
                                    pos += 1
                        fill(s.init, 0, 0)
                elif s.init is not None and name in self.pdefs:
                    pass      # a row / element pointer: its uses are read through the array it points into
                elif s.init is not None and name in self.walkers:
                    st.ptr[name] = self.ptr_value(s.init, st)
                elif s.init is not None:
                    st.v[name] = self.ev(s.init, st)
                else:
                    st.v.pop(name, None)
            return dead + live
        if k == "expr":
            for st in live:
                self.ev(s.e, st)
            return dead + live
        if k == "null":
            return states
        if k == "return":
            for st in live:
                st.ret = self.ev(s.e, st) if s.e is not None else None
                st.done = True
            return dead + live
        if k == "if":
            res = []
            for st in live:
                c = self.cond(s.cond, st)
                if not isinstance(c, bool):
                    d = decide(c, st)
                    if d is not None:
                        c = d
                if c is True:
                    res += self.exec(s.then, [st])
                elif c is False:
                    res += self.exec(s.els, [st]) if s.els is not None else [st]
                else:
                    a = st.copy()
                    b = st
                    for cc in flatten_true(c):
                        a.conds.append(cc + (True, estr(s.cond), s.line))
                    b.conds.append(c + (False, estr(s.cond), s.line))
                    res += self.exec(s.then, [a])
                    res += self.exec(s.els, [b]) if s.els is not None else [b]
                    if len(res) + len(dead) > self.max_paths:
                        raise Unsupported("path explosion in %s" % self.f.name)
            return dead + res
        if k == "for":
            return dead + self.loop(s, live)
        if k == "omp":
            return dead + self.exec(s.body, live)
        if k in ("while", "do"):
            raise Unsupported("%s loop at %s:%s is outside the value-numbering domain" % (k, self.f.file, s.line))
        if k in ("break", "continue"):
            for st in live:
                st.flow = k
            return dead + live
        if k in ("goto", "label"):
            raise Unsupported("%s at %s:%s in value-numbered code" % (k, self.f.file, s.line))
        raise Unsupported("statement %s" % k)

    def loop(self, s, states):
        hdr = canon_header(s)
        if hdr is None:
            raise Unsupported("loop header at %s:%s" % (self.f.file, s.line))
        iv, start, bound, step = hdr
        res = []
        for st in states:
            b = self.ev(bound, st)
            s0 = vn.const(start) if isinstance(start, int) else self.ev(start, st)
            if b.is_const() and s0.is_const() and isinstance(step, int):
                lo, hi = int(s0.const_value()), int(b.const_value())
                cur = [st]
                if hi - lo > 64:
                    raise Unsupported("loop with %d iterations not unrolled" % (hi - lo))
                broke = []
                for i in range(lo, hi, step):
                    for x in cur:
                        x.v[iv] = vn.const(i)
                    cur = self.exec(s.body, cur)
                    for x in cur:
                        if x.flow == "continue":
                            x.flow = None
                    broke += [x for x in cur if x.flow == "break"]
                    cur = [x for x in cur if x.flow != "break"]
                for x in broke:
                    x.flow = None
                for x in cur:
                    x.v[iv] = vn.const(max(lo, hi))
                res += cur + broke
            else:
                nm = self.symloops.get(iv) or self.symloops.get(s.line)
                if nm is None:
                    raise Unsupported("data loop over '%s' at %s:%s needs a symbolic induction name" % (iv, self.f.file, s.line))
                st.v[iv] = vn.atom(nm)
                body = self.exec(s.body, [st])
                for x in body:
                    x.flow = None
                res += body
        return res

    def _flat_init(self, e):
        out = []
        for x in e.a:
            if x.k == "init":
                out += self._flat_init(x)
            else:
                out.append(x)
        return out

    def _cell(self, name, flat):
        dims = self.dims[name]
        idx = []
        for d in reversed(dims):
            idx.append(flat % d)
            flat //= d
        return tuple(reversed(idx))

    # ------------------------------------------------------------------ conditions
    def cond(self, e, st):
        """-> True / False / (op, lhs Rat, rhs Rat)"""
        if e.k == "bin" and e.op in ("<", ">", "<=", ">=", "==", "!="):
            a, b = self.ev(e.a[0], st), self.ev(e.a[1], st)
            if a.is_const() and b.is_const():
                x, y = a.const_value(), b.const_value()
                return {"<": x < y, ">": x > y, "<=": x <= y, ">=": x >= y, "==": x == y, "!=": x != y}[e.op]
            op = e.op
            if op in (">", ">="):
                a, b = b, a
                op = {">": "<", ">=": "<="}[op]
            return (op, a, b)
        if e.k == "bin" and e.op == "&&":
            l = self.cond(e.a[0], st)
            if l is False:
                return False
            r = self.cond(e.a[1], st)
            if l is True:
                return r
            if r is True:
                return l
            if r is False:
                return False
            return ("and", l, r)
        if e.k == "bin" and e.op == "||":
            l = self.cond(e.a[0], st)
            if l is True:
                return True
            r = self.cond(e.a[1], st)
            if l is False:
                return r
            if r is False:
                return l
            if r is True:
                return True
            return ("or", l, r)
        if e.k == "un" and e.op == "!":
            c = self.cond(e.a[0], st)
            if isinstance(c, bool):
                return not c
            return ("not", c, None)
        v = self.ev(e, st)
        if v.is_const():
            return v.const_value() != 0
        for at, c in self.boolvals.items():
            if vn.equal(v, vn.atom(at)):
                return c
        return ("!=", v, vn.const(0))

    # ------------------------------------------------------------------ expressions
    def index_key(self, e, st):
        v = self.ev(e, st)
        if v.is_const():
            c = v.const_value()
            if c.denominator != 1:
                raise Unsupported("fractional index")
            return int(c)
        return repr(vn.normalise(v))

    def lvalue(self, e, st):
        """-> ('scalar', name) | ('local', name, cell) | ('param', name, idx tuple)"""
        if e.k == "var":
            return ("scalar", e.name)
        if e.k == "cast":
            return self.lvalue(e.a[0], st)
        if e.k == "un" and e.op == "*":
            inner = e.a[0]
            while inner.k == "cast":
                inner = inner.a[0]
            if inner.k == "var" and inner.name in st.ptr:
                return self.flat_cell(*st.ptr[inner.name])
            if inner.k == "var" and inner.name in self.params:
                return ("param", inner.name, (0,))
            raise Unsupported("pointer dereference %s" % estr(e))
        if self.pdefs and any(x.k == "var" and x.name in self.pdefs for x in cfront.ewalk(e)):
            e = cfront.esubst(e, self.pdefs)
        v, subs = cfront.subscripts(e)
        if v is not None and v.name in st.ptr and len(subs) == 1:
            base, off = st.ptr[v.name]
            kx = self.index_key(subs[0], st)
            if not isinstance(kx, int):
                raise Unsupported("symbolic index through the moving pointer %s" % v.name)
            return self.flat_cell(base, off + kx)
        if v is None:
            raise Unsupported("lvalue %s" % estr(e))
        idx = tuple(self.index_key(x, st) for x in subs)
        if v.name in self.dims:
            if len(idx) != len(self.dims[v.name]):
                raise Unsupported("partial index of %s" % v.name)
            return ("local", v.name, idx)
        if v.name in self.params:
            return ("param", v.name, idx)
        raise Unsupported("subscript of %s" % v.name)

    def flat_cell(self, base, flat):
        if base in self.dims:
            return ("local", base, self._cell(base, flat))
        inner = self.pdims.get(base) or []
        idx = []
        for d in reversed(inner):
            idx.append(flat % d)
            flat //= d
        idx.append(flat)
        return ("param", base, tuple(reversed(idx)))

    def ptr_value(self, e, st):
        """pointer-valued expression -> (base array name, concrete flat offset)"""
        while e.k == "cast":
            e = e.a[0]
        if e.k == "var":
            if e.name in st.ptr:
                return st.ptr[e.name]
            if e.name in self.params or e.name in self.dims:
                return (e.name, 0)
        if e.k == "bin" and e.op in ("+", "-"):
            b, o = self.ptr_value(e.a[0], st)
            d = self.ev(e.a[1], st)
            if d.is_const():
                return (b, o + int(d.const_value()) * (1 if e.op == "+" else -1))
        if e.k == "un" and e.op == "&" and e.a[0].k == "idx":
            lv = self.lvalue(e.a[0], st)
            if lv[0] in ("param", "local") and all(isinstance(i, int) for i in lv[2]):
                dims = self.dims.get(lv[1]) or ([None] + list(self.pdims.get(lv[1]) or []))
                flat = 0
                for i, d in zip(lv[2], dims):
                    flat = flat * (d if d is not None else 1) + i if d is not None else i
                return (lv[1], flat)
        raise Unsupported("pointer expression %s" % estr(e))

    def load(self, lv, st, e):
        if lv[0] == "scalar":
            name = lv[1]
            if name in st.v:
                return st.v[name]
            if name in self.inputs:
                return self.inputs[name]
            if name in self.params or name in self.tu_globals():
                return vn.atom(name)
            raise Unsupported("read of unassigned local '%s' at %s:%s" % (name, self.f.file, e.line))
        if lv[0] == "local":
            cells = st.arr.get(lv[1], {})
            if lv[2] in cells:
                return cells[lv[2]]
            if any(not isinstance(i, int) for i in lv[2]):
                raise Unsupported("symbolic index into local array %s%s" % (lv[1], list(lv[2])))
            raise Unsupported("read of unassigned cell %s%s at %s:%s" % (lv[1], list(lv[2]), self.f.file, e.line))
        name, idx = lv[1], lv[2]
        if name in st.out and idx in st.out[name]:
            return st.out[name][idx]
        if name in self.inputs:
            src = self.inputs[name]
            return src(idx) if callable(src) else src
        return vn.atom("%s%s" % (name, "".join("[%s]" % i for i in idx)))

    def store(self, lv, val, st):
        if lv[0] == "scalar":
            st.v[lv[1]] = val
        elif lv[0] == "local":
            if any(not isinstance(i, int) for i in lv[2]):
                raise Unsupported("store to symbolic cell of local array %s" % lv[1])
            st.arr.setdefault(lv[1], {})[lv[2]] = val
        else:
            st.out.setdefault(lv[1], {})[lv[2]] = val

    def tu_globals(self):
        return self.f.tu.globals

    def ev(self, e, st):
        k = e.k
        if k == "int":
            return vn.const(e.val)
        if k == "float":
            return vn.const(e.val)
        if k == "var":
            return self.load(("scalar", e.name), st, e)
        if k == "cast":
            inner = self.ev(e.a[0], st)
            if e.op == "FloatingToIntegral":
                if inner.is_const():
                    return vn.const(math.trunc(inner.const_value()))
                return vn.app("trunc", inner)
            return inner
        if k == "bin":
            r = is_rnd(e)
            if r is not None:
                return vn.app("rnd", self.ev(r, st))
            if e.op == ",":
                self.ev(e.a[0], st)
                return self.ev(e.a[1], st)
            if e.op in ("<", ">", "<=", ">=", "==", "!=", "&&", "||"):
                c = self.cond(e, st)
                if isinstance(c, bool):
                    return vn.const(1 if c else 0)
                # a symbolic truth value stored in a variable: keep it as an opaque atom that cond() maps back
                at = ("boolval", repr(ckey(c)))
                self.boolvals[at] = c
                return vn.atom(at)
            a, b = self.ev(e.a[0], st), self.ev(e.a[1], st)
            if e.op == "+":
                return a + b
            if e.op == "-":
                return a - b
            if e.op == "*":
                return a * b
            if e.op == "/":
                if b.is_zero():
                    raise Unsupported("division by zero")
                ity = (e.ty or "") in ("int", "unsigned int", "long", "short", "unsigned short")
                if ity:
                    if a.is_const() and b.is_const():
                        return vn.const(int(a.const_value() / b.const_value()))
                    return vn.app("idiv", a, b)
                return a / b
            raise Unsupported("operator %s" % e.op)
        if k == "un":
            if e.op == "-":
                return -self.ev(e.a[0], st)
            if e.op == "*":
                return self.load(self.lvalue(e, st), st, e)
            raise Unsupported("unary %s" % e.op)
        if k == "idx":
            return self.load(self.lvalue(e, st), st, e)
        if k == "asg" and e.a[0].k == "var" and e.a[0].name in self.pdefs:
            return vn.const(0)
        if k in ("asg", "incdec") and e.a[0].k == "var" and e.a[0].name in self.walkers:
            name = e.a[0].name
            if k == "asg" and e.op == "=":
                st.ptr[name] = self.ptr_value(e.a[1], st)
            else:
                if name not in st.ptr:
                    raise Unsupported("pointer %s moved before it was bound" % name)
                if k == "incdec":
                    d = 1 if e.op == "++" else -1
                else:
                    dv = self.ev(e.a[1], st)
                    if not dv.is_const() or e.op not in ("+=", "-="):
                        raise Unsupported("pointer %s moved by a symbolic amount" % name)
                    d = int(dv.const_value()) * (1 if e.op == "+=" else -1)
                b, o = st.ptr[name]
                st.ptr[name] = (b, o + d)
            return vn.const(0)
        if k == "asg":
            lv = self.lvalue(e.a[0], st)
            rhs = self.ev(e.a[1], st)
            if e.op != "=":
                cur = self.load(lv, st, e)
                op = e.op[:-1]
                if op == "+":
                    rhs = cur + rhs
                elif op == "-":
                    rhs = cur - rhs
                elif op == "*":
                    rhs = cur * rhs
                elif op == "/":
                    rhs = cur / rhs
                else:
                    raise Unsupported("compound operator %s" % e.op)
            self.store(lv, rhs, st)
            return rhs
        if k == "incdec":
            lv = self.lvalue(e.a[0], st)
            cur = self.load(lv, st, e)
            new = cur + (1 if e.op == "++" else -1)
            self.store(lv, new, st)
            return new if e.val else cur
        if k == "cond":
            c = self.cond(e.a[0], st)
            if c is True:
                return self.ev(e.a[1], st)
            if c is False:
                return self.ev(e.a[2], st)
            raise Unsupported("symbolic conditional expression %s" % estr(e))
        if k == "call":
            return self.call(e, st)
        raise Unsupported("expression kind %s (%s)" % (k, estr(e)))

    def call(self, e, st):
        name = e.name
        if name in self.models:
            return self.models[name](self, e, st)
        if name in MATH1 and len(e.a) == 1:
            return vn.app(MATH1[name], self.ev(e.a[0], st))
        if name in ("atan2", "atan2f") and len(e.a) == 2:
            return vn.app("atan2", self.ev(e.a[0], st), self.ev(e.a[1], st))
        if name in ("printf", "fprintf"):
            return vn.const(0)
        raise Unsupported("call of %s in value-numbered code (%s:%s)" % (name, self.f.file, e.line))


def ckey(c):
    if c[0] in ("and", "or"):
        return (c[0], ckey(c[1]), ckey(c[2]))
    if c[0] == "not":
        return ("not", ckey(c[1]))
    return (c[0], vn.canon(c[1]), vn.canon(c[2]))


def flatten_true(c):
    """conjuncts known true when c is true"""
    if c[0] == "and":
        return flatten_true(c[1]) + flatten_true(c[2]) + [c]
    return [c]


def decide(c, st):
    """truth of condition c on this path if already decided, else None"""
    k = ckey(c)
    for rec in st.conds:
        if ckey(rec[:3]) == k:
            return rec[3]
    if c[0] == "and":
        l, r = decide(c[1], st), decide(c[2], st)
        if l is False or r is False:
            return False
        if l is True and r is True:
            return True
    if c[0] == "or":
        l, r = decide(c[1], st), decide(c[2], st)
        if l is True or r is True:
            return True
        if l is False and r is False:
            return False
    if c[0] == "not":
        d = decide(c[1], st)
        return None if d is None else (not d)
    # complementary relational forms: a != b  vs  a == b
    comp = {"==": "!=", "!=": "=="}
    if c[0] in comp:
        k2 = (comp[c[0]], k[1], k[2])
        k3 = (comp[c[0]], k[2], k[1])
        for rec in st.conds:
            kk = ckey(rec[:3])
            if kk == k2 or kk == k3:
                return not rec[3]
            if kk == (c[0], k[2], k[1]):
                return rec[3]
    return None


def model_inverse3x3(sym, e, st):
    """inverse3x3(H): on the success path H := uninterpreted inverse entries Hinv(i,j; H cells); returns atom status"""
    a = e.a[0]
    while a.k == "cast":
        a = a.a[0]
    if a.k != "var" or a.name not in sym.dims:
        raise Unsupported("inverse3x3 argument %s" % estr(e.a[0]))
    name = a.name
    cells = st.arr.get(name, {})
    if any((i, j) not in cells for i in range(3) for j in range(3)):
        raise Unsupported("inverse3x3 of a matrix with unassigned cells")
    rows, key = vn.inv3x3_atoms([[cells[(i, j)] for j in range(3)] for i in range(3)])
    for i in range(3):
        for j in range(3):
            st.arr[name][(i, j)] = rows[i][j]
    return vn.atom(("inv3x3_status", key))
