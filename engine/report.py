"""Run context, findings, evidence writer shared by every check.

Exit codes: 0 ok (known findings allowed), 1 VIOLATION, 2 ANALYSIS-ERROR.
"""
import json
import os
import re
import sys
import time

VERIF = os.path.dirname(os.path.dirname(os.path.abspath(__file__)))


class AnalysisError(Exception):
    """The analyser cannot decide (anchor vanished, unsupported construct, floor not met)."""


def norm(text):
    """Normalise construct text for finding keys: collapse whitespace, drop line numbers."""
    return re.sub(r"\s+", " ", str(text)).strip()


class Finding(object):
    def __init__(self, rule, file, line, function, construct, why):
        self.rule = rule
        self.file = file
        self.line = line
        self.function = function
        self.construct = norm(construct)
        self.why = why

    @property
    def key(self):
        return "%s|%s|%s|%s" % (self.rule, self.file, self.function, self.construct)

    def asdict(self):
        return dict(rule=self.rule, file=self.file, line=self.line, function=self.function,
                    construct=self.construct, why=self.why, key=self.key)

    def __str__(self):
        return "%s:%s [%s] %s: %s -- %s" % (self.file, self.line, self.rule, self.function,
                                            self.construct, self.why)


class Run(object):
    def __init__(self, pid, tier="quick", root="/repo", only_rule=None):
        self.pid = pid
        self.tier = tier
        self.root = os.path.abspath(root)
        self.only_rule = only_rule
        self.t0 = time.time()
        self.findings = []
        self.instances = {}       # rule -> list of instance descriptions (examined)
        self.obligations = {}     # rule -> [n_obligations, n_discharged]
        self.notes = []
        self.assumptions = []
        self.exceptions = []      # (rule, symbol, reason)
        self.rule_text = {}       # rule -> one-line statement
        self.extra = {}
        self.level = "other"
        self.trusted = []

    # ---- paths
    def path(self, rel):
        return os.path.join(self.root, rel)

    def read(self, rel):
        p = self.path(rel)
        if not os.path.exists(p):
            raise AnalysisError("anchor file missing: %s" % rel)
        with open(p, "r", encoding="utf-8", errors="replace") as f:
            return f.read()

    # ---- bookkeeping
    def rule(self, rule, text):
        self.rule_text[rule] = text
        self.instances.setdefault(rule, [])
        self.obligations.setdefault(rule, [0, 0])

    def want(self, rule):
        return self.only_rule is None or self.only_rule == rule

    def inst(self, rule, desc, ok=True):
        """Record an examined rule instance; ok=True means its obligation was discharged."""
        self.instances.setdefault(rule, []).append(norm(desc))
        o = self.obligations.setdefault(rule, [0, 0])
        o[0] += 1
        if ok:
            o[1] += 1

    def violation(self, rule, file, line, function, construct, why):
        f = Finding(rule, file, line, function, construct, why)
        # de-duplicate on key
        for g in self.findings:
            if g.key == f.key:
                return g
        self.findings.append(f)
        return f

    def check(self, cond, rule, file, line, function, construct, why, desc=None):
        """Convenience: record instance, and violation when cond is false."""
        self.inst(rule, desc or ("%s:%s %s" % (file, function, construct)), ok=bool(cond))
        if not cond:
            self.violation(rule, file, line, function, construct, why)
        return bool(cond)

    def shape(self, cond, rule, file, function, what):
        """shape recognition: when the analyser cannot find the construct a rule reasons about, it cannot decide
        (exit 2) - this is never reported as a violation"""
        if not cond:
            raise AnalysisError("%s: %s:%s - cannot recognise %s (refactored? the rule needs updating)" % (rule, file, function, what))
        return True

    def floor(self, rule, minimum, what="instances"):
        n = len(self.instances.get(rule, []))
        if n < minimum:
            raise AnalysisError("rule %s examined %d %s, below the hand-confirmed floor %d "
                                "(anchor moved or analyser blind)" % (rule, n, what, minimum))

    def note(self, text):
        self.notes.append(text)

    def assume(self, text):
        if text not in self.assumptions:
            self.assumptions.append(text)

    def exception(self, rule, symbol, reason):
        self.exceptions.append(dict(rule=rule, symbol=symbol, reason=reason))

    def fail(self, msg):
        raise AnalysisError(msg)


class Alias(object):
    """view of a Run under which the rules of another property's module are recorded under this property's rule ids (a rule
    shared by two properties is evaluated by the same code, reported under each property's own name)"""

    def __init__(self, run, mapping):
        object.__setattr__(self, "_run", run)
        object.__setattr__(self, "_map", dict(mapping))

    def _r(self, rule):
        base = rule.split("/")[0]
        if base in self._map:
            return self._map[base] + rule[len(base):]
        return rule

    def __getattr__(self, name):
        return getattr(self._run, name)

    def __setattr__(self, name, value):
        setattr(self._run, name, value)

    def rule(self, rule, text):
        return self._run.rule(self._r(rule), text)

    def want(self, rule):
        return True

    def inst(self, rule, desc, ok=True):
        return self._run.inst(self._r(rule), desc, ok)

    def violation(self, rule, file, line, function, construct, why):
        return self._run.violation(self._r(rule), file, line, function, construct, why)

    def check(self, cond, rule, file, line, function, construct, why, desc=None):
        return self._run.check(cond, self._r(rule), file, line, function, construct, why, desc)

    def shape(self, cond, rule, file, function, what):
        return self._run.shape(cond, self._r(rule), file, function, what)

    def floor(self, rule, minimum, what="instances"):
        return self._run.floor(self._r(rule), minimum, what)

    def exception(self, rule, symbol, reason):
        return self._run.exception(self._r(rule), symbol, reason)


def load_known():
    p = os.path.join(VERIF, "known_findings.json")
    if not os.path.exists(p):
        return []
    with open(p) as f:
        return json.load(f).get("findings", [])


def finish(run, error=None):
    """Write evidence, print report, return exit code."""
    known = [k for k in load_known() if k.get("property") == run.pid and k.get("status") == "known"]
    known_keys = {k["key"]: k for k in known}
    new, hit = [], []
    for f in run.findings:
        if f.key in known_keys:
            hit.append(f)
        else:
            new.append(f)
    wall = time.time() - run.t0
    n_inst = sum(len(v) for v in run.instances.values())
    distinct = len(set(x for v in run.instances.values() for x in v))
    n_obl = sum(o[0] for o in run.obligations.values())
    n_dis = sum(o[1] for o in run.obligations.values())
    samples = []
    for r in sorted(run.instances):
        for x in run.instances[r][:3]:
            samples.append("%s: %s" % (r, x))
    per_rule = {r: dict(statement=run.rule_text.get(r, ""), instances=len(run.instances.get(r, [])),
                        obligations=run.obligations.get(r, [0, 0])[0],
                        discharged=run.obligations.get(r, [0, 0])[1])
                for r in sorted(set(run.instances) | set(run.rule_text))}
    cov = dict(
        evaluations=max(n_inst, 0),
        distinct_nontrivial=distinct,
        rule="each evaluation is one rule instance (a construct of /repo's current source that "
             "carries an obligation of the named rule); distinct = distinct normalised construct texts",
        samples=samples[:60] or ["(none)"],
        obligations=n_obl,
        discharged=n_dis,
        checker_cmd="./check %s --tier %s" % (run.pid, run.tier),
        trusted_base=run.trusted or [
            "clang-14 parser/sema (JSON AST)", "CPython ast", "numpy.f2py.crackfortran",
            "the analyser code under /verif/engine and /verif/rules (validated by /verif/selftest)"],
        explanation="static analysis of /repo's current working tree; nothing from /repo is imported or "
                    "executed. Decided clauses: " + "; ".join(
                        "%s = %s" % (r, run.rule_text[r]) for r in sorted(run.rule_text)),
        per_rule=per_rule,
        exceptions=run.exceptions,
        notes=run.notes,
        known_findings_hit=[f.asdict() for f in hit],
        violations=[f.asdict() for f in new],
        exhaustive=False,
    )
    cov.update(run.extra)
    if error is not None:
        cov["analysis_error"] = str(error)
    ev = dict(property_id=run.pid, tier=run.tier, seed=int(os.environ.get("VERIF_SEED", "0") or 0),
              level=run.level, coverage=cov, assumptions=run.assumptions, wall_s=round(wall, 3),
              violations=len(new))
    evdir = os.path.join(VERIF, "evidence")
    os.makedirs(evdir, exist_ok=True)
    # only the canonical /repo run rewrites the committed evidence; scratch-root runs (selftest) do not
    write_ev = os.environ.get("VERIF_NO_EVIDENCE") != "1" and (
        os.path.realpath(run.root) == os.path.realpath(os.environ.get("VERIF_CANONICAL_ROOT", "/repo")))
    if write_ev:
        with open(os.path.join(evdir, "%s.json" % run.pid), "w") as f:
            json.dump(ev, f, indent=1, sort_keys=True)
            f.write("\n")
    out = sys.stdout
    out.write("== %s tier=%s root=%s: %d rule instances, %d/%d obligations discharged, %.2fs\n"
              % (run.pid, run.tier, run.root, n_inst, n_dis, n_obl, wall))
    for r in sorted(per_rule):
        out.write("   %-10s %4d instances  %s\n" % (r, per_rule[r]["instances"], per_rule[r]["statement"][:110]))
    for f in hit:
        out.write("KNOWN-FINDING: property=%s %s\n" % (run.pid, f))
    if error is not None:
        out.write("ANALYSIS-ERROR property=%s %s\n" % (run.pid, error))
        if not new:
            return 2
        # a definite violation found before the analyser gave up elsewhere is still a violation
    rdir = os.path.join(VERIF, "evidence", "replay")
    if write_ev and os.path.isdir(rdir) and run.only_rule is None:
        for old_f in os.listdir(rdir):      # replay files of an earlier run of this property are stale now
            if old_f.startswith(run.pid + "_") and old_f.endswith(".json"):
                try:
                    os.unlink(os.path.join(rdir, old_f))
                except OSError:
                    pass
    if new:
        os.makedirs(rdir, exist_ok=True)
        for i, f in enumerate(new):
            rp = os.path.join(rdir, "%s_%d.json" % (run.pid, i))
            if write_ev:
                with open(rp, "w") as fh:
                    json.dump(f.asdict(), fh, indent=1)
            out.write("VIOLATION property=%s replay=%s\n" % (run.pid, rp))
            out.write("   %s\n" % f)
        return 1
    return 0
