"""E6: value numbering over polynomials / rational functions with uninterpreted applications.

A value is a Rat (poly.Rat).  Function applications become atoms ('sin', canon(arg)) etc.
normalise() applies the ring axioms (already in Poly), cos^2 -> 1 - sin^2 per argument and
sqrt(e)^2 -> e.  Equality = normal form of the cross-multiplied difference is zero.
No search, no solver."""
import math
import os
from fractions import Fraction as Fr

from .poly import Poly, Rat, _mono_mul, akey as _akey

PI = Poly.atom("pi")


def const(c):
    if isinstance(c, float):
        if c == math.pi:
            return Rat(PI)
        if abs(c - math.pi) < 1e-15:
            return Rat(PI)
        return Rat(Poly.const(Fr(repr(c))))
    return Rat(Poly.const(Fr(c)))


def atom(a):
    return Rat(Poly.atom(a))


def reduce_poly(p):
    """cos(x)^2 -> 1 - sin(x)^2 ; sqrt(e)^(2k) -> e^k"""
    changed = True
    guard = 0
    while changed:
        changed = False
        guard += 1
        if guard > 200:
            raise OverflowError("reduce_poly did not terminate")
        out = {}
        for k, v in p.t.items():
            hit = None
            for a, pw in k:
                if isinstance(a, tuple) and pw >= 2 and a[0] == "cos":
                    hit = (a, pw)
                    break
                if isinstance(a, tuple) and pw >= 2 and a[0] == "sqrt" and uncanon(a[1]).d.is_const():
                    hit = (a, pw)
                    break
            if hit is None:
                out[k] = out.get(k, 0) + v
                continue
            changed = True
            a, pw = hit
            rest = tuple((b, q) for b, q in k if b != a)
            base = Poly({_mono_mul(rest, ((a, pw - 2),) if pw > 2 else ()): v})
            if a[0] == "cos":
                s = ("sin",) + a[1:]
                repl = base * (Poly.const(1) - Poly.atom(s, 2))
            else:
                arg = uncanon(a[1])
                repl = base * arg.n.scale(1 / arg.d.const_value())
            for kk, vv in repl.t.items():
                out[kk] = out.get(kk, 0) + vv
        p = Poly(out)
    return p


def uncanon(c):
    """inverse of Rat.canon()"""
    return Rat(Poly(dict(c[0])), Poly(dict(c[1])))


def _has_rational_sqrt_square(p):
    for k in p.t:
        for a, pw in k:
            if isinstance(a, tuple) and a[0] == "sqrt" and pw >= 2 and not uncanon(a[1]).d.is_const():
                return True
    return False


def _eval_sqrt_squares(p):
    """polynomial -> Rat with sqrt(n/d)^(2k) replaced by (n/d)^k"""
    out = Rat(Poly())
    for k, v in p.t.items():
        term = Rat(Poly.const(v))
        for a, pw in k:
            if isinstance(a, tuple) and a[0] == "sqrt" and pw >= 2 and not uncanon(a[1]).d.is_const():
                arg = uncanon(a[1])
                term = term * (arg ** (pw // 2))
                if pw % 2:
                    term = term * Rat(Poly.atom(a))
            else:
                term = term * Rat(Poly.atom(a, pw))
        out = out + term
    return out


def normalise(r):
    n = reduce_poly(r.n)
    d = reduce_poly(r.d)
    guard = 0
    while (_has_rational_sqrt_square(n) or _has_rational_sqrt_square(d)) and guard < 6:
        guard += 1
        q = _eval_sqrt_squares(n) / _eval_sqrt_squares(d)
        n, d = reduce_poly(q.n), reduce_poly(q.d)
    return cancel_content(Rat(n, d))


def cancel_content(r):
    """cancel the common monomial factor of numerator and denominator, and divide exactly when the
    denominator is a single monomial times a constant or equals the numerator"""
    n, d = r.n, r.d
    if n.is_zero():
        return Rat(Poly(), Poly.const(1))
    if d.is_const():
        return r
    if n == d:
        return Rat(Poly.const(1))
    if n == -d:
        return Rat(Poly.const(-1))
    common = None
    for p in (n, d):
        for k in p.t:
            km = dict(k)
            if common is None:
                common = dict(km)
            else:
                for a in list(common):
                    common[a] = min(common[a], km.get(a, 0))
                    if common[a] == 0:
                        del common[a]
            if not common:
                break
        if common is not None and not common:
            break
    if common:
        def div(p):
            out = {}
            for k, v in p.t.items():
                km = dict(k)
                for a, pw in common.items():
                    km[a] -= pw
                nk = tuple(sorted(((a, q) for a, q in km.items() if q), key=lambda x: _akey(x[0])))
                out[nk] = v
            return Poly(out)
        n, d = div(n), div(d)
    return Rat(n, d)


def equal(a, b):
    a, b = _R(a), _R(b)
    diff = a.n * b.d - b.n * a.d
    red = reduce_poly(diff)
    if red.is_zero():
        return True
    if _has_rational_sqrt_square(red):
        return normalise(Rat(red)).n.is_zero()
    return False


def is_zero(a):
    red = reduce_poly(_R(a).n)
    if red.is_zero():
        return True
    if _has_rational_sqrt_square(red):
        return normalise(Rat(red)).n.is_zero()
    return False


def _R(x):
    if isinstance(x, Rat):
        return x
    if isinstance(x, Poly):
        return Rat(x)
    return const(x)


def canon(r):
    return normalise(_R(r)).canon()


def _neg_leading(r):
    """True if the first monomial of the numerator (sort order) has a negative coefficient"""
    n = r.n
    if not n.t:
        return False
    p, c = n.lead_normalised()
    dn, dc = r.d.lead_normalised()
    return (c / dc) < 0


def app(fname, *args):
    """uninterpreted application with light constant folding and parity rules"""
    args = [normalise(_R(a)) for a in args]
    if fname in ("sin", "cos", "tan") and len(args) == 1:
        x = args[0]
        if x.is_zero():
            return const(0) if fname in ("sin", "tan") else const(1)
        # cos(acos(y)) = y ; sin(acos(y)) = sqrt(1-y^2) ; sin(asin(y)) = y ; cos(asin(y)) = sqrt(1-y^2)
        inner = _single_atom(x)
        if inner is not None and inner[0] in ("acos", "asin") and fname in ("sin", "cos"):
            y = uncanon(inner[1])
            same = (fname == "cos") == (inner[0] == "acos")
            return y if same else app("sqrt", const(1) - y * y)
        if _neg_leading(x):
            y = app(fname, -x)
            return y if fname == "cos" else -y
        return atom((fname, x.canon()))
    if fname == "sqrt" and len(args) == 1:
        x = args[0]
        if x.is_const():
            c = x.const_value()
            if c >= 0:
                rn, rd = math.isqrt(c.numerator), math.isqrt(c.denominator)
                if rn * rn == c.numerator and rd * rd == c.denominator:
                    return const(Fr(rn, rd))
        return atom(("sqrt", x.canon()))
    if fname == "abs" and len(args) == 1:
        x = args[0]
        if x.is_const():
            return const(abs(x.const_value()))
        if _neg_leading(x):
            x = -x
        return atom(("abs", x.canon()))
    if fname in ("floor", "ceil") and len(args) == 1 and args[0].is_const():
        c = args[0].const_value()
        return const(math.floor(c) if fname == "floor" else math.ceil(c))
    if fname == "rnd" and len(args) == 1:
        x = args[0]
        if x.is_const():
            return const(math.floor(x.const_value() + Fr(1, 2)))
        return atom(("rnd", x.canon()))
    if fname in ("arctan2", "atan2") and len(args) == 2:
        return atom(("atan2", args[0].canon(), args[1].canon()))
    if fname in ("arcsin", "asin"):
        x = args[0]
        if _neg_leading(x):
            return -atom(("asin", (-x).canon()))
        return atom(("asin", x.canon()))
    if fname in ("arccos", "acos"):
        return atom(("acos", args[0].canon()))
    return atom((fname,) + tuple(a.canon() for a in args))


def _single_atom(r):
    """r is exactly one application atom with coefficient 1 -> the atom tuple, else None"""
    if r.d != Poly.const(1) or len(r.n.t) != 1:
        return None
    (k, v), = r.n.t.items()
    if v != 1 or len(k) != 1 or k[0][1] != 1 or not isinstance(k[0][0], tuple):
        return None
    return k[0][0]


def radians(x):
    return _R(x) * Rat(PI) / const(180)


def degrees(x):
    return _R(x) * const(180) / Rat(PI)


def subst_atoms(r, mapping):
    """substitute plain-string atoms (only at top level of the polynomial, not inside applications)"""
    r = _R(r)
    m = {k: (_R(v)) for k, v in mapping.items()}
    if all(v.d == Poly.const(1) for v in m.values()):
        mm = {k: v.n for k, v in m.items()}
        return Rat(r.n.subs(mm), r.d.subs(mm))
    raise NotImplementedError("rational substitution")


def subst_deep(r, mapping):
    """substitute plain-string atoms everywhere, also inside the arguments of uninterpreted applications (which are rebuilt
    through app() so that constant folding and the usual normalisations apply again)"""
    r = _R(r)
    m = {k: _R(v) for k, v in mapping.items()}
    if not m:
        return r
    cache = {}

    def atom_value(a):
        if a in cache:
            return cache[a]
        if isinstance(a, str):
            v = m.get(a, atom(a))
        elif isinstance(a, tuple) and a and isinstance(a[0], str) and all(_is_canon(x) for x in a[1:]):
            v = app(a[0], *[poly_value_rat(uncanon(x)) for x in a[1:]])
        else:
            v = atom(a)
        cache[a] = v
        return v

    def poly_value(p):
        tot = const(0)
        for mono, c in p.t.items():
            term = Rat(Poly.const(c))
            for a, pw in mono:
                av = atom_value(a)
                for _ in range(pw):
                    term = term * av
            tot = tot + term
        return tot

    def poly_value_rat(x):
        x = _R(x)
        return poly_value(x.n) / poly_value(x.d)
    return poly_value_rat(r)


def _is_canon(x):
    return isinstance(x, tuple) and len(x) == 2 and all(isinstance(y, tuple) for y in x)


# ---------------------------------------------------------------------------------------------
# optional rewrites (only applied where a rule asks for them)
def _half_of_atan2(argcanon):
    """argcanon is the canon of (1/2)*atan2(y,x) -> the atan2 atom, else None"""
    r = uncanon(argcanon)
    two = r * const(2)
    a = _single_atom(normalise(two))
    if a is not None and a[0] == "atan2":
        return a
    return None


def expand_trig_of_atan2(r):
    """sin(atan2(y,x)) -> y/sqrt(x^2+y^2), cos(atan2(y,x)) -> x/sqrt(x^2+y^2);
    for X = atan2(..): sin(X/2)^2 -> (1-cos X)/2, cos(X/2)^2 -> (1+cos X)/2, sin(X/2)cos(X/2) -> sin(X)/2.
    Monomials with an odd leftover power of a half-angle atom are left alone (the caller's comparison then fails
    closed).  Works on numerator and denominator separately."""
    r = normalise(_R(r))
    return normalise(_expand_poly(r.n) / _expand_poly(r.d))


def _expand_poly(p):
    out = const(0)
    for k, v in p.t.items():
        term = const(v)
        km = dict(k)
        # pair up half-angle atoms
        halves = {}
        for a, pw in list(km.items()):
            if isinstance(a, tuple) and a[0] in ("sin", "cos"):
                at = _half_of_atan2(a[1])
                if at is not None:
                    halves.setdefault(at, {})[a[0]] = (a, pw)
        for at, d in halves.items():
            sa, sp = d.get("sin", (None, 0))
            ca, cp = d.get("cos", (None, 0))
            X = atom(at)
            sinX = app("sin", X)
            cosX = app("cos", X)
            # use up sin*cos pairs, then squares
            m = min(sp, cp)
            rest_s, rest_c = sp - m, cp - m
            if rest_s % 2 or rest_c % 2:
                # odd leftover: convert one pair back if possible (keep exactness: leave the monomial untouched)
                continue
            term = term * (sinX / const(2)) ** m
            term = term * ((const(1) - cosX) / const(2)) ** (rest_s // 2)
            term = term * ((const(1) + cosX) / const(2)) ** (rest_c // 2)
            if sa is not None:
                km.pop(sa)
            if ca is not None:
                km.pop(ca)
        for a, pw in km.items():
            term = term * (atom(a) ** pw)
        out = out + term
    # second stage: sin/cos of a bare atan2
    out = normalise(out)

    def stage2(p2):
        res = const(0)
        for k, v in p2.t.items():
            term = const(v)
            for a, pw in k:
                rep = None
                if isinstance(a, tuple) and a[0] in ("sin", "cos"):
                    at = _single_atom(uncanon(a[1]))
                    if at is not None and at[0] == "atan2":
                        y, x = uncanon(at[1]), uncanon(at[2])
                        rr = app("sqrt", x * x + y * y)
                        rep = (y / rr) if a[0] == "sin" else (x / rr)
                term = term * ((rep if rep is not None else atom(a)) ** pw)
            res = res + term
        return res
    return normalise(stage2(out.n) / stage2(out.d))


# ---------------------------------------------------------------------------------------------
# fast refutation: evaluate both sides at random points (analytic continuation in the complex plane).  A numerical
# difference is a witness that the two expressions are different functions; agreement proves nothing and the exact
# normal-form comparison still has to succeed.
import cmath
import random as _random


class _Env(object):
    def __init__(self, seed):
        self.rng = _random.Random(seed)
        self.vals = {}
        self.cache = {}

    def atom(self, a):
        if a in self.cache:
            return self.cache[a]
        if isinstance(a, str):
            if a == "pi":
                v = math.pi
            else:
                v = self.rng.uniform(0.6, 1.7)
            self.cache[a] = v
            return v
        f = a[0]
        if f == "inv3x3":
            i, j, key = a[1], a[2], a[3]
            mk = ("invmat", key)
            if mk not in self.cache:
                import numpy as _np
                cells = [self.rat(uncanon(c)) for c in key]
                self.cache[mk] = _np.linalg.inv(_np.array(cells, dtype=complex).reshape(3, 3))
            v = complex(self.cache[mk][i, j])
            # symmetric-input inverses use canonical (min,max) indices: value is the same entry
            self.cache[a] = v
            return v
        if f == "inv3x3_status":
            v = 0.0
            self.cache[a] = v
            return v
        args = [self.rat(uncanon(x)) if (isinstance(x, tuple) and len(x) == 2 and isinstance(x[0], tuple)) else x for x in a[1:]]
        try:
            if f == "sin":
                v = cmath.sin(args[0])
            elif f == "cos":
                v = cmath.cos(args[0])
            elif f == "sqrt":
                v = cmath.sqrt(args[0])
            elif f == "atan2":
                y, x = args
                v = -1j * cmath.log((x + 1j * y) / cmath.sqrt(x * x + y * y))
            elif f == "acos":
                v = cmath.acos(args[0])
            elif f == "asin":
                v = cmath.asin(args[0])
            elif f == "atan":
                v = cmath.atan(args[0])
            elif f == "exp":
                v = cmath.exp(args[0])
            elif f == "log":
                v = cmath.log(args[0])
            elif f == "abs":
                v = abs(args[0])
            elif f in ("rnd", "floor", "trunc", "int"):
                v = float(math.floor(complex(args[0]).real + (0.5 if f == "rnd" else 0.0)))
            else:
                # uninterpreted: a reproducible pseudo-random function of the argument values
                h = hash((f,) + tuple(round(complex(x).real, 9) if not isinstance(x, (str, int)) else x for x in args))
                v = _random.Random(h).uniform(0.6, 1.7)
        except (ValueError, ZeroDivisionError, OverflowError):
            v = self.rng.uniform(0.6, 1.7)
        self.cache[a] = v
        return v

    def poly(self, p):
        tot = 0.0
        for k, c in p.t.items():
            term = float(c.numerator) / float(c.denominator)
            for a, pw in k:
                term = term * (self.atom(a) ** pw)
            tot = tot + term
        return tot

    def rat(self, r):
        d = self.poly(r.d)
        if d == 0:
            raise ZeroDivisionError
        return self.poly(r.n) / d


def numeric_difference(a, b, trials=2, seed=None):
    """-> (value_a, value_b, point) at a random point where the two expressions differ, else None"""
    a, b = _R(a), _R(b)
    base = int(os.environ.get("VERIF_SEED", "0") or 0) if seed is None else seed
    for t in range(trials):
        env = _Env(1000 * base + 17 * t + 3)
        try:
            va, vb = env.rat(a), env.rat(b)
        except (ZeroDivisionError, OverflowError, ValueError):
            continue
        scale = 1.0 + abs(va) + abs(vb)
        if abs(va - vb) > 1e-7 * scale:
            pt = {k: round(v, 4) for k, v in env.cache.items() if isinstance(k, str) and k != "pi"}
            return va, vb, pt
    return None


_exact_equal = equal
_exact_is_zero = is_zero
LAST_WITNESS = [None]


def equal(a, b):
    w = numeric_difference(a, b)
    if w is not None:
        LAST_WITNESS[0] = w
        return False
    return _exact_equal(a, b)


def is_zero(a):
    w = numeric_difference(a, const(0))
    if w is not None:
        LAST_WITNESS[0] = w
        return False
    return _exact_is_zero(a)


def inv3x3_atoms(cells):
    """uninterpreted inverse of a 3x3 matrix given as 3x3 nested list of Rat -> 3x3 nested list of atoms.
    The inverse of a symmetric matrix is symmetric: its atoms use canonical (min,max) indices."""
    key = tuple(canon(cells[i][j]) for i in range(3) for j in range(3))
    symmetric = all(key[3 * i + j] == key[3 * j + i] for i in range(3) for j in range(3))
    out = []
    for i in range(3):
        row = []
        for j in range(3):
            ii, jj = (min(i, j), max(i, j)) if symmetric else (i, j)
            row.append(atom(("inv3x3", ii, jj, key)))
        out.append(row)
    return out, key
