"""E6: value numbering over polynomials / rational functions with uninterpreted applications.

A value is a Rat (poly.Rat).  Function applications become atoms ('sin', canon(arg)) etc.
normalise() applies the ring axioms (already in Poly), cos^2 -> 1 - sin^2 per argument and
sqrt(e)^2 -> e.  Equality = normal form of the cross-multiplied difference is zero.
No search, no solver."""
import math
from fractions import Fraction as Fr

from .poly import Poly, Rat, _mono_mul, akey as _akey

PI = Poly.atom("pi")


def const(c):
    if isinstance(c, float):
        if c == math.pi:
            return Rat(PI)
        if abs(c - math.pi) < 1e-15:
            return Rat(PI)
        return Rat(Poly.const(Fr(repr(c))))
    return Rat(Poly.const(Fr(c)))


def atom(a):
    return Rat(Poly.atom(a))


def reduce_poly(p):
    """cos(x)^2 -> 1 - sin(x)^2 ; sqrt(e)^(2k) -> e^k"""
    changed = True
    guard = 0
    while changed:
        changed = False
        guard += 1
        if guard > 200:
            raise OverflowError("reduce_poly did not terminate")
        out = {}
        for k, v in p.t.items():
            hit = None
            for a, pw in k:
                if isinstance(a, tuple) and pw >= 2 and a[0] == "cos":
                    hit = (a, pw)
                    break
                if isinstance(a, tuple) and pw >= 2 and a[0] == "sqrt" and uncanon(a[1]).d.is_const():
                    hit = (a, pw)
                    break
            if hit is None:
                out[k] = out.get(k, 0) + v
                continue
            changed = True
            a, pw = hit
            rest = tuple((b, q) for b, q in k if b != a)
            base = Poly({_mono_mul(rest, ((a, pw - 2),) if pw > 2 else ()): v})
            if a[0] == "cos":
                s = ("sin",) + a[1:]
                repl = base * (Poly.const(1) - Poly.atom(s, 2))
            else:
                arg = uncanon(a[1])
                repl = base * arg.n.scale(1 / arg.d.const_value())
            for kk, vv in repl.t.items():
                out[kk] = out.get(kk, 0) + vv
        p = Poly(out)
    return p


def uncanon(c):
    """inverse of Rat.canon()"""
    return Rat(Poly(dict(c[0])), Poly(dict(c[1])))


def normalise(r):
    n = reduce_poly(r.n)
    d = reduce_poly(r.d)
    return cancel_content(Rat(n, d))


def cancel_content(r):
    """cancel the common monomial factor of numerator and denominator, and divide exactly when the
    denominator is a single monomial times a constant or equals the numerator"""
    n, d = r.n, r.d
    if n.is_zero():
        return Rat(Poly(), Poly.const(1))
    if d.is_const():
        return r
    if n == d:
        return Rat(Poly.const(1))
    if n == -d:
        return Rat(Poly.const(-1))
    common = None
    for p in (n, d):
        for k in p.t:
            km = dict(k)
            if common is None:
                common = dict(km)
            else:
                for a in list(common):
                    common[a] = min(common[a], km.get(a, 0))
                    if common[a] == 0:
                        del common[a]
            if not common:
                break
        if common is not None and not common:
            break
    if common:
        def div(p):
            out = {}
            for k, v in p.t.items():
                km = dict(k)
                for a, pw in common.items():
                    km[a] -= pw
                nk = tuple(sorted(((a, q) for a, q in km.items() if q), key=lambda x: _akey(x[0])))
                out[nk] = v
            return Poly(out)
        n, d = div(n), div(d)
    return Rat(n, d)


def equal(a, b):
    a, b = _R(a), _R(b)
    diff = a.n * b.d - b.n * a.d
    return reduce_poly(diff).is_zero()


def is_zero(a):
    return reduce_poly(_R(a).n).is_zero()


def _R(x):
    if isinstance(x, Rat):
        return x
    if isinstance(x, Poly):
        return Rat(x)
    return const(x)


def canon(r):
    return normalise(_R(r)).canon()


def _neg_leading(r):
    """True if the first monomial of the numerator (sort order) has a negative coefficient"""
    n = r.n
    if not n.t:
        return False
    p, c = n.lead_normalised()
    dn, dc = r.d.lead_normalised()
    return (c / dc) < 0


def app(fname, *args):
    """uninterpreted application with light constant folding and parity rules"""
    args = [normalise(_R(a)) for a in args]
    if fname in ("sin", "cos", "tan") and len(args) == 1:
        x = args[0]
        if x.is_zero():
            return const(0) if fname in ("sin", "tan") else const(1)
        # cos(acos(y)) = y ; sin(acos(y)) = sqrt(1-y^2) ; sin(asin(y)) = y ; cos(asin(y)) = sqrt(1-y^2)
        inner = _single_atom(x)
        if inner is not None and inner[0] in ("acos", "asin") and fname in ("sin", "cos"):
            y = uncanon(inner[1])
            same = (fname == "cos") == (inner[0] == "acos")
            return y if same else app("sqrt", const(1) - y * y)
        if _neg_leading(x):
            y = app(fname, -x)
            return y if fname == "cos" else -y
        return atom((fname, x.canon()))
    if fname == "sqrt" and len(args) == 1:
        x = args[0]
        if x.is_const():
            c = x.const_value()
            if c >= 0:
                rn, rd = math.isqrt(c.numerator), math.isqrt(c.denominator)
                if rn * rn == c.numerator and rd * rd == c.denominator:
                    return const(Fr(rn, rd))
        return atom(("sqrt", x.canon()))
    if fname == "abs" and len(args) == 1:
        x = args[0]
        if x.is_const():
            return const(abs(x.const_value()))
        if _neg_leading(x):
            x = -x
        return atom(("abs", x.canon()))
    if fname in ("floor", "ceil") and len(args) == 1 and args[0].is_const():
        c = args[0].const_value()
        return const(math.floor(c) if fname == "floor" else math.ceil(c))
    if fname == "rnd" and len(args) == 1:
        x = args[0]
        if x.is_const():
            return const(math.floor(x.const_value() + Fr(1, 2)))
        return atom(("rnd", x.canon()))
    if fname in ("arctan2", "atan2") and len(args) == 2:
        return atom(("atan2", args[0].canon(), args[1].canon()))
    if fname in ("arcsin", "asin"):
        x = args[0]
        if _neg_leading(x):
            return -atom(("asin", (-x).canon()))
        return atom(("asin", x.canon()))
    if fname in ("arccos", "acos"):
        return atom(("acos", args[0].canon()))
    return atom((fname,) + tuple(a.canon() for a in args))


def _single_atom(r):
    """r is exactly one application atom with coefficient 1 -> the atom tuple, else None"""
    if r.d != Poly.const(1) or len(r.n.t) != 1:
        return None
    (k, v), = r.n.t.items()
    if v != 1 or len(k) != 1 or k[0][1] != 1 or not isinstance(k[0][0], tuple):
        return None
    return k[0][0]


def radians(x):
    return _R(x) * Rat(PI) / const(180)


def degrees(x):
    return _R(x) * const(180) / Rat(PI)


def subst_atoms(r, mapping):
    """substitute plain-string atoms (only at top level of the polynomial, not inside applications)"""
    r = _R(r)
    m = {k: (_R(v)) for k, v in mapping.items()}
    if all(v.d == Poly.const(1) for v in m.values()):
        mm = {k: v.n for k, v in m.items()}
        return Rat(r.n.subs(mm), r.d.subs(mm))
    raise NotImplementedError("rational substitution")
