"""E2: OpenMP data-sharing and dependence discipline, per directive.

S1 scalars written in a region are private / reduction / region-local / inside critical
S2 writes to shared arrays are injective affine functions of the work-shared induction variable
S3 reads of arrays that the region writes stay inside the iteration's own block, or are provably
   disjoint from every write of the region
S4 data-dependent write indices only from the frozen table (one reason each) or the verified
   count / prefix-sum / fill idiom
S5 bare 'omp parallel' with a hand-made [lo,hi) partition: writes and reads of written arrays are
   own-partition
S6 predicate-partitioned access: writes a[x] under P(x), reads a[y] under not P(y), P reads only
   arrays the region never writes
"""
import itertools
import re

from . import cfront
from .cfront import E, S, estr, estr_top, ewalk, swalk
from .definit import canon_header
from .poly import Poly
from .report import AnalysisError

# S4: (function, array) -> reason.  Documented scatter through a caller-supplied permutation LUT.
S4_TABLE = {
    ("reorder_u16_a32", "out"): "documented scatter out[adr[i]] = data[i]; adr is a permutation LUT built by the caller (sandbox/fazit.py)",
    ("reorder_f32_a32", "out"): "documented scatter out[adr[i]] = data[i]; adr is a permutation LUT built by the caller",
    ("reorder_u16_a32_a16", "out"): "documented scatter through per-row start + delta LUT (a0,a1) describing a permutation",
}

_fresh = itertools.count()


def unk(tag):
    return Poly.atom(("unk", tag, next(_fresh)))


def is_datadep(p):
    return p is None or any(isinstance(a, tuple) for a in p.atoms())


def inner_dims(ty):
    """'double (*)[3]' -> [3]; 'double[3][3]' -> [3] (dims after the first); 'T *' -> []"""
    if ty is None:
        return []
    m = re.search(r"\(\*\)((?:\[\d+\])+)", ty)
    if m:
        return [int(x) for x in re.findall(r"\[(\d+)\]", m.group(1))]
    ds = re.findall(r"\[(\d*)\]", ty)
    if ds:
        return [int(x) for x in ds[1:] if x]
    return []


class Access(object):
    __slots__ = ("arr", "decl", "idx", "text", "rw", "line", "ranges", "guards", "critical", "ws", "own", "stmt",
                 "rtext", "facts")

    def __repr__(self):
        return "%s %s @%s idx=%r" % (self.rw, self.text, self.line, self.idx)


class Region(object):
    def __init__(self, func, omp, tus, parent_private=None):
        self.func = func
        self.omp = omp
        self.tus = tus
        self.kind = omp.name
        self.private = {}       # decl -> clause kind
        self.reduction = {}     # decl -> op
        self.local_decls = set()
        self.acc = []
        self.scalar_writes = []  # (E var, text, line, critical, ws)
        self.scalar_reads = []
        self.calls = []
        self.problems = []       # (rule, construct, why, line)
        self.notes = []
        self.ws_loops = []       # work-shared loops: dict(iv, start, bound, step, S)
        self.partition = None
        for ck, cargs, exprs in omp.clauses:
            if ck in ("private", "firstprivate", "lastprivate"):
                for x in exprs:
                    self.private[x.decl] = ck
            elif ck == "reduction":
                op = (cargs or "").split(":")[0].strip()
                for x in exprs:
                    self.reduction[x.decl] = op
            elif ck in ("shared", "schedule", "num_threads", "default", "if", "collapse", "nowait", "safelen", "simdlen"):
                if ck == "collapse":
                    raise AnalysisError("collapse clause not supported")
            else:
                raise AnalysisError("%s:%s unsupported OpenMP clause %s" % (func.file, omp.line, ck))

    # ------------------------------------------------------------------ index forms
    def form(self, e, env):
        """integer expression -> Poly (atoms: names, or tuples for data-dependent values)"""
        if e is None:
            return None
        k = e.k
        if k == "int":
            return Poly.const(e.val)
        if k == "var":
            if e.name in env:
                return env[e.name]
            consts = self.__dict__.get("_consts")
            if consts is None:
                # locals given one value outside every loop ( const int jlast = nf - 1; ) read as that value when the walk
                # starts below their definition
                try:
                    consts = cfront.scalar_defs(self.func, constants_only=True) if self.func is not None else {}
                except Exception:
                    consts = {}
                consts = {n: v for n, v in consts.items() if not any(x.k in ("idx", "member", "float", "cond") or (x.k == "un" and x.op in ("*", "&")) for x in cfront.ewalk(v))}
                self._consts = consts
            if e.name in consts and e.scope not in ("param",):
                d = consts.pop(e.name)     # guard against cycles while expanding
                try:
                    return self.form(d, env)
                finally:
                    consts[e.name] = d
            return Poly.atom(e.name)
        if k == "cast":
            if e.op in ("IntegralCast",) or (e.ty or "").strip() in ("int", "unsigned int", "long", "unsigned short", "short"):
                if e.op in ("FloatingToIntegral",):
                    return Poly.atom(("load", estr(e)))
                return self.form(e.a[0], env)
            return Poly.atom(("load", estr(e)))
        if k == "bin":
            a = self.form(e.a[0], env)
            b = self.form(e.a[1], env)
            if a is None or b is None:
                return None
            if e.op == "+":
                return a + b
            if e.op == "-":
                return a - b
            if e.op == "*":
                return a * b
            if e.op == "/":
                if b.is_const() and b.const_value() != 0 and a.is_const():
                    q = a.const_value() / b.const_value()
                    if q.denominator == 1:
                        return Poly.const(q)
                return Poly.atom(("div", a.key(), b.key()))
            return Poly.atom(("op", e.op, a.key(), b.key()))
        if k == "un" and e.op == "-":
            a = self.form(e.a[0], env)
            return None if a is None else -a
        if k in ("idx", "call", "member", "cond", "un", "float"):
            return Poly.atom(("load", estr(e)))
        return None

    def flat_index(self, e, env):
        """element access expression -> (base var E, flat index Poly); a local pointer bound to &A[e] / A + e is resolved to A"""
        v, idx = self._flat_index(e, env)
        if v is not None and ("ptr", v.name) in env:
            base, off = env[("ptr", v.name)]
            if idx is None or off is None:
                return base, None
            return base, idx + off
        return v, idx

    def pointer_target(self, rhs, env):
        """rhs of a pointer assignment -> (base var E, offset Poly) if it is &A[e], A + e, A (array / pointer variable), else None"""
        r = rhs
        while r is not None and r.k == "cast":
            r = r.a[0]
        if r is None:
            return None
        if r.k == "un" and r.op == "&" and r.a[0].k in ("idx", "un"):
            v, idx = self.flat_index(r.a[0], env)
            if v is not None and idx is not None:
                return v, idx
            return None
        if r.k == "bin" and r.op in ("+", "-") and r.a[0].ty and ("*" in r.a[0].ty or "[" in r.a[0].ty):
            b = r.a[0]
            while b.k == "cast":
                b = b.a[0]
            if b.k == "var":
                off = self.form(r.a[1], env)
                if off is None:
                    return None
                if r.op == "-":
                    off = -off
                if ("ptr", b.name) in env:
                    b0, o0 = env[("ptr", b.name)]
                    return b0, o0 + off
                return b, off
            if b.k in ("bin", "un", "idx"):
                # (A + e1) - e2, (&A[e1]) + e2, ... : resolve the inner pointer expression first
                t = self.pointer_target(b, env)
                off = self.form(r.a[1], env)
                if t is None or off is None:
                    return None
                return t[0], (t[1] - off) if r.op == "-" else (t[1] + off)
            return None
        if r.k == "idx" and r.ty and ("*" in r.ty or "[" in r.ty):
            # a row of a multi-dimensional array:  g = gv[k]  points at the first cell of row k
            v, subs = cfront.subscripts(r)
            if v is not None and len(subs) <= len(inner_dims(v.ty)):
                v, idx = self.flat_index(r, env)
                if v is not None and idx is not None:
                    return v, idx
            return None
        if r.k == "var" and r.ty and ("*" in r.ty or "[" in r.ty):
            if ("ptr", r.name) in env:
                return env[("ptr", r.name)]
            if r.scope in ("param",) or "[" in (r.ty or ""):
                return r, Poly.const(0)
        return None

    def bind_alias(self, name, ty, rhs, env):
        if not ty or "*" not in ty:
            return
        t = self.pointer_target(rhs, env) if rhs is not None else None
        if t is not None and t[0].name != name:
            env[("ptr", name)] = t
        else:
            env.pop(("ptr", name), None)

    def _flat_index(self, e, env):
        if e.k == "un" and e.op == "*":
            b = e.a[0]
            if b.k == "var":
                return b, Poly.const(0)
            if b.k == "bin" and b.op == "+" and b.a[0].k == "var":
                return b.a[0], self.form(b.a[1], env)
            return None, None
        v, subs = cfront.subscripts(e)
        if v is None:
            return None, None
        dims = inner_dims(v.ty)
        if len(subs) > len(dims) + 1:
            return v, None
        idx = Poly.const(0)
        # row-major flatten with the known inner extents
        ext = dims + [1]
        for n, sx in enumerate(subs):
            f = self.form(sx, env)
            if f is None:
                return v, None
            mult = 1
            for d in dims[n:]:
                mult *= d
            idx = idx + f.scale(mult)
        if len(subs) < len(dims) + 1:
            # partial subscript (a row): treated as the first cell of that row
            pass
        return v, idx

    # ------------------------------------------------------------------ walking
    def assigned_scalars(self, s):
        out = set()
        for st, x in cfront.all_exprs(s):
            if x.k == "asg" and x.a[0].k == "var":
                out.add(x.a[0].name)
            elif x.k == "incdec" and x.a[0].k == "var":
                out.add(x.a[0].name)
        for st in swalk(s):
            if st.k == "decl":
                out.add(st.var.name)
        return out

    def havoc(self, env, names):
        for n in names:
            env[n] = unk(n)
            env.pop(("ptr", n), None)

    def record_expr(self, e, env, ctx, stmt):
        """collect accesses in expression e, then apply scalar assignments to env"""
        if e is None:
            return
        W, R = [], []
        cfront.writes_reads(e, W, R)
        for rw, lst in (("r", R), ("w", W)):
            for x in lst:
                if x.k == "var":
                    if x.scope in ("func", "enum"):
                        continue
                    if rw == "w":
                        self.scalar_writes.append((x, estr_top(stmt_e(stmt, e)), x.line or ctx["line"], ctx["critical"], ctx["ws"]))
                    else:
                        self.scalar_reads.append((x, estr_top(stmt_e(stmt, e)), x.line or ctx["line"], ctx["critical"], ctx["ws"]))
                    continue
                if x.k == "member":
                    continue
                v, idx = self.flat_index(x, env)
                if v is None:
                    self.problems.append(("E2.form", estr(x), "access through an expression the analyser cannot resolve to array+index", x.line))
                    continue
                a = Access()
                a.arr = v.name
                a.decl = v.decl
                a.idx = idx
                a.text = estr(x)
                a.rw = rw
                a.line = x.line or ctx["line"]
                a.ranges = dict(ctx["ranges"])
                a.guards = list(ctx["guards"])
                a.critical = ctx["critical"]
                a.ws = ctx["ws"]
                a.own = None
                a.rtext = dict(ctx.get("rtext", {}))
                a.facts = None
                a.stmt = estr_top(stmt_e(stmt, e))
                self.acc.append(a)
        for x in ewalk(e):
            if x.k == "call":
                self.calls.append((x.name, x.line, ctx["critical"]))
        # env updates (top-level scalar assignments exact, nested ones havoc)
        self.apply_assign(e, env, ctx, top=True)

    def apply_assign(self, e, env, ctx, top):
        if e is None:
            return
        if e.k == "asg" and e.a[0].k == "var":
            name = e.a[0].name
            self.drop_guards(ctx, name)
            if e.op == "=":
                self.bind_alias(name, e.a[0].ty, e.a[1] if top else None, env)
            elif e.op in ("+=", "-=") and top and ("ptr", name) in env and e.a[0].ty and "*" in e.a[0].ty:
                # a walking pointer: p += c keeps pointing into the same array, c cells further
                d = self.form(e.a[1], env)
                b0, o0 = env[("ptr", name)]
                if d is not None and o0 is not None:
                    env[("ptr", name)] = (b0, o0 + d if e.op == "+=" else o0 - d)
                else:
                    env.pop(("ptr", name), None)
            else:
                env.pop(("ptr", name), None)
            if top:
                rhs = self.form(e.a[1], env)
                if e.op == "=":
                    env[name] = rhs if rhs is not None else unk(name)
                elif e.op in ("+=", "-=") and rhs is not None:
                    cur = env.get(name, Poly.atom(name))
                    env[name] = cur + rhs if e.op == "+=" else cur - rhs
                else:
                    env[name] = unk(name)
            else:
                env[name] = unk(name)
            self.apply_assign(e.a[1], env, ctx, False)
            return
        if e.k == "incdec" and e.a[0].k == "var":
            name = e.a[0].name
            self.drop_guards(ctx, name)
            cur = env.get(name, Poly.atom(name))
            env[name] = cur + (1 if e.op == "++" else -1) if top else unk(name)
            if ("ptr", name) in env:
                b0, o0 = env[("ptr", name)]
                if top and o0 is not None:
                    env[("ptr", name)] = (b0, o0 + (1 if e.op == "++" else -1))
                else:
                    env.pop(("ptr", name), None)
            return
        for x in e.a:
            if isinstance(x, E):
                self.apply_assign(x, env, ctx, False)

    def drop_guards(self, ctx, name):
        ctx["guards"][:] = [g for g in ctx["guards"] if name not in g[2]]

    def walk(self, s, env, ctx):
        if s is None:
            return
        k = s.k
        if k in ("block", "multi"):
            for x in s.body:
                self.walk(x, env, ctx)
                if x.k == "if" and x.els is None and _escapes(x.then) and not cfront.is_zero_lit(x.cond):
                    # 'if (c) continue;' : the rest of the block runs only when c is false
                    ctx = dict(ctx, guards=ctx["guards"] + conj(x.cond, False))
                if (x.k == "while" or (x.k == "for" and loop_header(x) is None)) and x.cond is not None and not _has_own_break(x.body):
                    # normal exit of 'while (c)' / 'for (..; c; ..)' : c is false
                    ctx = dict(ctx, guards=ctx["guards"] + conj(x.cond, False))
        elif k == "decl":
            self.local_decls.add(s.var.decl)
            if s.init is not None:
                self.record_expr(s.init, env, ctx, s)
                f = self.form(s.init, env)
                env[s.var.name] = f if f is not None else unk(s.var.name)
                self.bind_alias(s.var.name, s.var.ty, s.init, env)
            else:
                env[s.var.name] = unk(s.var.name)
                env.pop(("ptr", s.var.name), None)
        elif k == "expr":
            self.record_expr(s.e, env, ctx, s)
        elif k == "return":
            self.problems.append(("E2.struct", "return", "return inside an OpenMP region", s.line))
        elif k == "if":
            self.record_expr(s.cond, env, ctx, s)
            if cfront.is_zero_lit(s.cond):
                if s.els is not None:
                    self.walk(s.els, env, ctx)
                return
            names = frozenset(x.name for x in ewalk(s.cond) if x.k == "var")
            e1 = dict(env)
            c1 = dict(ctx, guards=ctx["guards"] + conj(s.cond, True))
            self.walk(s.then, e1, c1)
            e2 = dict(env)
            if s.els is not None:
                c2 = dict(ctx, guards=ctx["guards"] + conj(s.cond, False))
                self.walk(s.els, e2, c2)
            for n in set(e1) | set(e2):
                if isinstance(n, tuple):   # local pointer alias: kept only when both branches agree
                    if e1.get(n) == e2.get(n) and e1.get(n) is not None:
                        env[n] = e1[n]
                    else:
                        env.pop(n, None)
                    continue
                if e1.get(n) != e2.get(n):
                    env[n] = unk(n)
                    self.drop_guards(ctx, n)
                else:
                    env[n] = e1[n]
        elif k == "for":
            self.loop(s, env, ctx)
        elif k in ("while", "do"):
            names = self.assigned_scalars(s)
            self.havoc(env, names)
            for n in names:
                self.drop_guards(ctx, n)
            c1 = dict(ctx, guards=list(ctx["guards"]))
            if k == "while":
                self.record_expr(s.cond, env, c1, s)
                c1["guards"] = c1["guards"] + conj(s.cond, True)
            self.walk(s.body, env, c1)
            if k == "do":
                self.record_expr(s.cond, env, c1, s)
            self.havoc(env, names)
        elif k in ("break", "continue", "null"):
            pass
        elif k == "omp":
            self.nested(s, env, ctx)
        elif k in ("goto", "label"):
            self.problems.append(("E2.struct", k, "goto/label inside an OpenMP region", s.line))
        else:
            raise AnalysisError("omp: unsupported statement %s" % k)

    def loop(self, s, env, ctx, ws=None):
        hdr = loop_header(s)
        names = self.assigned_scalars(s.body) | (self.assigned_scalars(S("expr", e=s.inc)) if s.inc is not None else set())
        if s.init is not None:
            self.walk(s.init, env, ctx)
        if hdr is None:
            if ws is not None:
                raise AnalysisError("%s:%s work-shared loop header is not canonical" % (self.func.file, s.line))
            self.havoc(env, names)
            for n in names:
                self.drop_guards(ctx, n)
            c1 = dict(ctx, guards=list(ctx["guards"]))
            if s.cond is not None:
                self.record_expr(s.cond, env, c1, s)
            self.walk(s.body, env, c1)
            if s.inc is not None:
                self.record_expr(s.inc, env, c1, s)
            self.havoc(env, names)
            return
        iv, start, bound, step, direction, incl = hdr
        lo = self.form(start, env)
        bd = self.form(bound, env)
        self.havoc(env, names - {iv})
        for n in names:
            self.drop_guards(ctx, n)
        env[iv] = Poly.atom(iv)
        rng = None
        if lo is not None and bd is not None:
            if direction > 0:
                rng = (lo, bd if incl else bd - 1)
            else:
                rng = (bd if incl else bd + 1, lo)
        c1 = dict(ctx, ranges=dict(ctx["ranges"]), guards=list(ctx["guards"]), rtext=dict(ctx.get("rtext", {})))
        c1["ranges"][iv] = rng
        c1["rtext"][iv] = (estr(start), estr(bound), direction, incl)
        if ws is not None:
            c1["ws"] = ws
            ws.update(iv=iv, lo=lo, bound=bd, step=step, direction=direction, rng=rng, stmt=s)
        # the condition and increment read/write the iv: private by construction
        self.walk(s.body, env, c1)
        self.havoc(env, names | {iv})

    sequential = False

    def nested(self, s, env, ctx):
        name = s.name
        if self.sequential:
            # whole-function sequential view (coverage / bounds): directives are transparent
            self.walk(s.body, env, ctx)
            return
        if name == "simd":
            # inner simd loop: sequential inner loop of the enclosing iteration
            self.walk(s.body, env, ctx)
            return
        if name == "critical":
            c1 = dict(ctx, critical=True)
            self.walk(s.body, env, c1)
            return
        if name in ("for", "for simd"):
            sub = Region(self.func, s, self.tus)
            self.private.update(sub.private)
            self.reduction.update(sub.reduction)
            ws = dict(directive=s, kind=name)
            self.ws_loops.append(ws)
            body = s.body
            if body.k != "for":
                raise AnalysisError("omp for without a for statement")
            self.loop(body, env, ctx, ws=ws)
            return
        raise AnalysisError("%s:%s nested OpenMP directive '%s' not supported" % (self.func.file, s.line, name))

    # ------------------------------------------------------------------ analysis entry
    def analyse(self):
        env = {}
        ctx = dict(ranges={}, guards=[], critical=False, ws=None, line=self.omp.line)
        # values of scalars at region entry are symbolic names (params / earlier locals)
        if "for" in self.kind.split():
            body = self.omp.body
            if body.k != "for":
                raise AnalysisError("%s:%s '%s' not followed by a for loop" % (self.func.file, self.omp.line, self.kind))
            ws = dict(directive=self.omp, kind=self.kind)
            self.ws_loops.append(ws)
            # init statement evaluated outside: iv private by construction
            self.loop(body, env, ctx, ws=ws)
            self.private.setdefault(self._decl_of(ws["iv"]), "iv")
        elif self.kind == "parallel":
            self.find_partition()
            self.walk(self.omp.body, env, ctx)
            for ws in self.ws_loops:
                self.private.setdefault(self._decl_of(ws["iv"]), "iv")
        else:
            raise AnalysisError("directive kind '%s' is not a region entry" % self.kind)
        self.check_scalars()
        self.check_arrays()
        return self

    def _decl_of(self, name):
        for d, v in self.func.locals.items():
            if v.name == name:
                return d
        for p in self.func.params:
            if p.name == name:
                return p.decl
        return name

    # ------------------------------------------------------------------ S1
    def check_scalars(self):
        for v, text, line, crit, ws in self.scalar_writes:
            if v.decl in self.private or v.decl in self.local_decls:
                continue
            if v.decl in self.reduction:
                continue
            if crit:
                continue
            if v.scope in ("local", "param", "global", "static"):
                self.problems.append(("S1", text, "scalar '%s' is written inside the region but is neither private, "
                                      "reduction, region-local nor inside critical: every thread writes the same "
                                      "variable" % v.name, line))
        # reduction variables only through their operator
        for d, op in self.reduction.items():
            for st, x in cfront.all_exprs(self.omp.body):
                pass
        self.check_reduction_usage()

    def check_reduction_usage(self):
        if not self.reduction:
            return
        names = {}
        for d in self.reduction:
            for dd, v in list(self.func.locals.items()) + [(p.decl, p) for p in self.func.params]:
                if dd == d:
                    names[v.name] = (d, self.reduction[d])

        def ok_use(e, name, op):
            # e is a statement expression; allowed: name++ / name += x / name = name + x, x free of name
            def free(x):
                return all(not (y.k == "var" and y.name == name) for y in ewalk(x))
            if e.k == "incdec" and e.a[0].k == "var" and e.a[0].name == name:
                return op == "+"
            if e.k == "asg" and e.a[0].k == "var" and e.a[0].name == name:
                if e.op == op + "=" and free(e.a[1]):
                    return True
                if e.op == "=" and e.a[1].k == "bin" and e.a[1].op == op:
                    l, r = e.a[1].a
                    if l.k == "var" and l.name == name and free(r):
                        return True
                    if r.k == "var" and r.name == name and free(l) and op in ("+", "*"):
                        return True
            return False
        for st in swalk(self.omp.body):
            if st.k == "omp" and st.name == "critical":
                continue
            for e in cfront.stmt_exprs(st):
                for name, (d, op) in names.items():
                    uses = [y for y in ewalk(e) if y.k == "var" and y.name == name]
                    if not uses:
                        continue
                    # find the sub-expressions that are statements-level updates
                    good = False
                    if st.k == "expr" and ok_use(e, name, op):
                        good = True
                    if not good:
                        self.problems.append(("S1", estr_top(e), "reduction variable '%s' is used other than through "
                                              "its reduction operator '%s'" % (name, op), e.line or st.line))

    # ------------------------------------------------------------------ partition (S5)
    def find_partition(self):
        """lo = F(tid), hi = F(tid+1) with tid = omp_get_thread_num()"""
        tid = None
        nt = None
        assigns = {}
        for st in swalk(self.omp.body):
            if st.k == "expr" and st.e.k == "asg" and st.e.op == "=" and st.e.a[0].k == "var":
                name = st.e.a[0].name
                rhs = st.e.a[1]
                if rhs.k == "call" and rhs.name == "omp_get_thread_num":
                    tid = name
                elif rhs.k == "call" and rhs.name == "omp_get_num_threads":
                    nt = name
                else:
                    assigns.setdefault(name, []).append(rhs)
        if tid is None or nt is None:
            return
        cands = {}
        for name, rl in assigns.items():
            if len(rl) != 1:
                continue
            r = rl[0]
            # integer width casts do not change which cells a thread owns: (int)(((int64_t)N * tid) / nt)
            while r.k == "cast":
                r = r.a[0]
            den = r.a[1] if r.k == "bin" and r.op == "/" else None
            while den is not None and den.k == "cast":
                den = den.a[0]
            # N * tid / nt    or   N * (tid + 1) / nt
            if r.k == "bin" and r.op == "/" and den.k == "var" and den.name == nt:
                num = self.form(r.a[0], {})
                if num is None:
                    continue
                cands[name] = num
        lo = hi = None
        for a, b in itertools.permutations(cands, 2):
            pa, pb = cands[a], cands[b]
            if pa.degree_in(tid) == 1 and pb == pa.subs({tid: Poly.atom(tid) + 1}):
                base = pa.coeff(tid, 1)
                if pa.without(tid).is_zero() and not (tid in base.atoms()):
                    lo, hi = a, b
        if lo:
            self.partition = dict(lo=lo, hi=hi, tid=tid, nt=nt)

    # ------------------------------------------------------------------ S2/S3/S4/S5
    def bounds_of(self, a, iv):
        """index poly of access a -> (c, L, H, facts): idx in [c*iv + L, c*iv + H] over inner loop ranges;
        facts = polynomials known >= 0 whenever the access executes (its enclosing loop ranges are non-empty).
        returns None if not affine-decidable"""
        p = a.idx
        if p is None or is_datadep(p):
            return None
        lo = hi = p
        facts = []
        for n in a.ranges:
            rng = a.ranges[n]
            if rng is not None and not is_datadep(rng[0]) and not is_datadep(rng[1]):
                facts.append(rng[1] - rng[0])
        # substitute inner loop variables, innermost first (ranges may depend on outer ones)
        for n in reversed(list(a.ranges)):
            if n == iv:
                continue
            if n not in lo.atoms() and n not in hi.atoms():
                continue
            rng = a.ranges[n]
            if rng is None:
                return None
            rlo, rhi = rng
            if is_datadep(rlo) or is_datadep(rhi):
                return None
            out = []
            for q, want_hi in ((lo, False), (hi, True)):
                if q.degree_in(n) > 1:
                    return None
                cf = q.coeff(n, 1)
                rest = q.without(n)
                sg = sign_of(cf)
                if sg is None:
                    return None
                if sg == 0:
                    out.append(rest)
                elif (sg > 0) == want_hi:
                    out.append(rest + cf * rhi)
                else:
                    out.append(rest + cf * rlo)
            lo, hi = out
        for q in (lo, hi):
            if is_datadep(q) or q.degree_in(iv) > 1:
                return None
        c1, c2 = lo.coeff(iv, 1), hi.coeff(iv, 1)
        if c1 != c2:
            return None
        if iv in c1.atoms():
            return None
        return c1, lo.without(iv), hi.without(iv), facts

    def check_arrays(self):
        byarr = {}
        for a in self.acc:
            byarr.setdefault(a.decl, []).append(a)
        for decl, accs in byarr.items():
            writes = [a for a in accs if a.rw == "w" and not a.critical]
            if not writes:
                continue
            name = accs[0].arr
            if decl in self.private or decl in self.local_decls:
                continue     # private array: each thread has its own
            reads = [a for a in accs if a.rw == "r" and not a.critical]
            ws_set = set(id(a.ws) for a in writes + reads if a.ws is not None)
            outside = [a for a in writes + reads if a.ws is None]
            if outside and "for" not in self.kind.split():
                self.check_partition(name, [a for a in writes if a.ws is None], [a for a in reads if a.ws is None])
            for ws in self.ws_loops:
                w = [a for a in writes if a.ws is ws]
                r = [a for a in reads if a.ws is ws]
                if w:
                    self.check_ws_array(name, ws, w, r)
            if len(ws_set) > 1:
                self.notes.append("array %s accessed in %d work-shared loops of one region (barrier between them assumed)" % (name, len(ws_set)))

    def check_ws_array(self, name, ws, writes, reads):
        iv = ws["iv"]
        step = ws["step"]
        fn = self.func.name
        forms = []
        dd = []
        for a in writes:
            b = self.bounds_of(a, iv)
            if b is None:
                dd.append(a)
            else:
                forms.append((a, b))
        if dd:
            if (fn, name) in S4_TABLE:
                self.notes.append("S4 table: %s.%s data-dependent write accepted: %s" % (fn, name, S4_TABLE[(fn, name)]))
                for a in dd:
                    a.own = "S4-table"
            elif self.prefix_sum_idiom(name, ws, dd):
                self.notes.append("S4 idiom: %s.%s count/prefix-sum/fill verified" % (fn, name))
                for a in dd:
                    a.own = "S4-idiom"
            else:
                for a in dd:
                    self.problems.append(("S4", a.stmt, "write to shared array '%s' at an index that is not an affine "
                                          "function of the work-shared variable '%s' (data-dependent or not decidable): "
                                          "two iterations may write the same cell" % (name, iv), a.line))
            for a in reads:
                if self.bounds_of(a, iv) is None or forms:
                    pass
            if not forms:
                for a in reads:
                    self.problems.append(("S3", a.stmt, "read of '%s', which this region writes at data-dependent "
                                          "indices" % name, a.line))
                return
        if not forms:
            return
        c = forms[0][1][0]
        for a, b in forms:
            if b[0] != c:
                self.problems.append(("S2", a.stmt, "writes to '%s' use different strides in '%s' (%r vs %r)" % (name, iv, b[0], c), a.line))
                return
        if c.is_zero():
            a = forms[0][0]
            self.problems.append(("S2", a.stmt, "write to shared '%s' at an index that does not depend on the work-shared "
                                  "variable '%s': every iteration writes the same cell" % (name, iv), a.line))
            return
        stride = c * step
        sgn = sign_of(stride)
        if sgn is None:
            raise AnalysisError("%s:%s sign of stride %r unknown" % (self.func.file, self.omp.line, stride))
        astride = stride if sgn > 0 else -stride
        bad = False
        for (a1, b1), (a2, b2) in itertools.combinations_with_replacement(forms, 2):
            if not no_conflict(b1[1], b1[2], b2[1], b2[2], astride, b1[3] + b2[3]):
                bad = True
                self.problems.append(("S2", a1.stmt, "writes '%s' (offsets [%r,%r]) and '%s' (offsets [%r,%r]) of different "
                                      "iterations of '%s' can hit the same cell of '%s': iterations are %r apart"
                                      % (a1.text, b1[1], b1[2], a2.text, b2[1], b2[2], iv, name, astride), a1.line))
                break
        if bad:
            return
        for a, b in forms:
            a.own = "S2"
        # S3 reads
        for a in reads:
            b = self.bounds_of(a, iv)
            if b is None:
                self.problems.append(("S3", a.stmt, "read of '%s', which this region writes, at a data-dependent index: may "
                                      "observe another iteration's write" % name, a.line))
                continue
            if b[0] != c:
                self.problems.append(("S3", a.stmt, "read %s strides differently from the writes of '%s'" % (a.text, name), a.line))
                continue
            ok = True
            for aw, bw in forms:
                if not no_conflict(bw[1], bw[2], b[1], b[2], astride, bw[3] + b[3]):
                    ok = False
                    self.problems.append(("S3", a.stmt, "read %s (offsets [%r,%r]) can touch a cell that a different iteration of "
                                          "'%s' writes through %s (offsets [%r,%r], iterations %r apart)"
                                          % (a.text, b[1], b[2], iv, aw.text, bw[1], bw[2], astride), a.line))
                    break
            if ok:
                a.own = "S3"

    def prefix_sum_idiom(self, name, ws, dd):
        """count / prefix-sum / fill (mask_to_coo).  In the fill pass (this work-shared loop over iv):
          a. every data-dependent store is A[V] with one private scalar V
          b. V is assigned only by 'V = 0', 'V = cum[iv-1]' and exactly one 'V++'
          c. the stores and the V++ sit in the same 'if (P)' block, stores before the increment
          d. an earlier loop over the same iv range zeroes cum[iv2] and does cum[iv2]++ under the same
             predicate P (up to renaming the induction variables) inside an inner loop with the same header
          e. a sequential 'for (k=1;k<N;k++) cum[k] += cum[k-1]' lies between the two
          f. no array read by P, nor cum, is written between (d) and the fill pass other than by (d),(e)
        Then iteration iv writes exactly cells [cum[iv-1], cum[iv]) which are disjoint across iv."""
        iv = ws["iv"]
        loop = ws["stmt"]
        body = loop.body
        V = None
        for a in dd:
            m = re.match(r"^%s\[(\w+)\]$" % re.escape(name), a.text)
            if not m:
                return False
            if V is not None and V != m.group(1):
                return False
            V = m.group(1)
        vdecl = self._decl_of(V)
        if vdecl not in self.private and vdecl not in self.local_decls:
            return False
        asg = [x for st, x in cfront.all_exprs(body)
               if (x.k in ("asg", "incdec")) and x.a[0].k == "var" and x.a[0].name == V]
        inits = [x for x in asg if x.k == "asg" and x.op == "="]
        incs = [x for x in asg if x.k == "incdec" and x.op == "++"]
        if len(inits) + len(incs) != len(asg) or not inits or len(incs) != 1:
            return False
        cum = None
        arms = []
        for x in inits:
            r = x.a[1]
            while r.k == "cast":
                r = r.a[0]
            if r.k == "cond":
                # V = (iv == 0) ? 0 : cum[iv - 1]   is the expression form of the if / else initialisation
                t = estr(r.a[0]).replace(" ", "")
                first, rest = (r.a[1], r.a[2]) if t in ("(%s==0)" % iv, "(0==%s)" % iv, "(%s<1)" % iv, "(%s<=0)" % iv) else \
                    ((r.a[2], r.a[1]) if t in ("(%s!=0)" % iv, "(%s>0)" % iv, "(%s>=1)" % iv, "(0!=%s)" % iv, "(0<%s)" % iv, iv) else (None, None))
                if first is None or not (first.k == "int" and first.val == 0) or (rest.k == "int"):
                    return False
                arms.append(rest)
            else:
                arms.append(r)
        for r in arms:
            while r.k == "cast":
                r = r.a[0]
            if r.k == "int" and r.val == 0:
                continue
            if r.k == "idx" and r.a[0].k == "var" and estr(r.a[1]) == "(%s - 1)" % iv:
                cum = r.a[0].name
                continue
            return False
        if cum is None:
            return False
        # c. innermost if-block containing the increment
        blk = None
        for st in swalk(body):
            if st.k == "if":
                inner = [s2 for s2 in swalk(st.then)]
                if any(s2.k == "expr" and s2.e is incs[0] for s2 in inner):
                    blk = st      # later (deeper) matches overwrite earlier ones: pre-order walk
        if blk is None or blk.els is not None:
            return False
        stmts = blk.then.body if blk.then.k == "block" else [blk.then]
        texts = [estr(s2.e) for s2 in stmts if s2.k == "expr"]
        if len(texts) != len(stmts):
            return False
        inc_pos = [n for n, s2 in enumerate(stmts) if s2.e is incs[0]]
        if not inc_pos:
            return False
        for a in dd:
            pos = [n for n, s2 in enumerate(stmts) if estr_top(s2.e) == a.stmt]
            if not pos or max(pos) > inc_pos[0]:
                return False
        # inner loop header that contains blk
        inner_fill = None
        for st in swalk(body):
            if st.k == "for" and any(s2 is blk for s2 in swalk(st.body)):
                inner_fill = st
        if inner_fill is None:
            return False
        ih = loop_header(inner_fill)
        oh = loop_header(loop)
        if ih is None or oh is None:
            return False

        def ren(t, a, b, c, d):
            return re.sub(r"\b%s\b" % re.escape(a), "@O", re.sub(r"\b%s\b" % re.escape(c), "@I", t))
        pred = ren(estr(blk.cond), iv, None, ih[0], None)
        pred_arrays = set(x.a[0].name for x in ewalk(blk.cond) if x.k == "idx" and x.a[0].k == "var")
        found_count = None
        found_prefix = None
        for st in swalk(self.func.body):
            if st.k == "for" and st is not loop and st.line < loop.line:
                h = loop_header(st)
                if h is None:
                    continue
                # e. prefix sum
                if h[1].k == "int" and h[1].val == 1 and estr(h[2]) == estr(oh[2]) and h[3] == 1:
                    bs = st.body.body if st.body.k == "block" else [st.body]
                    if len(bs) == 1 and bs[0].k == "expr":
                        e = bs[0].e
                        if e.k == "asg" and e.op == "+=" and estr(e.a[0]) == "%s[%s]" % (cum, h[0]) and \
                                e.a[1].k == "idx" and estr(e.a[1].a[0]) == cum and estr(e.a[1].a[1]) == "(%s - 1)" % h[0]:
                            found_prefix = st
                # d. counting pass
                if estr(h[1]) == estr(oh[1]) and estr(h[2]) == estr(oh[2]) and h[3] == oh[3]:
                    zero = False
                    cnt = False
                    bs = st.body.body if st.body.k == "block" else [st.body]
                    for s2 in bs:
                        if s2.k == "expr" and estr(s2.e) == "%s[%s] = 0" % (cum, h[0]):
                            zero = True
                        if s2.k == "for" and zero:
                            h2 = loop_header(s2)
                            if h2 is None or estr(h2[1]) != estr(ih[1]) or estr(h2[2]) != estr(ih[2]) or h2[3] != ih[3]:
                                continue
                            b2 = s2.body.body if s2.body.k == "block" else [s2.body]
                            for s3 in b2:
                                if s3.k == "if" and s3.els is None and ren(estr(s3.cond), h[0], None, h2[0], None) == pred:
                                    t3 = s3.then.body if s3.then.k == "block" else [s3.then]
                                    if len(t3) == 1 and t3[0].k == "expr" and estr(t3[0].e) == "%s[%s]++" % (cum, h[0]):
                                        cnt = True
                    if zero and cnt:
                        found_count = st
        if found_count is None or found_prefix is None or not (found_count.line < found_prefix.line < loop.line):
            return False
        # f. nothing else writes cum or the predicate's arrays from the counting pass to the end of the fill pass
        for st, x in cfront.all_exprs(self.func.body):
            if x.k in ("asg", "incdec"):
                bv = cfront.base_var(x.a[0])
                if bv is not None and x.a[0].k != "var" and (bv.name == cum or bv.name in pred_arrays):
                    ln = x.line or st.line
                    inside = any(x is y for s2, y in cfront.all_exprs(found_count)) or \
                        any(x is y for s2, y in cfront.all_exprs(found_prefix))
                    if not inside and ln >= found_count.line:
                        return False
        return True

    def check_partition(self, name, writes, reads):
        """S5 / S6 for accesses outside work-shared loops in a bare parallel region"""
        if not writes:
            return
        part = self.partition
        if part is None:
            for a in writes:
                self.problems.append(("S5", a.stmt, "write to shared '%s' in a bare parallel region with no recognised "
                                      "thread partition" % name, a.line))
            return
        lo, hi = part["lo"], part["hi"]

        def own(a):
            # index is exactly a loop variable ranging over [lo,hi), or a variable guarded by (x>=lo)&&(x<hi)
            p = a.idx
            if p is None:
                return False
            at = [x for x in p.atoms()]
            if len(at) != 1 or not isinstance(at[0], str) or p != Poly.atom(at[0]):
                # maybe env-expanded; use the textual index
                pass
            m = re.match(r"^%s\[(\w+)\]$" % re.escape(name), a.text)
            if not m:
                return False
            x = m.group(1)
            rt = a.rtext.get(x)
            if rt is not None and rt[0] == lo and rt[1] == hi and rt[2] > 0 and not rt[3]:
                return True
            g = set((gt, pol) for gt, pol, names in a.guards)
            if ("(%s >= %s)" % (x, lo), True) in g and ("(%s < %s)" % (x, hi), True) in g:
                return True
            return False
        bad = False
        for a in writes:
            if own(a):
                a.own = "S5"
            else:
                bad = True
                self.problems.append(("S5", a.stmt, "write %s is not confined to the thread's own partition [%s,%s)" % (a.text, lo, hi), a.line))
        if bad:
            return
        # reads: own partition, or S6 predicate-partitioned
        foreign = [a for a in reads if not own(a)]
        if not foreign:
            return
        if self.s6(name, writes, reads):
            return
        # an index recovered from a walking pointer (q = (int)(p - base)) carries the pointer's guards (while (*p)), which this
        # analysis does not translate into conditions on base[q]: it cannot tell a predicate partition from a race then
        for a in foreign:
            m_ = re.match(r"^%s\[(\w+)\]$" % re.escape(name), a.text)
            if m_:
                for st_, x_ in cfront.all_exprs(self.omp.body):
                    if x_.k == "asg" and x_.op == "=" and x_.a[0].k == "var" and x_.a[0].name == m_.group(1):
                        rhs = x_.a[1]
                        while rhs.k == "cast":
                            rhs = rhs.a[0]
                        if rhs.k == "bin" and rhs.op == "-" and all("*" in (y.ty or "") for y in rhs.a):
                            raise AnalysisError("%s:%s the index %s of the read %s is recovered from a walking pointer (%s): the guards of the walk are "
                                                "not translated into conditions on the array, the partition of '%s' cannot be decided"
                                                % (self.func.file, a.line, m_.group(1), a.text, estr(x_), name))
        for a in foreign:
            self.problems.append(("S5", "read %s in '%s'" % (a.text, a.stmt), "thread reads '%s' outside its own partition [%s,%s) "
                                  "while the owning thread may be writing that cell in this region (result depends on "
                                  "interleaving)" % (name, lo, hi), a.line))

    def s6(self, name, writes, reads):
        """every write a[x] dominated by P(x); every foreign read a[y] dominated by not P(y); P over arrays
        never written in the region"""
        written = set(a.arr for a in self.acc if a.rw == "w")

        def preds(a):
            m = re.match(r"^%s\[(.+)\]$" % re.escape(name), a.text)
            if not m:
                return None
            x = m.group(1)
            out = set()
            for gt, pol, names in a.guards:
                arrs = set(re.findall(r"(\w+)\[", gt))
                if arrs & written:
                    continue
                if x in gt:
                    out.add((gt.replace(x, "@"), pol))
            return out
        wp = None
        for a in writes:
            p = preds(a)
            if not p:
                return False
            wp = p if wp is None else (wp & p)
        if not wp:
            return False
        for a in reads:
            p = preds(a)
            if p is None:
                return False
            if not any((gt, not pol) in p for gt, pol in wp):
                # reads at the same index as an own write are fine too
                return False
        return True


def stmt_e(stmt, e):
    return e


def _has_own_break(s):
    """a break that leaves the loop whose body is s (not one of a nested loop)"""
    if s is None:
        return False
    if s.k == "break":
        return True
    if s.k in ("for", "while", "do"):
        return False
    if s.k == "goto":
        return True
    for c in _children(s):
        if _has_own_break(c):
            return True
    return False


def _escapes(s):
    """statement always leaves the enclosing block (continue / break / return / goto as last statement)"""
    if s is None:
        return False
    if s.k in ("continue", "break", "return", "goto"):
        return True
    if s.k == "block" and s.body:
        return _escapes(s.body[-1])
    return False


def conj(cond, pol):
    """condition -> list of (text, polarity, names) guards implied on that branch"""
    out = []
    if cond is None:
        return out
    if cond.k == "bin" and cond.op == "&&" and pol:
        return conj(cond.a[0], True) + conj(cond.a[1], True)
    if cond.k == "bin" and cond.op == "||" and not pol:
        return conj(cond.a[0], False) + conj(cond.a[1], False)
    if cond.k == "un" and cond.op == "!":
        return conj(cond.a[0], not pol)
    names = frozenset(x.name for x in ewalk(cond) if x.k == "var")
    # truthiness normal form: (X == 0) is 'not X', (X != 0) is 'X'
    c = cond
    while c.k == "cast":
        c = c.a[0]
    if c.k == "bin" and c.op in ("==", "!=") and ((c.a[1].k == "int" and c.a[1].val == 0) or (c.a[0].k == "int" and c.a[0].val == 0)):
        inner = c.a[0] if c.a[1].k == "int" else c.a[1]
        while inner.k == "cast":
            inner = inner.a[0]
        out.append((estr(inner), pol if c.op == "!=" else (not pol), names))
        return out
    out.append((estr(c), pol, names))
    return out


def loop_header(s, extra_updates=False):
    """-> (iv, start E, bound E, step int|Poly, direction, inclusive) or None.
    for (v = a; v < b; v++ / v += c / v = v + c) ; for (v = a; v >= b; v--)
    extra_updates: the increment may be a comma list 'v++, p++, q += c' whose other members update other variables (the caller
    accounts for them: they run at the end of every iteration)"""
    if s.k != "for" or s.cond is None or s.inc is None or s.init is None:
        return None
    if extra_updates and s.inc.k == "bin" and s.inc.op == ",":
        parts = []

        def commas(e):
            if e.k == "bin" and e.op == ",":
                commas(e.a[0])
                commas(e.a[1])
            else:
                parts.append(e)
        commas(s.inc)
        ivn = None
        if s.init.k == "expr" and s.init.e.k == "asg" and s.init.e.a[0].k == "var":
            ivn = s.init.e.a[0].name
        elif s.init.k == "decl":
            ivn = s.init.var.name
        mine = [e for e in parts if e.k in ("asg", "incdec") and e.a[0].k == "var" and e.a[0].name == ivn]
        rest = [e for e in parts if e not in mine]
        if len(mine) == 1 and all(e.k in ("asg", "incdec") and e.a[0].k == "var" and
                                  not any(x.k == "var" and x.name == e.a[0].name for x in ewalk(s.cond)) for e in rest):
            s2 = S("for", init=s.init, cond=s.cond, inc=mine[0], body=s.body, line=s.line)
            return loop_header(s2)
        return None
    init = s.init
    if init.k == "expr" and init.e.k == "asg" and init.e.op == "=" and init.e.a[0].k == "var":
        name = init.e.a[0].name
        start = init.e.a[1]
    elif init.k == "decl" and init.init is not None:
        name = init.var.name
        start = init.init
    else:
        return None
    c = s.cond
    if not (c.k == "bin" and c.op in ("<", "<=", ">", ">=") and c.a[0].k == "var" and c.a[0].name == name):
        return None
    bound = c.a[1]
    if any(x.k == "var" and x.name == name for x in ewalk(bound)):
        return None
    inc = s.inc
    step = None
    if inc.k == "incdec" and inc.a[0].k == "var" and inc.a[0].name == name:
        step = 1 if inc.op == "++" else -1
    elif inc.k == "asg" and inc.a[0].k == "var" and inc.a[0].name == name and inc.op in ("+=", "-="):
        st = _const_or_var(inc.a[1])
        if st is None:
            return None
        step = st if inc.op == "+=" else -st
    elif inc.k == "asg" and inc.op == "=" and inc.a[0].k == "var" and inc.a[0].name == name and \
            inc.a[1].k == "bin" and inc.a[1].op in ("+", "-") and inc.a[1].a[0].k == "var" and inc.a[1].a[0].name == name:
        st = _const_or_var(inc.a[1].a[1])
        if st is None:
            return None
        step = st if inc.a[1].op == "+" else -st
    else:
        return None
    if isinstance(step, int):
        direction = 1 if step > 0 else -1
    else:
        direction = 1    # symbolic steps are extents (dim1): positive by the kernels' preconditions
    if direction > 0 and c.op not in ("<", "<="):
        return None
    if direction < 0 and c.op not in (">", ">="):
        return None
    return (name, start, bound, step, direction, c.op in ("<=", ">="))


def _const_or_var(e):
    if e.k == "int":
        return e.val
    if e.k == "var":
        return Poly.atom(e.name)
    return None


# ---------------------------------------------------------------------------------------------
# tiny comparison oracle: parameters that are array extents are positive integers
def sign_of(p):
    """+1 / -1 / 0 / None for a polynomial whose atoms are positive integers"""
    if isinstance(p, int):
        return (p > 0) - (p < 0)
    if p.is_zero():
        return 0
    if is_datadep(p):
        return None
    vals = list(p.t.values())
    if all(v > 0 for v in vals):
        return 1
    if all(v < 0 for v in vals):
        return -1
    return None


def lower_bounds(facts):
    """facts: polys known >= 0.  Single-atom linear facts a*x + c >= 0 (a>0) give x >= ceil(-c/a).
    Default lower bound of every atom is 1: atoms are array extents / counts that f2py passes from
    non-empty arrays (stated as an assumption in the evidence)."""
    import math
    lb = {}
    for f in facts or ():
        if is_datadep(f):
            continue
        at = list(f.atoms())
        if len(at) != 1:
            continue
        x = at[0]
        if f.degree_in(x) != 1:
            continue
        a = f.coeff(x, 1)
        if not a.is_const() or a.const_value() <= 0:
            continue
        c = f.without(x).const_value()
        b = math.ceil(-c / a.const_value())
        lb[x] = max(lb.get(x, 1), b)
    return lb


def proves_pos(p, facts=None, strict=True):
    """p > 0 (or >= 0) for all integer values of its atoms consistent with the lower bounds (sufficient test)"""
    if isinstance(p, int):
        return p > 0 if strict else p >= 0
    if is_datadep(p):
        return False
    lb = lower_bounds(facts)
    sub = {}
    for x in p.atoms():
        b = lb.get(x, 1)
        if b != 0:
            sub[x] = Poly.atom(x) + b
    q = p.subs(sub)
    c = q.const_value()
    rest = q - Poly.const(c)
    if any(v < 0 for v in rest.t.values()):
        return False
    return c > 0 if strict else c >= 0


def proves_nonneg(p, facts=None):
    return proves_pos(p, facts, strict=False)


def no_conflict(L1, H1, L2, H2, stride, facts):
    """cells c*v1 + [L1,H1] and c*v2 + [L2,H2] (v1 != v2, |c*step| = stride) never coincide:
    the interval [L1-H2, H1-L2] contains no non-zero multiple of stride"""
    A = L1 - H2
    B = H1 - L2
    if proves_pos(A + stride, facts) and proves_pos(stride - B, facts):
        return True
    for k in (-3, -2, -1, 0, 1, 2):
        if proves_pos(A - stride.scale(k), facts) and proves_pos(stride.scale(k + 1) - B, facts):
            return True
    return False


# ---------------------------------------------------------------------------------------------
def regions_of(func):
    """top-level (outermost) OpenMP directives of a function, with nesting information"""
    out = []

    def rec(s, inside):
        if s is None:
            return
        if s.k == "omp":
            out.append((s, inside))
            for x in swalk(s.body):
                if x.k == "omp" and x is not s:
                    pass
            # nested
            for x in _children(s):
                rec(x, s)
            return
        for x in _children(s):
            rec(x, inside)
    rec(func.body, None)
    return out


def _children(s):
    out = []
    for attr in ("init", "then", "els"):
        c = getattr(s, attr)
        if isinstance(c, S):
            out.append(c)
    if isinstance(s.body, list):
        out.extend(s.body)
    elif isinstance(s.body, S):
        out.append(s.body)
    return out


def analyse_function(func, tus):
    """-> list of (directive S, enclosing directive or None, Region or None)"""
    res = []
    for d, parent in regions_of(func):
        if parent is None:
            if d.name == "simd":
                # stand-alone simd loop (not inside a parallel region): analysed as a one-thread vector loop
                res.append((d, parent, None))
                continue
            if d.name == "critical":
                res.append((d, parent, None))
                continue
            r = Region(func, d, tus).analyse()
            res.append((d, parent, r))
        else:
            res.append((d, parent, None))
    return res


# ---------------------------------------------------------------------------------------------
def report(run, rule, tus, select=None, floor=None):
    """run E2 on the directives of functions chosen by select(func) and feed the Run.
    Every directive is one instance; each shared-array access class is one obligation."""
    n_dir = 0
    for f in cfront.all_funcs(tus):
        if select is not None and not select(f):
            continue
        res = analyse_function(f, tus)
        for d, parent, r in res:
            n_dir += 1
            tag = "%s:%s omp#%s '%s'" % (f.file, f.name, _ordinal(f, d), d.name)
            if r is None:
                run.inst(rule, "%s nested in the enclosing region (analysed there)" % tag if parent is not None
                         else "%s stand-alone %s (single thread)" % (tag, d.name))
                continue
            if not r.problems:
                run.inst(rule, "%s: %d accesses, scalars private/reduced, shared writes %s" % (
                    tag, len(r.acc), sorted(set("%s:%s" % (a.arr, a.own) for a in r.acc if a.rw == "w" and a.own))))
            for a in r.acc:
                if a.own:
                    run.inst(rule, "%s %s %s class=%s" % (tag, "write" if a.rw == "w" else "read", a.text, a.own))
            for prule, construct, why, line in r.problems:
                run.inst(rule, "%s %s" % (tag, construct), ok=False)
                run.violation("%s/%s" % (rule, prule), f.file, line, f.name,
                              "omp#%s %s: %s" % (_ordinal(f, d), d.name, construct), why)
            for x in r.notes:
                run.note("%s: %s" % (tag, x))
    if floor is not None and n_dir < floor:
        raise AnalysisError("rule %s saw %d OpenMP directives, floor is %d" % (rule, n_dir, floor))
    return n_dir


def _ordinal(func, d):
    n = 0
    for s in swalk(func.body):
        if s.k == "omp":
            n += 1
            if s is d:
                return n
    return 0


def collect_accesses(func, tus, stmt=None):
    """sequential walk of a whole function (or one statement of it): every array access with its index
    polynomial, enclosing loop ranges and guards.  OpenMP directives are transparent."""
    fake = S("omp", name="none", clauses=[], body=stmt if stmt is not None else func.body, line=func.line)
    r = Region(func, fake, tus)
    r.sequential = True
    env = {}
    ctx = dict(ranges={}, guards=[], critical=False, ws=None, line=func.line, rtext={})
    r.walk(fake.body, env, ctx)
    return r
