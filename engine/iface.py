"""E5: f2py interface (.pyf) <-> C signature agreement.

The .pyf is parsed with numpy.f2py.crackfortran (a parser; nothing of the repo is imported or run).
"""
import contextlib
import io
import os
import re

from .report import AnalysisError

_CACHE = {}


def crack(path):
    """-> dict routine name -> crackfortran block"""
    if not os.path.exists(path):
        raise AnalysisError("anchor file missing: %s" % path)
    key = (path, os.path.getmtime(path), os.path.getsize(path))
    if key in _CACHE:
        return _CACHE[key]
    import numpy.f2py.crackfortran as cf
    cf.verbose = 0
    # crackfortran keeps module-level state: reset what matters between calls
    with contextlib.redirect_stdout(io.StringIO()), contextlib.redirect_stderr(io.StringIO()):
        try:
            cf.reset_global_f2py_vars() if hasattr(cf, "reset_global_f2py_vars") else None
        except Exception:
            pass
        blocks = cf.crackfortran([path])
    fns = {}
    order = []

    def rec(b):
        if b.get("block") in ("function", "subroutine"):
            fns[b["name"]] = b
            order.append(b["name"])
        for c in b.get("body", []) or []:
            rec(c)
    for b in blocks:
        rec(b)
    _CACHE[key] = (fns, order)
    return fns, order


def crack_text(text, tmpdir):
    """crack an interface assembled from wrapper comment blocks"""
    p = os.path.join(tmpdir, "wrap_%d.pyf" % (abs(hash(text)) % 10 ** 9))
    with open(p, "w") as f:
        f.write("python module x\ninterface\n" + text + "\nend interface\nend python module x\n")
    try:
        return crack(p)
    finally:
        os.unlink(p)


def ftype(v):
    """pyf variable -> set of acceptable C base types (after typedef resolution)"""
    t = v.get("typespec")
    k = v.get("kindselector", {}) or {}
    kind = k.get("kind") or k.get("*")
    if t == "real":
        return {"float"} if kind in (None, "4") else {"double"}
    if t == "double precision":
        return {"double"}
    if t == "integer":
        return {None: {"int"}, "4": {"int", "unsigned int"}, "-4": {"unsigned int"},
                "-2": {"unsigned short"}, "2": {"short"},
                "-1": {"unsigned char"}, "1": {"signed char", "unsigned char", "char"},
                "8": {"long", "long long"}, "-8": {"unsigned long", "unsigned long long"}}.get(kind, {"?int kind %s" % kind})
    return {"?" + str(t)}


def sizeof_c(base):
    return {"float": 4, "double": 8, "int": 4, "unsigned int": 4, "unsigned short": 2, "short": 2,
            "unsigned char": 1, "signed char": 1, "char": 1, "long": 8, "unsigned long": 8,
            "long long": 8, "unsigned long long": 8}.get(base)


def c_base(ty):
    """resolved C type -> (base type, is_pointer_or_array, trailing constant dims)"""
    t = re.sub(r"\b(const|restrict|__restrict|volatile)\b", "", ty or "").strip()
    dims = [int(x) for x in re.findall(r"\[(\d+)\]", t)]
    isptr = ("*" in t) or ("[" in t)
    base = re.sub(r"\(\*\)", "", t)
    base = re.sub(r"\[\d*\]", "", base).replace("*", "").strip()
    base = re.sub(r"\s+", " ", base)
    return base, isptr, dims


def pyf_dims(v):
    return list(v.get("dimension") or [])


def wrapper_blocks(ctext):
    return re.findall(r"F2PY_WRAPPER_START(.*?)F2PY_WRAPPER_END", ctext, re.S)


def norm_decl(b):
    """normalised view of one routine for pyf <-> comment-block comparison"""
    out = dict(name=b["name"], block=b["block"], args=list(b.get("args", [])), vars={})
    for a, v in (b.get("vars") or {}).items():
        out["vars"][a] = dict(typespec=v.get("typespec"), kind=(v.get("kindselector") or {}).get("kind") or (v.get("kindselector") or {}).get("*"),
                              dimension=[str(d).replace(" ", "") for d in (v.get("dimension") or [])],
                              intent=sorted(v.get("intent") or []),
                              depend=sorted(v.get("depend") or []), init=str(v.get("=", "")).replace(" ", ""),
                              attrspec=sorted(x for x in (v.get("attrspec") or []) if x in ("optional", "required")))
    out["threadsafe"] = "threadsafe" in (b.get("f2pyenhancements") or {})
    return out
