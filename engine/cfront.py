"""E1: C front end.  clang-14 JSON AST -> compact IR (expressions, statements, CFG).

Sources analysed are exactly those listed in setup.py:cnames (re-read on every run, no import).
Flags are the build's: -fopenmp -Isrc -DNDEBUG, plus -I<verif>/stubs for a clang-compatible omp.h.
"""
import ast as pyast
import json
import os
import re
import subprocess
from concurrent.futures import ProcessPoolExecutor

from .report import AnalysisError, VERIF

CLANG = "clang-14"
DROP_CASTS = ("LValueToRValue", "NoOp", "ArrayToPointerDecay", "FunctionToPointerDecay")
NORMALISE_DECL_INIT = True
NORMALISE_COMPOUND = True
NORMALISE_COMPARE = True


# --------------------------------------------------------------------------------------------------
# IR
class E(object):
    """expression node"""
    __slots__ = ("k", "op", "a", "ty", "line", "name", "val", "decl", "scope", "off", "end")

    def __init__(self, k, **kw):
        self.k = k
        self.op = None
        self.a = []
        self.ty = None
        self.line = None
        self.name = None
        self.val = None
        self.decl = None
        self.scope = None
        self.off = None
        self.end = None
        for key, v in kw.items():
            setattr(self, key, v)

    def __repr__(self):
        return "E<%s>" % estr(self)


class S(object):
    """statement node"""
    __slots__ = ("k", "body", "e", "init", "cond", "inc", "then", "els", "line", "name", "var",
                 "clauses", "text", "sid", "end_line")

    def __init__(self, k, **kw):
        self.k = k
        self.body = None
        self.e = None
        self.init = None
        self.cond = None
        self.inc = None
        self.then = None
        self.els = None
        self.line = None
        self.name = None
        self.var = None
        self.clauses = None
        self.text = None
        self.sid = None
        self.end_line = None
        for key, v in kw.items():
            setattr(self, key, v)

    def __repr__(self):
        return "S<%s@%s>" % (self.k, self.line)


PREC = {"*": 12, "/": 12, "%": 12, "+": 11, "-": 11, "<<": 10, ">>": 10, "<": 9, ">": 9, "<=": 9, ">=": 9,
        "==": 8, "!=": 8, "&": 7, "^": 6, "|": 5, "&&": 4, "||": 3, ",": 0}


def estr(e):
    """canonical C-like text of an expression (casts that do not change meaning are already gone)"""
    if e is None:
        return ""
    k = e.k
    if k == "var":
        return e.name
    if k == "int":
        return str(e.val)
    if k == "float":
        return repr(e.val)
    if k == "str":
        return json.dumps(e.val)
    if k == "bin":
        return "(%s %s %s)" % (estr(e.a[0]), e.op, estr(e.a[1]))
    if k == "un":
        return "%s%s" % (e.op, estr(e.a[0])) if e.a[0].k in ("var", "int", "float", "idx", "call", "member") \
            else "%s(%s)" % (e.op, estr(e.a[0]))
    if k == "idx":
        return "%s[%s]" % (estr(e.a[0]), estr_top(e.a[1]))
    if k == "call":
        return "%s(%s)" % (e.name, ", ".join(estr_top(x) for x in e.a))
    if k == "cast":
        return "(%s)%s" % (e.ty, estr(e.a[0]))
    if k == "cond":
        return "(%s ? %s : %s)" % (estr(e.a[0]), estr(e.a[1]), estr(e.a[2]))
    if k == "asg":
        return "%s %s %s" % (estr(e.a[0]), e.op, estr_top(e.a[1]))
    if k == "incdec":
        return ("%s%s" % (e.op, estr(e.a[0]))) if e.val else ("%s%s" % (estr(e.a[0]), e.op))
    if k == "member":
        return "%s%s%s" % (estr(e.a[0]), e.op, e.name)
    if k == "sizeof":
        return "sizeof(%s)" % (e.name,)
    if k == "init":
        return "{%s}" % ", ".join(estr_top(x) for x in e.a)
    return "?%s" % k


def estr_top(e):
    s = estr(e)
    if s.startswith("(") and s.endswith(")") and e.k == "bin":
        return s[1:-1]
    return s


def ewalk(e):
    """pre-order over an expression tree"""
    if e is None:
        return
    yield e
    for c in e.a:
        if isinstance(c, E):
            for x in ewalk(c):
                yield x


def swalk(s):
    """pre-order over statements (not into expressions)"""
    if s is None:
        return
    yield s
    for attr in ("init", "then", "els"):
        c = getattr(s, attr)
        if isinstance(c, S):
            for x in swalk(c):
                yield x
    if isinstance(s.body, list):
        for c in s.body:
            for x in swalk(c):
                yield x
    elif isinstance(s.body, S):
        for x in swalk(s.body):
            yield x


def stmt_exprs(s):
    """expressions directly attached to statement s (not those of nested statements)"""
    out = []
    for attr in ("e", "cond", "inc"):
        c = getattr(s, attr)
        if isinstance(c, E):
            out.append(c)
    if s.k == "decl" and isinstance(s.init, E):
        out.append(s.init)
    return out


def all_exprs(s):
    for st in swalk(s):
        for e in stmt_exprs(st):
            for x in ewalk(e):
                yield st, x


def is_zero_lit(e):
    return e is not None and e.k == "int" and e.val == 0


# --------------------------------------------------------------------------------------------------
class Func(object):
    def __init__(self, name, file, line, params, body, rettype, tu):
        self.name = name
        self.file = file          # repo-relative path e.g. src/closest.c
        self.line = line
        self.params = params      # list of E(var)
        self.body = body          # S(block)
        self.rettype = rettype
        self.tu = tu
        self.locals = {}          # decl id -> E(var) declared inside
        self._cfg = None

    def param(self, name):
        for p in self.params:
            if p.name == name:
                return p
        return None

    @property
    def cfg(self):
        if self._cfg is None:
            from .ccfg import build_cfg
            self._cfg = build_cfg(self)
        return self._cfg


class TU(object):
    def __init__(self, relpath, text):
        self.file = relpath
        self.text = text
        self.funcs = {}
        self.globals = {}
        self.order = []
        self.records = {}    # struct name -> list of (field, type)
        self.enums = {}      # enumerator -> int
        self.enum_order = {} # enum name or '' -> [enumerators]
        self._lineoff = None
        self.typedefs = {}

    def line_of(self, off):
        if self._lineoff is None:
            self._lineoff = [0]
            for m in re.finditer("\n", self.text):
                self._lineoff.append(m.end())
        import bisect
        return bisect.bisect_right(self._lineoff, off)


def cnames(root):
    """the C sources of the extension, parsed out of setup.py without importing it"""
    p = os.path.join(root, "setup.py")
    if not os.path.exists(p):
        raise AnalysisError("setup.py missing")
    tree = pyast.parse(open(p, encoding="utf-8").read())
    for n in pyast.walk(tree):
        if isinstance(n, pyast.Assign) and len(n.targets) == 1 and isinstance(n.targets[0], pyast.Name) \
                and n.targets[0].id == "cnames":
            try:
                val = pyast.literal_eval(n.value)
            except Exception:
                # concatenation of string literals
                val = eval(compile(pyast.Expression(n.value), "setup", "eval"), {"__builtins__": {}})
            names = val.split()
            return [x for x in names if x.endswith(".c")], [x for x in names if x.endswith(".pyf")]
    raise AnalysisError("setup.py: cnames assignment not found")


def copts(root):
    """extra compile args per compiler from setup.py:copt"""
    tree = pyast.parse(open(os.path.join(root, "setup.py"), encoding="utf-8").read())
    for n in pyast.walk(tree):
        if isinstance(n, pyast.Assign) and isinstance(n.targets[0], pyast.Name) and n.targets[0].id == "copt":
            return pyast.literal_eval(n.value)
    raise AnalysisError("setup.py: copt not found")


def _clang_json(path, root):
    cmd = [CLANG, "-fsyntax-only", "-fopenmp", "-DNDEBUG", "-I" + os.path.join(root, "src"),
           "-I" + os.path.join(VERIF, "stubs"), "-Xclang", "-ast-dump=json", path]
    p = subprocess.run(cmd, stdout=subprocess.PIPE, stderr=subprocess.PIPE)
    if p.returncode != 0:
        raise AnalysisError("clang failed on %s: %s" % (path, p.stderr.decode()[:400]))
    return json.loads(p.stdout.decode())


_CACHE = {}


def _load_one(arg):
    import sys
    sys.setrecursionlimit(20000)
    root, r = arg
    try:
        return _Conv(root, r, _clang_json(os.path.join(root, r), root)).tu, None
    except AnalysisError as e:
        return None, str(e)


def load(root, files=None):
    """-> dict relpath -> TU for the extension's C sources"""
    root = os.path.abspath(root)
    cs, _ = cnames(root)
    rels = ["src/" + c for c in cs]
    if files:
        rels = [r for r in rels if r in files or os.path.basename(r) in files]
    key = (root, tuple(rels))
    if key in _CACHE:
        return _CACHE[key]
    for r in rels:
        if not os.path.exists(os.path.join(root, r)):
            raise AnalysisError("C source listed in setup.py is missing: %s" % r)
    out = {}
    if len(rels) > 1 and os.environ.get("VERIF_SERIAL") != "1":
        import sys
        sys.setrecursionlimit(max(sys.getrecursionlimit(), 20000))
        with ProcessPoolExecutor(max_workers=min(16, len(rels))) as ex:
            res = list(ex.map(_load_one, [(root, r) for r in rels]))
        for r, (tu, err) in zip(rels, res):
            if err:
                raise AnalysisError(err)
            out[r] = tu
    else:
        for r in rels:
            out[r] = _Conv(root, r, _clang_json(os.path.join(root, r), root)).tu
    _CACHE[key] = out
    return out


def all_funcs(tus):
    for f in sorted(tus):
        for name in tus[f].order:
            yield tus[f].funcs[name]


_STATIC_INLINED = {}


def find_func(tus, name, file=None, raw=False):
    """the function `name`.  File-local ('static') functions it calls are read in place (unless raw): the pinned sources contain no
    static function at all, so a static callee is a helper somebody extracted from this body, and a rule written against the
    body must see the statements where they were - otherwise an 'extract helper' refactoring looks like a missing pattern."""
    for f in sorted(tus):
        if file and f != file and os.path.basename(f) != file:
            continue
        if name in tus[f].funcs:
            fn = tus[f].funcs[name]
            if raw:
                return fn
            key = (id(tus), fn.file, name)
            if key not in _STATIC_INLINED:
                byname = {g.name: g for g in all_funcs(tus)}
                statics = set(n_ for n_, g in byname.items() if getattr(g, "static", False) and g.file == fn.file and n_ != name)
                called = set(x.name for st, x in all_exprs(fn.body) if x.k == "call") if fn.body is not None else set()
                res = fn
                if called & statics:
                    try:
                        res, _d, _k = inline_calls(fn, byname, which=statics, depth=3)
                    except Exception:
                        res = fn
                _STATIC_INLINED[key] = res
            return _STATIC_INLINED[key]
    raise AnalysisError("anchor vanished: C function %s%s" % (name, " in %s" % file if file else ""))


# --------------------------------------------------------------------------------------------------
class _Conv(object):
    """clang JSON -> IR for one translation unit"""

    def __init__(self, root, rel, doc):
        self.root = root
        self.rel = rel
        self.abspath = os.path.join(root, rel)
        text = open(self.abspath, encoding="utf-8", errors="replace").read()
        self.tu = TU(rel, text)
        self.curfile = None
        self.func = None
        self.declscope = {}
        self.typedefs = {}
        global _TYPEDEFS
        for top in doc.get("inner", []):
            if top.get("kind") == "TypedefDecl" and top.get("name"):
                self.typedefs[top["name"]] = top.get("type", {}).get("qualType")
        _TYPEDEFS = self.typedefs
        self.tu.typedefs = self.typedefs
        for top in doc.get("inner", []):
            if top.get("kind") == "EnumDecl":
                self._enum(top)       # enumerators from headers too (blobs.h)
                continue
            if not self._in_main(top):
                continue
            k = top.get("kind")
            if k == "FunctionDecl":
                body = [c for c in top.get("inner", []) if c and c.get("kind") == "CompoundStmt"]
                if body:
                    self._function(top, body[0])
            elif k == "VarDecl":
                v = E("var", name=top["name"], decl=top["id"], ty=_qt(top), scope="global")
                self.tu.globals[top["name"]] = v
                self.declscope[top["id"]] = "global"
            elif k == "RecordDecl":
                self.tu.records[top.get("name", "")] = [(c["name"], _qt(c)) for c in top.get("inner", [])
                                                        if c and c.get("kind") == "FieldDecl"]

    # -- locations -------------------------------------------------------------------------
    def _track_file(self, top):
        pass

    def _in_main(self, top):
        """clang elides the 'file' key when unchanged, so main-file membership is decided by checking
        that the declared name is spelled at loc.offset in the main file's text"""
        loc = top.get("loc", {})
        off = loc.get("offset")
        if off is None:
            off = loc.get("expansionLoc", {}).get("offset")
        if off is None:
            return False
        name = top.get("name")
        if name is None:
            # anonymous enum / struct: use the first named child
            for c in top.get("inner", []) or []:
                if c and c.get("name"):
                    cl = c.get("loc", {})
                    co = cl.get("offset", cl.get("expansionLoc", {}).get("offset"))
                    return co is not None and self.tu.text[co:co + len(c["name"])] == c["name"]
            return False
        return self.tu.text[off:off + len(name)] == name

    def _enum(self, top):
        val = -1
        names = []
        for c in top.get("inner", []):
            if c and c.get("kind") == "EnumConstantDecl":
                init = [x for x in c.get("inner", []) if x]
                if init:
                    v = self._const_int(init[0])
                    if v is None:
                        raise AnalysisError("enum initialiser not constant: %s" % c["name"])
                    val = v
                else:
                    val += 1
                self.tu.enums[c["name"]] = val
                names.append(c["name"])
        self.tu.enum_order[top.get("name") or ("@anon%d" % len(self.tu.enum_order))] = names

    def _const_int(self, n):
        while n.get("kind") in ("ImplicitCastExpr", "ParenExpr", "ConstantExpr"):
            if n.get("kind") == "ConstantExpr" and "value" in n:
                return int(n["value"])
            n = n["inner"][0]
        if n.get("kind") == "IntegerLiteral":
            return int(n["value"])
        return None

    def _off(self, n, which="begin"):
        r = n.get("range", {}).get(which, {})
        if "offset" in r:
            return r["offset"], r.get("tokLen", 0)
        x = r.get("expansionLoc", {})
        if "offset" in x:
            return x["offset"], x.get("tokLen", 0)
        return None, 0

    def _line(self, n):
        off, _ = self._off(n)
        if off is None:
            return None
        return self.tu.line_of(off)

    # -- functions --------------------------------------------------------------------------
    def _function(self, top, body):
        params = []
        self.declscope_local = {}
        for c in top.get("inner", []):
            if c and c.get("kind") == "ParmVarDecl":
                v = E("var", name=c.get("name", "?"), decl=c["id"], ty=_qt(c), scope="param")
                params.append(v)
                self.declscope[c["id"]] = "param"
        qt = top["type"]["qualType"]
        f = Func(top["name"], self.rel, self._line(top), params, None, qt.split("(")[0].strip(), self.tu)
        f.static = top.get("storageClass") == "static"
        self.func = f
        f.body = self.stmt(body)
        self.tu.funcs[f.name] = f
        self.tu.order.append(f.name)
        self.func = None

    # -- statements -------------------------------------------------------------------------
    def stmt(self, n):
        if n is None or not n:
            return S("null")
        k = n.get("kind")
        line = self._line(n)
        if k == "CompoundStmt":
            body = []
            for c in n.get("inner", []) or []:
                if not c:
                    continue
                s = self.stmt(c)
                if s.k == "multi":
                    body.extend(s.body)
                else:
                    body.append(s)
            eo, tl = self._off(n, "end")
            return S("block", body=body, line=line, end_line=self.tu.line_of(eo) if eo is not None else None)
        if k == "DeclStmt":
            out = []
            for v in n.get("inner", []):
                if not v or v.get("kind") != "VarDecl":
                    continue
                var = E("var", name=v["name"], decl=v["id"], ty=_qt(v), scope="local", line=line)
                if v.get("storageClass") == "static":
                    var.scope = "static"
                self.declscope[v["id"]] = var.scope
                self.func.locals[v["id"]] = var
                init = [c for c in v.get("inner", []) if c and c.get("kind")]
                ie = self.expr(init[0]) if init else None
                if ie is not None and ie.k != "init" and var.scope == "local" and NORMALISE_DECL_INIT:
                    # normal form:  T x = e;  is  T x; x = e;   so that every analysis sees one kind of assignment
                    ref = E("var", name=var.name, decl=var.decl, ty=var.ty, scope="local", line=line)
                    out.append(S("decl", var=var, init=None, line=line))
                    out.append(S("expr", e=E("asg", op="=", a=[ref, ie], ty=var.ty, line=line), line=line))
                else:
                    out.append(S("decl", var=var, init=ie, line=line))
            if len(out) == 1:
                return out[0]
            return S("multi", body=out, line=line)
        if k == "IfStmt":
            ks = n["inner"]
            cond = self.expr(ks[0])
            then = self.stmt(ks[1])
            els = self.stmt(ks[2]) if len(ks) > 2 and ks[2] else None
            return S("if", cond=cond, then=then, els=els, line=line)
        if k == "ForStmt":
            ks = n["inner"]
            init = None
            if ks[0]:
                if ks[0].get("kind") == "DeclStmt":
                    init = self.stmt(ks[0])
                else:
                    init = S("expr", e=self.expr(ks[0]), line=line)
            cond = self.expr(ks[2]) if ks[2] else None
            inc = self.expr(ks[3]) if ks[3] else None
            return S("for", init=init, cond=cond, inc=inc, body=self.stmt(ks[4]), line=line)
        if k == "WhileStmt":
            ks = n["inner"]
            return S("while", cond=self.expr(ks[0]), body=self.stmt(ks[1]), line=line)
        if k == "DoStmt":
            ks = n["inner"]
            return S("do", body=self.stmt(ks[0]), cond=self.expr(ks[1]), line=line)
        if k == "ReturnStmt":
            ks = [c for c in n.get("inner", []) if c]
            return S("return", e=self.expr(ks[0]) if ks else None, line=line)
        if k == "BreakStmt":
            return S("break", line=line)
        if k == "ContinueStmt":
            return S("continue", line=line)
        if k == "NullStmt":
            return S("null", line=line)
        if k == "GotoStmt":
            # clang gives targetLabelDeclId; the label name is recovered from the source text
            off, tl = self._off(n)
            m = re.match(r"goto\s+(\w+)", self.tu.text[off:off + 80])
            return S("goto", name=m.group(1) if m else n.get("targetLabelDeclId"), line=line)
        if k == "LabelStmt":
            ks = [c for c in n.get("inner", []) if c]
            return S("label", name=n.get("name"), body=self.stmt(ks[0]) if ks else S("null"), line=line)
        if k and k.startswith("OMP") and k.endswith("Directive"):
            return self._omp(n, line)
        if k == "CapturedStmt":
            cd = [c for c in n["inner"] if c and c.get("kind") == "CapturedDecl"][0]
            first = [c for c in cd.get("inner", []) if c and c.get("kind") not in ("ImplicitParamDecl",)][0]
            return self.stmt(first)
        if k in ("SwitchStmt", "CaseStmt", "DefaultStmt"):
            raise AnalysisError("%s:%s switch statements are outside the analyser's statement kinds" % (self.rel, line))
        # expression statement
        return S("expr", e=self.expr(n), line=line)

    def _omp(self, n, line):
        kind = n["kind"][3:-9]     # ParallelFor, ParallelForSimd, Simd, Parallel, ForSimd, Critical, For
        b, _ = self._off(n, "begin")
        e, tl = self._off(n, "end")
        text = self.tu.text[b:e + max(tl, 0)]
        text = text.replace("\\\n", " ")
        text = re.sub(r"\s+", " ", text).strip()
        clause_nodes = [c for c in n.get("inner", []) if c and c.get("kind") is None]
        body_nodes = [c for c in n.get("inner", []) if c and c.get("kind") is not None]
        clauses = parse_omp_clauses(text)
        # clause nodes (kind-less) carry resolved variable lists; zip with textual clauses that have args
        # clang emits one node per clause (including argument-less ones such as nowait? they have no inner)
        out = []
        tlist = list(clauses["list"])
        if len(clause_nodes) != len(tlist):
            # clang gives no variable-list node for default(none|shared): keep it as a clause without expressions
            novars = [c for c in tlist if c[0] == "default"]
            tlist = [c for c in tlist if c[0] != "default"]
            for ck, cargs in novars:
                out.append((ck, cargs, []))
        if len(clause_nodes) != len(tlist):
            raise AnalysisError("%s:%s OpenMP clause count mismatch: text %r has %d clauses, AST has %d"
                                % (self.rel, line, text, len(clauses["list"]), len(clause_nodes)))
        for (ck, cargs), cn in zip(tlist, clause_nodes):
            exprs = [self.expr(x) for x in (cn.get("inner") or []) if x and x.get("kind")]
            out.append((ck, cargs, exprs))
        body = self.stmt(body_nodes[0]) if body_nodes else S("null")
        return S("omp", name=clauses["directive"], clauses=out, body=body, text=text, line=line)

    # -- expressions ------------------------------------------------------------------------
    def expr(self, n):
        if n is None or not n:
            return None
        k = n.get("kind")
        line = self._line(n)
        off, _ = self._off(n)
        if k in ("ParenExpr", "ConstantExpr"):
            return self.expr(n["inner"][0])
        if k == "ImplicitCastExpr":
            ck = n.get("castKind")
            inner = self.expr(n["inner"][0])
            if ck in DROP_CASTS:
                return inner
            if ck == "ToVoid":
                return inner
            if ck == "IntegralToFloating" and inner.k == "int":
                return E("float", val=float(inner.val), ty=_qt(n), line=line, off=off)
            if ck == "IntegralCast" and inner.k == "int":
                return E("int", val=inner.val, name=inner.name, ty=_qt(n), line=line, off=off)
            return E("cast", op=ck, ty=_qt(n), a=[inner], line=line, off=off, val="implicit")
        if k == "CStyleCastExpr":
            inner = self.expr(n["inner"][0])
            return E("cast", op=n.get("castKind"), ty=_qt(n), a=[inner], line=line, off=off, val="explicit")
        if k == "DeclRefExpr":
            rd = n["referencedDecl"]
            if rd.get("kind") == "EnumConstantDecl":
                name = rd["name"]
                if name in self.tu.enums:
                    return E("int", val=self.tu.enums[name], name=name, ty="int", line=line, off=off)
                # enum from a header: value in the decl is not printed -> look up later
                return E("var", name=name, decl=rd["id"], ty="int", scope="enum", line=line, off=off)
            scope = self.declscope.get(rd["id"])
            if scope is None:
                scope = "func" if rd.get("kind") == "FunctionDecl" else "global"
            return E("var", name=rd.get("name"), decl=rd["id"], ty=_qt(rd),
                     scope=scope, line=line, off=off)
        if k == "IntegerLiteral":
            return E("int", val=int(n["value"]), ty=_qt(n), line=line, off=off)
        if k == "CharacterLiteral":
            return E("int", val=int(n["value"]), ty=_qt(n), line=line, off=off)
        if k == "FloatingLiteral":
            return E("float", val=float(n["value"]), ty=_qt(n), line=line, off=off)
        if k == "StringLiteral":
            return E("str", val=n.get("value"), line=line, off=off)
        if k == "BinaryOperator":
            l, r = n["inner"]
            op = n["opcode"]
            if op == "=":
                le, re_ = self.expr(l), self.expr(r)
                if NORMALISE_COMPOUND:
                    # normal form:  a = a + b  is  a += b   (same for - * /; the target must be free of side effects)
                    core = re_
                    while core is not None and core.k == "cast" and core.op in ("IntegralCast", "FloatingCast", "IntegralToFloating", "FloatingToIntegral") and False:
                        core = core.a[0]
                    if core is not None and core.k == "bin" and core.op in ("+", "-", "*", "/") and estr(core.a[0]) == estr(le) \
                            and not any(x.k in ("asg", "incdec", "call") for x in ewalk(le)) and (core.ty or "") == (le.ty or core.ty or ""):
                        return E("asg", op=core.op + "=", a=[le, core.a[1]], ty=_qt(n), line=line, off=off)
                return E("asg", op="=", a=[le, re_], ty=_qt(n), line=line, off=off)
            if op == ",":
                return E("bin", op=",", a=[self.expr(l), self.expr(r)], ty=_qt(n), line=line, off=off)
            le, re_ = self.expr(l), self.expr(r)
            if NORMALISE_COMPARE and op in ("==", "!=", "<", ">", "<=", ">="):
                # normal form: a literal operand of a comparison stands on the right ( 5 == x  ->  x == 5 ;  0 > x  ->  x < 0 )
                lc = le
                while lc is not None and lc.k == "cast":
                    lc = lc.a[0]
                rc = re_
                while rc is not None and rc.k == "cast":
                    rc = rc.a[0]
                if lc is not None and rc is not None and lc.k in ("int", "float") and rc.k not in ("int", "float"):
                    le, re_ = re_, le
                    op = {"==": "==", "!=": "!=", "<": ">", ">": "<", "<=": ">=", ">=": "<="}[op]
            return E("bin", op=op, a=[le, re_], ty=_qt(n), line=line, off=off)
        if k == "CompoundAssignOperator":
            l, r = n["inner"]
            return E("asg", op=n["opcode"], a=[self.expr(l), self.expr(r)], ty=_qt(n), line=line, off=off)
        if k == "UnaryOperator":
            op = n["opcode"]
            inner = self.expr(n["inner"][0])
            if op in ("++", "--"):
                return E("incdec", op=op, val=not n.get("isPostfix", False), a=[inner], ty=_qt(n), line=line, off=off)
            if op == "+":
                return inner
            if op == "-" and inner.k in ("int", "float"):
                return E(inner.k, val=-inner.val, ty=inner.ty, line=line, off=off)
            return E("un", op=op, a=[inner], ty=_qt(n), line=line, off=off)
        if k == "ArraySubscriptExpr":
            b, i = n["inner"]
            return E("idx", a=[self.expr(b), self.expr(i)], ty=_qt(n), line=line, off=off)
        if k == "CallExpr":
            ks = n["inner"]
            callee = self.expr(ks[0])
            name = callee.name if callee.k == "var" else estr(callee)
            return E("call", name=name, a=[self.expr(x) for x in ks[1:]], ty=_qt(n), line=line, off=off)
        if k == "ConditionalOperator":
            c, a, b = n["inner"]
            return E("cond", a=[self.expr(c), self.expr(a), self.expr(b)], ty=_qt(n), line=line, off=off)
        if k == "MemberExpr":
            return E("member", name=n.get("name"), op="->" if n.get("isArrow") else ".",
                     a=[self.expr(n["inner"][0])], ty=_qt(n), line=line, off=off)
        if k == "UnaryExprOrTypeTraitExpr":
            at = n.get("argType", {}).get("qualType")
            if at is None and n.get("inner"):
                at = estr(self.expr(n["inner"][0]))
            return E("sizeof", name=at, ty=_qt(n), line=line, off=off)
        if k == "InitListExpr":
            return E("init", a=[self.expr(x) for x in n.get("inner", []) if x], ty=_qt(n), line=line, off=off)
        if k == "ImplicitValueInitExpr":
            return E("int", val=0, ty=_qt(n), line=line, off=off)
        if k == "OMPArraySectionExpr":
            raise AnalysisError("%s:%s OpenMP array sections are not supported" % (self.rel, line))
        raise AnalysisError("%s:%s unsupported C expression kind %s" % (self.rel, line, k))


_TYPEDEFS = {}
_QUALS = re.compile(r"\b(const|restrict|__restrict|volatile)\b")


def resolve_type(ty, typedefs=None):
    """expand typedef names: 'vec[3]' -> 'double[3][3]', 'vec *' -> 'double (*)[3]', 'int32_t *' -> 'int *'"""
    if ty is None:
        return None
    typedefs = _TYPEDEFS if typedefs is None else typedefs
    t = _QUALS.sub("", ty)
    t = re.sub(r"\s+", " ", t).strip()
    for _ in range(12):
        m = re.match(r"^((?:unsigned |signed |struct |enum )?\w+)(.*)$", t)
        if not m or m.group(1) not in typedefs:
            break
        base = _QUALS.sub("", typedefs[m.group(1)] or "").strip()
        rest = m.group(2).strip()
        am = re.match(r"^(.*?)((?:\[\d*\])+)$", base)
        if am and "(" not in base:
            b, dims = am.group(1).strip(), am.group(2)
            if rest.startswith("["):
                t = "%s%s%s" % (b, rest, dims)
            elif rest.replace(" ", "") == "*":
                t = "%s (*)%s" % (b, dims)
            elif rest == "":
                t = "%s%s" % (b, dims)
            else:
                t = "%s %s %s" % (b, rest, dims)
                break
        else:
            t = ("%s %s" % (base, rest)).strip()
    t = re.sub(r"\s+", " ", t).strip()
    t = re.sub(r"\s*\*\s*", " *", t).replace("* *", "**").replace("( *)", "(*)")
    return t


def _qt(n):
    t = n.get("type", {})
    return resolve_type(t.get("desugaredQualType") or t.get("qualType"))


# --------------------------------------------------------------------------------------------------
def parse_omp_clauses(text):
    """'#pragma omp parallel for private(a,b) reduction(+:n) schedule(static,4096)' ->
    {'directive': 'parallel for', 'list': [('private','a,b'), ...]}"""
    m = re.match(r"#\s*pragma\s+omp\s+(.*)$", text)
    if not m:
        raise AnalysisError("cannot read OpenMP pragma text: %r" % text)
    rest = m.group(1).strip()
    words = []
    DIRW = ("parallel", "for", "simd", "critical", "sections", "section", "single", "master", "atomic",
            "barrier", "task", "ordered")
    while True:
        mm = re.match(r"(\w+)\b\s*", rest)
        if mm and mm.group(1) in DIRW and not rest[mm.end(1):].lstrip().startswith("(") :
            words.append(mm.group(1))
            rest = rest[mm.end():]
        elif mm and mm.group(1) == "critical":
            words.append("critical")
            rest = rest[mm.end():]
        else:
            break
    clauses = []
    pos = 0
    rest = rest.strip()
    while pos < len(rest):
        mm = re.match(r"\s*,?\s*(\w+)\s*", rest[pos:])
        if not mm:
            raise AnalysisError("cannot parse OpenMP clauses: %r" % text)
        name = mm.group(1)
        pos += mm.end()
        args = None
        if pos < len(rest) and rest[pos] == "(":
            depth = 0
            j = pos
            while j < len(rest):
                if rest[j] == "(":
                    depth += 1
                elif rest[j] == ")":
                    depth -= 1
                    if depth == 0:
                        break
                j += 1
            args = rest[pos + 1:j].strip()
            pos = j + 1
        clauses.append((name, args))
    return {"directive": " ".join(words), "list": clauses}


# --------------------------------------------------------------------------------------------------
# small helpers used by several engines
def base_var(e):
    """the variable at the root of an lvalue expression a[i][j] / *p / p->f ; else None"""
    while e is not None:
        if e.k == "var":
            return e
        if e.k in ("idx", "member"):
            e = e.a[0]
        elif e.k == "un" and e.op in ("*",):
            e = e.a[0]
        elif e.k == "cast":
            e = e.a[0]
        elif e.k == "bin" and e.op in ("+", "-") and e.a[0].ty and ("*" in e.a[0].ty or "[" in e.a[0].ty):
            e = e.a[0]
        else:
            return None
    return None


def subscripts(e):
    """for a[i][j] -> (var a, [i, j]) ; for *p -> (p,[0-literal]) ; else (None, [])"""
    idx = []
    while e is not None:
        if e.k == "idx":
            idx.append(e.a[1])
            e = e.a[0]
        elif e.k == "cast":
            e = e.a[0]
        elif e.k == "var":
            return e, list(reversed(idx))
        else:
            return None, []
    return None, []


def writes_reads(e, out_w, out_r, ctx="r"):
    """collect (lvalue expr) written / read inside expression e.  ctx: 'r' read, 'w' write, 'rw' both, 'a' address"""
    if e is None:
        return
    k = e.k
    if k in ("int", "float", "str", "sizeof"):
        return
    if k == "var":
        if e.scope in ("func", "enum"):
            return
        if ctx in ("w", "rw"):
            out_w.append(e)
        if ctx in ("r", "rw"):
            out_r.append(e)
        return
    if k == "asg":
        writes_reads(e.a[1], out_w, out_r, "r")
        writes_reads(e.a[0], out_w, out_r, "w" if e.op == "=" else "rw")
        return
    if k == "incdec":
        writes_reads(e.a[0], out_w, out_r, "rw")
        return
    if k == "idx":
        # the element is read/written; base pointer and index are read
        if ctx in ("w", "rw"):
            out_w.append(e)
        if ctx in ("r", "rw"):
            out_r.append(e)
        b = e.a[0]
        # walk down nested subscripts without counting intermediate rows as element reads
        while b.k == "idx":
            writes_reads(b.a[1], out_w, out_r, "r")
            b = b.a[0]
        if b.k == "var":
            pass   # base array/pointer variable: not itself an element access
        else:
            writes_reads(b, out_w, out_r, "r")
        writes_reads(e.a[1], out_w, out_r, "r")
        return
    if k == "un" and e.op == "*":
        if ctx in ("w", "rw"):
            out_w.append(e)
        if ctx in ("r", "rw"):
            out_r.append(e)
        writes_reads(e.a[0], out_w, out_r, "r")
        return
    if k == "un" and e.op == "&":
        writes_reads(e.a[0], out_w, out_r, "a")
        return
    if k == "member":
        if ctx in ("w", "rw"):
            out_w.append(e)
        if ctx in ("r", "rw"):
            out_r.append(e)
        if e.op == "->":
            writes_reads(e.a[0], out_w, out_r, "r")
        else:
            writes_reads(e.a[0], out_w, out_r, "a")
        return
    if k == "call":
        for x in e.a:
            writes_reads(x, out_w, out_r, "r")
        return
    for x in e.a:
        writes_reads(x, out_w, out_r, ctx if k == "cast" else "r")


# --------------------------------------------------------------------------------------------------
# single-assignment local scalars: let a rule that recognises an expression see through  jk = j[k];  ... jk ...
def _written_names(s, skip_inc_of=None):
    """(names of variables assigned, names of arrays / pointers stored through) under statement s"""
    assigned, stored = set(), set()
    header_init = set()
    if skip_inc_of is not None and isinstance(skip_inc_of.init, S):
        header_init = {id(x) for x in swalk(skip_inc_of.init)}
    for st in swalk(s):
        if id(st) in header_init:
            continue
        es = stmt_exprs(st)
        if st is skip_inc_of and st.inc is not None:
            es = [x for x in es if x is not st.inc]
        for e in es:
            w, r = [], []
            writes_reads(e, w, r)
            for x in w:
                b = base_var(x)
                if b is not None:
                    (assigned if x.k == "var" else stored).add(b.name)
            for x in ewalk(e):
                if x.k == "call":   # a callee may store through any pointer it is handed
                    for a in x.a:
                        addr = a.k == "un" and a.op == "&"
                        b = base_var(a.a[0] if addr else a)
                        if b is not None and (addr or (a.ty and ("*" in a.ty or "[" in a.ty))):
                            stored.add(b.name)
        if st.k == "decl" and st.var is not None and st.init is not None:
            assigned.add(st.var.name)
    return assigned, stored


def scalar_defs(func, constants_only=False, within=None):
    """(constants_only: only the names defined outside every loop - they hold one value for the whole call.
    within: a statement of func - only the assignments inside it count, for reading expressions of that statement: a local that
    several disjoint loops each set for themselves has one definition in each of them.)
    name -> defining expression for local scalars that are written at exactly one site (declaration initialiser or a plain
    '=' statement), whose right side has no side effects and reads nothing that the innermost loop around the definition (or the
    whole function when there is none) writes - apart from that loop's own counter.  Substituting such a name by its definition
    inside that loop does not change what an expression means."""
    params = {p.name for p in func.params}
    sites = {}
    parents = {}

    def visit(s, loops):
        if s is None:
            return
        if s.k == "decl" and s.var is not None and s.init is not None and isinstance(s.init, E):
            sites.setdefault(s.var.name, []).append((s.init, loops[-1] if loops else None, "decl"))
        for e in stmt_exprs(s):
            for x in ewalk(e):
                if x.k == "asg" and x.a[0].k == "var":
                    plain = x.op == "=" and e is x and s.k == "expr"
                    sites.setdefault(x.a[0].name, []).append((x.a[1] if plain else None, loops[-1] if loops else None, "asg"))
                elif x.k == "incdec" and x.a[0].k == "var":
                    sites.setdefault(x.a[0].name, []).append((None, None, "inc"))
                elif x.k == "un" and x.op == "&" and x.a[0].k == "var":
                    sites.setdefault(x.a[0].name, []).append((None, None, "addr"))
        inner = loops + [s] if s.k in ("for", "while", "do") else loops
        for attr in ("init", "then", "els"):
            c = getattr(s, attr)
            if isinstance(c, S):
                visit(c, inner)
        if isinstance(s.body, list):
            for c in s.body:
                visit(c, inner)
        elif isinstance(s.body, S):
            visit(s.body, inner)
    visit(within if within is not None else func.body, [within] if (within is not None and within.k in ("for", "while", "do")) else [])
    groups = []
    for st in swalk(func.body):
        pairs = []
        if st.k == "decl" and st.var is not None and isinstance(st.init, E) and st.var.ty and "*" in st.var.ty:
            pairs.append((st.var.name, st.init))
        for e in stmt_exprs(st):
            for x in ewalk(e):
                if x.k == "asg" and x.op == "=" and x.a[0].k == "var" and x.a[0].ty and "*" in x.a[0].ty:
                    pairs.append((x.a[0].name, x.a[1]))
        for nm, rhs in pairs:
            src_ = rhs
            while src_ is not None and src_.k == "cast":
                src_ = src_.a[0]
            if src_ is not None and src_.k == "un" and src_.op == "&":
                src_ = src_.a[0]
            b = base_var(src_) if src_ is not None else None
            if b is not None and b.scope not in ("func", "enum"):
                hit = [g for g in groups if nm in g or b.name in g]
                new_g = {nm, b.name}
                for g in hit:
                    new_g |= g
                    groups.remove(g)
                groups.append(new_g)
    out = {}
    for name, ss in sites.items():
        if name in params or len(ss) != 1 or ss[0][0] is None:
            continue
        rhs, loop, _ = ss[0]
        if constants_only and loop is not None:
            continue
        if any(x.k in ("asg", "incdec", "call") for x in ewalk(rhs)):
            continue
        scope = loop if loop is not None else (within if within is not None else func.body)
        assigned, stored = _written_names(scope, skip_inc_of=loop)
        for grp in groups:  # a store through a local pointer is a store to what it may point into
            if grp & stored:
                stored = stored | grp
        assigned = assigned - {name}
        # a variable that is itself written at one site only, outside any loop or in this same loop, has one value: reading it is fine
        for v, vs in sites.items():
            if v in assigned and len(vs) == 1 and vs[0][2] in ("decl", "asg") and vs[0][0] is not None and (vs[0][1] is None or vs[0][1] is loop) and v not in params:
                assigned = assigned - {v}
        reads = {x.name for x in ewalk(rhs) if x.k == "var" and x.scope not in ("func", "enum")}
        rhs_core = rhs
        while rhs_core.k == "cast":
            rhs_core = rhs_core.a[0]
        w_, r_ = [], []
        writes_reads(rhs, w_, r_)
        # a partial subscript ( g = gv[k] with gv[][3] ) yields the address of a row, it reads no element
        content = {base_var(x).name for x in r_ if x.k != "var" and base_var(x) is not None
                   and not (x.k == "idx" and x.ty and ("[" in x.ty or "*" in x.ty) and x is rhs_core)}
        if name in reads or reads & assigned or content & stored:
            continue
        out[name] = rhs
    return out


def esubst(e, defs, depth=3):
    """copy of e with every variable that has an entry in defs replaced by its definition (recursively, depth-limited)"""
    if e is None or not isinstance(e, E):
        return e
    if e.k == "var" and e.name in defs and depth > 0:
        return esubst(defs[e.name], defs, depth - 1)
    n = E(e.k)
    for slot in E.__slots__:
        setattr(n, slot, getattr(e, slot))
    n.a = [esubst(c, defs, depth) if isinstance(c, E) else c for c in e.a]
    if n.k == "idx" and n.a[0] is not e.a[0]:
        _simplify_idx(n)
    return n


def _simplify_idx(n):
    """in place: (&A[e])[x], (A + e)[x] and (A - e)[x] are A[e + x] / A[x - e], repeatedly; *(&A[e]) handled by the callers that need it"""
    for _ in range(6):
        b = n.a[0]
        while b.k == "cast" and b.ty and "*" in b.ty and b.a[0].ty == b.ty:
            b = b.a[0]
        if b.k == "un" and b.op == "&" and b.a[0].k == "idx":
            n.a = [b.a[0].a[0], _plus(b.a[0].a[1], n.a[1])]
        elif b.k == "bin" and b.op == "+" and b.a[0].ty and ("*" in b.a[0].ty or "[" in b.a[0].ty):
            n.a = [b.a[0], _plus(b.a[1], n.a[1])]
        elif b.k == "bin" and b.op == "-" and b.a[0].ty and ("*" in b.a[0].ty or "[" in b.a[0].ty) and not (b.a[1].ty and "*" in b.a[1].ty):
            n.a = [b.a[0], E("bin", op="-", a=[n.a[1], b.a[1]], ty=n.a[1].ty, line=n.a[1].line)]
        else:
            break


def _plus(x, y):
    if is_zero_lit(y):
        return x
    if is_zero_lit(x):
        return y
    return E("bin", op="+", a=[x, y], ty=x.ty, line=x.line)


# --------------------------------------------------------------------------------------------------
# statement-level inlining of internal helper functions (context-sensitive analyses, and rules written against one function)
def _clone_e(e, vmap):
    if e is None or not isinstance(e, E):
        return e
    if e.k == "var" and e.decl in vmap:
        r = vmap[e.decl]
        if r.k == "var":
            n = E("var")
            for slot in E.__slots__:
                setattr(n, slot, getattr(r, slot))
            n.a = []
            n.line = e.line
            return n
        return _clone_e(r, {})
    n = E(e.k)
    for slot in E.__slots__:
        setattr(n, slot, getattr(e, slot))
    n.a = [_clone_e(c, vmap) if isinstance(c, E) else c for c in e.a]
    if n.k == "idx" and vmap and e.a[0].k == "var" and e.a[0].decl in vmap:
        _simplify_idx(n)
    return n


def _clone_s(s, vmap):
    if s is None or not isinstance(s, S):
        return s
    n = S(s.k)
    for slot in S.__slots__:
        setattr(n, slot, getattr(s, slot))
    n.e = _clone_e(s.e, vmap)
    n.cond = _clone_e(s.cond, vmap)
    n.inc = _clone_e(s.inc, vmap)
    n.init = _clone_s(s.init, vmap) if isinstance(s.init, S) else _clone_e(s.init, vmap)
    n.then = _clone_s(s.then, vmap)
    n.els = _clone_s(s.els, vmap)
    if isinstance(s.body, list):
        n.body = [_clone_s(c, vmap) for c in s.body]
    else:
        n.body = _clone_s(s.body, vmap)
    if s.var is not None and isinstance(s.var, E):
        n.var = _clone_e(s.var, vmap)
    if s.clauses:
        n.clauses = [(ck, cargs, [_clone_e(x, vmap) for x in exprs]) for ck, cargs, exprs in s.clauses]
    return n


def _has_return(x):
    items = x if isinstance(x, list) else [x]
    return any(st.k == "return" for it in items if it is not None for st in swalk(it))


def _stmts_of(s):
    if s is None:
        return []
    return list(s.body) if s.k == "block" else [s]


def _always_returns(stmts):
    if not stmts:
        return False
    last = stmts[-1]
    if last.k == "return":
        return True
    if last.k == "block":
        return _always_returns(last.body)
    if last.k == "if" and last.els is not None:
        return _always_returns(_stmts_of(last.then)) and _always_returns(_stmts_of(last.els))
    return False


def tailify(stmts, mk=None):
    """statement list of a function body with every return removed:  if (c) { A; return x; } B;  becomes  if (c) { A; } else { B; }.
    The returned value is handed to mk(expr, line) -> statements (default: dropped, kept as a statement only when it has side
    effects).  None when a return sits inside a loop (no structured equivalent without goto)."""
    out = []
    for k, st in enumerate(stmts):
        if st.k == "return":
            if mk is not None:
                out += mk(st.e, st.line)
            elif st.e is not None and any(x.k in ("asg", "incdec", "call") for x in ewalk(st.e)):
                out.append(S("expr", e=st.e, line=st.line))
            return out
        if not _has_return(st):
            out.append(st)
            continue
        rest = stmts[k + 1:]
        if st.k == "block":
            inner = tailify(list(st.body) + rest, mk)
            if inner is None:
                return None
            return out + inner
        if st.k == "if":
            tl, el = _stmts_of(st.then), _stmts_of(st.els)
            t_ret, e_ret = _always_returns(tl), _always_returns(el)
            if t_ret and e_ret:
                T, E_ = tailify(tl, mk), tailify(el, mk)
            elif t_ret and not _has_return(el):
                T, E_ = tailify(tl, mk), tailify(el + rest, mk)
            elif e_ret and not _has_return(tl):
                T, E_ = tailify(tl + rest, mk), tailify(el, mk)
            else:
                return None
            if T is None or E_ is None:
                return None
            out.append(S("if", cond=st.cond, then=S("block", body=T, line=st.line), els=S("block", body=E_, line=st.line) if E_ else None, line=st.line))
            return out
        return None
    return out


def inlinable(g):
    """can calls  g(...);  be replaced by g's body?  -> reason it cannot, or None"""
    body = g.body.body if (g.body is not None and g.body.k == "block") else None
    if body is None:
        return "no body"
    if getattr(g, "_inl_reason", 0) != 0:
        return g._inl_reason
    g._inl_reason = _inlinable(g, body)
    return g._inl_reason


def _inlinable(g, body):
    for st in swalk(g.body):
        if st.k in ("goto", "label"):
            return "goto / label"
        if st.k == "decl" and st.var is not None and st.var.scope == "static":
            return "static local"
        if st.k == "omp":
            return "OpenMP directive inside"
    if tailify(list(body)) is None:
        return "return inside a loop"
    for st, x in all_exprs(g.body):
        if x.k == "call" and x.name == g.name:
            return "recursive"
    return None


_INLINE_COUNTER = [0]


def inline_calls(func, byname, which=None, depth=2):
    """copy of `func` in which every call statement  g(args);  of a function g in byname (restricted to the names in `which` when given)
    that is inlinable() is replaced by a block holding g's body: a parameter is substituted by its argument when g never assigns it and
    the argument is free of side effects and memory reads, otherwise it becomes a local initialised with the argument; g's locals are
    renamed (<name>__<g><n>).  Returns (new Func, set of inlined callee names, set of callee names that stayed calls)."""
    done, kept = set(), set()
    new_locals = {}

    def side_effect_free_plain(a):
        return not any(x.k in ("asg", "incdec", "call", "idx", "member") or (x.k == "un" and x.op == "*") for x in ewalk(a))

    def expand(call, line, d, mk=None):
        g = byname.get(call.name)
        if g is None or g is func or (which is not None and g.name not in which) or inlinable(g) is not None or len(call.a) != len(g.params) or d <= 0:
            if g is not None and g is not func:
                kept.add(call.name)
            return None
        _INLINE_COUNTER[0] += 1
        tag = "%s%d" % (g.name, _INLINE_COUNTER[0])
        assigned = set()
        for st, x in all_exprs(g.body):
            if x.k in ("asg", "incdec") and x.a[0].k == "var":
                assigned.add(x.a[0].decl)
            if x.k == "un" and x.op == "&" and x.a[0].k == "var":
                assigned.add(x.a[0].decl)
        vmap = {}
        pre = []
        for p, a in zip(g.params, call.a):
            aa = a
            while aa.k == "cast" and aa.a and aa.a[0].ty == aa.ty:
                aa = aa.a[0]
            addr_ok = aa.k == "un" and aa.op == "&" and not any(x.k in ("asg", "incdec", "call") for x in ewalk(aa))
            if p.decl not in assigned and (side_effect_free_plain(a) or addr_ok):
                vmap[p.decl] = a
            else:
                v = E("var", name="%s__%s" % (p.name, tag), decl="inl:%s:%s" % (tag, p.name), ty=p.ty, scope="local", line=line)
                new_locals[v.decl] = v
                vmap[p.decl] = v
                pre.append(S("decl", var=v, init=_clone_e(a, {}), line=line))
        for did, lv in g.locals.items():
            v = E("var", name="%s__%s" % (lv.name, tag), decl="inl:%s:%s" % (tag, lv.name), ty=lv.ty, scope="local", line=lv.line)
            new_locals[v.decl] = v
            vmap[did] = v
        body = tailify([_clone_s(st, vmap) for st in g.body.body], mk)
        blk = S("block", body=pre + body, line=line, end_line=line)
        done.add(g.name)
        return rewrite(blk, d - 1)

    def rewrite(s, d):
        if s is None or not isinstance(s, S):
            return s
        ce = s.e if s.k == "expr" else None
        while ce is not None and ce.k == "cast" and (ce.ty or "").strip() == "void":
            ce = ce.a[0]          # (void)g(...);
        if ce is not None and ce.k == "call":
            r = expand(ce, s.line, d)
            if r is not None:
                return r
            return s
        # x = g(...);  x op= g(...);   ->   g's body with every 'return e' turned into 'x = e' / 'x op= e'
        if ce is not None and ce.k == "asg" and not any(x.k in ("asg", "incdec", "call") for x in ewalk(ce.a[0])):
            rc = ce.a[1]
            while rc.k == "cast":
                rc = rc.a[0]
            gfn = byname.get(rc.name) if rc.k == "call" else None
            if gfn is not None and gfn is not func and (gfn.rettype or "").strip() != "void":
                casts = []
                x_ = ce.a[1]
                while x_.k == "cast":
                    casts.append(x_)
                    x_ = x_.a[0]

                def mk(e, ln, ce=ce, casts=casts):
                    if e is None:
                        return []
                    val = e
                    for c_ in reversed(casts):
                        w = E("cast")
                        for slot in E.__slots__:
                            setattr(w, slot, getattr(c_, slot))
                        w.a = [val]
                        val = w
                    return [S("expr", e=E("asg", op=ce.op, a=[_clone_e(ce.a[0], {}), val], ty=ce.ty, line=ln), line=ln)]
                r = expand(rc, s.line, d, mk)
                if r is not None:
                    return r
            return s
        for attr in ("then", "els"):
            c = getattr(s, attr)
            if isinstance(c, S):
                setattr(s, attr, rewrite(c, d))
        if isinstance(s.body, list):
            s.body = [rewrite(c, d) for c in s.body]
        elif isinstance(s.body, S):
            s.body = rewrite(s.body, d)
        for st2, x in ([] if s.k in ("block",) else [(s, y) for e in stmt_exprs(s) for y in ewalk(e)]):
            if x.k == "call" and x.name in byname and byname[x.name] is not func:
                kept.add(x.name)
        return s
    nf = Func(func.name, func.file, func.line, func.params, None, func.rettype, func.tu)
    nf.locals = dict(func.locals)
    nf.body = rewrite(_clone_s(func.body, {}), depth)
    nf.locals.update(new_locals)
    nf.inlined_from = sorted(done)
    return nf, done, kept - done if False else kept


_INLINED_CACHE = {}


def inlined_func(tus, name, file=None, keep=()):
    """find_func(...) with the statement-level calls of other functions of the sources replaced by their bodies (helpers named in
    keep stay calls).  Rules written against one function body read through an 'extract helper' refactoring with it."""
    f = find_func(tus, name, file, raw=True)
    key = (id(tus), f.file, name, tuple(sorted(keep)))
    if key not in _INLINED_CACHE:
        byname = {g.name: g for g in all_funcs(tus)}
        which = set(byname) - set(keep) - {name}
        called = set(x.name for st, x in all_exprs(f.body) if x.k == "call")
        if called & which:
            nf, _d, _k = inline_calls(f, byname, which=which, depth=3)
        else:
            nf = f
        _INLINED_CACHE[key] = nf
    return _INLINED_CACHE[key]


def pure_function(g):
    """no store through a pointer / into an array, no call, no static state: its value depends on its scalar arguments (and on what
    its pointer arguments point to) only - an 'address arithmetic' or 'formula' helper"""
    if g.body is None:
        return False
    for st in swalk(g.body):
        if st.k in ("goto", "label", "omp"):
            return False
        if st.k == "decl" and st.var is not None and st.var.scope == "static":
            return False
    for st, x in all_exprs(g.body):
        if x.k == "call":
            return False
        if x.k in ("asg", "incdec") and x.a[0].k != "var":
            return False
    return True


def unroll_const_loops(func, maxiter=64):
    """copy of func in which every  for (i = A; i < B; i++) BODY  with literal / enumerator bounds, at most maxiter iterations, and a
    body that neither assigns i nor leaves the loop early is replaced by its iterations (i replaced by the constant; when the
    bounds are enumerators of one enum, by the enumerator of that value).  For rules that read a per-field table written as a loop."""
    from .omp import loop_header
    enums = getattr(func.tu, "enums", {}) or {}
    order = getattr(func.tu, "enum_order", {}) or {}

    def enum_of(name):
        for en, lst in order.items():
            if name in lst:
                return lst
        return None

    def rewrite(s):
        if s is None or not isinstance(s, S):
            return s
        for attr in ("then", "els"):
            c = getattr(s, attr)
            if isinstance(c, S):
                setattr(s, attr, rewrite(c))
        if isinstance(s.body, list):
            s.body = [rewrite(c) for c in s.body]
        elif isinstance(s.body, S):
            s.body = rewrite(s.body)
        if s.k != "for":
            return s
        h = loop_header(s)
        if h is None:
            return s
        iv, start, bound, step, direction, incl = h
        if start.k != "int" or bound.k != "int" or step not in (1, -1) or (step > 0) != (direction > 0):
            return s
        lo, hi = start.val, bound.val
        vals = list(range(lo, hi + (1 if incl else 0))) if step > 0 else list(range(lo, hi - (1 if incl else 0), -1))
        if not vals or len(vals) > maxiter:
            return s
        body = s.body
        for st in swalk(body):
            if st.k in ("break", "continue", "goto", "label", "return"):
                return s
        ivdecl = None
        for st, x in all_exprs(body):
            if x.k in ("asg", "incdec") and x.a[0].k == "var" and x.a[0].name == iv:
                return s
            if x.k == "un" and x.op == "&" and x.a[0].k == "var" and x.a[0].name == iv:
                return s
            if x.k == "var" and x.name == iv:
                ivdecl = x.decl
        lst = enum_of(start.name) if start.name else (enum_of(bound.name) if bound.name else None)
        out = []
        for v in vals:
            nm = None
            if lst:
                cand = [e_ for e_ in lst if enums.get(e_) == v]
                nm = cand[0] if cand else None
            lit = E("int", val=v, name=nm, ty="int", line=s.line)
            out.append(_clone_s(body, {ivdecl: lit}) if ivdecl is not None else _clone_s(body, {}))
        return S("block", body=out, line=s.line, end_line=s.end_line)
    nf = Func(func.name, func.file, func.line, func.params, None, func.rettype, func.tu)
    nf.locals = dict(func.locals)
    nf.body = rewrite(_clone_s(func.body, {}))
    return nf
