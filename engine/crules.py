"""helpers shared by the C-side rule modules"""
from . import cfront
from .cfront import estr, ewalk

FLIP = {"<": ">", ">": "<", "<=": ">=", ">=": "<=", "==": "==", "!=": "!="}
NEG = {"<": ">=", ">": "<=", "<=": ">", ">=": "<", "==": "!=", "!=": "=="}


def rel_norm(e, pol=True):
    """relational expression + polarity -> canonical (op, lhs text, rhs text) with op in < <= == != ;
    non-relational -> ('truth'|'false', text, '')"""
    if e.k == "bin" and e.op in FLIP:
        op = e.op if pol else NEG[e.op]
        a, b = estr(e.a[0]), estr(e.a[1])
        if op in (">", ">="):
            op, a, b = FLIP[op], b, a
        if op in ("==", "!=") and a > b:
            a, b = b, a
        return (op, a, b)
    return ("truth" if pol else "false", estr(e), "")


def guard_set(cfg, nid):
    return set(rel_norm(e, pol) for e, pol in cfg.guards(nid))


def stores(func, pred=None):
    """CFG nodes whose expression contains an assignment; yields (node, asg E, target E)"""
    cfg = func.cfg
    r = cfg.reachable()
    for n in cfg.nodes:
        if n.id not in r or n.e is None:
            continue
        for x in ewalk(n.e):
            if x.k == "asg" or x.k == "incdec":
                t = x.a[0]
                if pred is None or pred(t):
                    yield n, x, t


def stores_to_param(func, pname):
    def pred(t):
        bv = cfront.base_var(t)
        return bv is not None and bv.name == pname and t.k != "var"
    return list(stores(func, pred))


def calls_in(func, name=None):
    out = []
    for st, x in cfront.all_exprs(func.body):
        if x.k == "call" and (name is None or x.name == name):
            out.append((st, x))
    return out


def is_rnd(e):
    """(x + MAGIC) - MAGIC with MAGIC = 1.5 * 2**52 : round-to-nearest-even under IEEE double evaluation.
    -> x or None"""
    MAGIC = 6755399441055744.0
    if e.k == "bin" and e.op == "-" and e.a[1].k == "float" and e.a[1].val == MAGIC:
        l = e.a[0]
        if l.k == "bin" and l.op == "+" and l.a[1].k == "float" and l.a[1].val == MAGIC:
            return l.a[0]
        if l.k == "bin" and l.op == "+" and l.a[0].k == "float" and l.a[0].val == MAGIC:
            return l.a[1]
    return None


def unsigned_differences(func):
    """assignments / initialisations that store a difference (a - b after stripping implicit casts) into a variable of unsigned
    integer type: C evaluates the difference in int, the conversion wraps a negative result to a huge value
    (-fsanitize=implicit-integer-sign-change).  -> list of (line, type, target text, rhs text)"""
    from .bounds import is_unsigned_ty
    out = []
    for st in cfront.swalk(func.body):
        cands = []
        if st.k == "decl" and st.init is not None:
            cands.append((st.var.ty, st.var.name, st.init, st.line))
        for e in cfront.stmt_exprs(st):
            for x in cfront.ewalk(e):
                if x.k == "asg" and x.op in ("=", "-="):
                    cands.append((x.a[0].ty, cfront.estr(x.a[0]), x.a[1] if x.op == "=" else x, x.line or st.line))
        for ty, name, rhs, line in cands:
            if not ty or "*" in ty or "[" in ty or not is_unsigned_ty(ty):
                continue
            r = rhs
            while r.k == "cast":
                r = r.a[0]
            if (r.k == "bin" and r.op == "-") or (r.k == "asg" and r.op == "-="):
                # a literal minuend larger than any subtrahend of the narrower type is fine: 65535 - x for uint16 x
                out.append((line, ty, name, cfront.estr(rhs)))
    return out


# --------------------------------------------------------------------------------------------------
# linear reading of integer conditions: name- and spelling-independent comparison of guards
def lin(e, defs=None, depth=4):
    """integer expression -> Poly over variable names and ('load', '<array>[<canonical index>]') atoms; integral casts are
    transparent; single-assignment locals in defs are replaced by their definitions"""
    from .poly import Poly
    if e is None:
        return None
    k = e.k
    if k == "int":
        return Poly.const(e.val)
    if k == "var":
        if defs and e.name in defs and depth > 0:
            return lin(defs[e.name], defs, depth - 1)
        return Poly.atom(e.name)
    if k == "cast":
        return lin(e.a[0], defs, depth)
    if k == "bin" and e.op in ("+", "-", "*"):
        a, b = lin(e.a[0], defs, depth), lin(e.a[1], defs, depth)
        if a is None or b is None:
            return None
        return a + b if e.op == "+" else (a - b if e.op == "-" else a * b)
    if k == "un" and e.op == "-":
        a = lin(e.a[0], defs, depth)
        return None if a is None else -a
    if k == "idx":
        base, subs = cfront.subscripts(e)
        if base is not None:
            keys = []
            for s_ in subs:
                p = lin(s_, defs, depth)
                keys.append(repr(p) if p is not None else estr(s_))
            return Poly.atom(("load", "%s[%s]" % (base.name, "][".join(keys))))
    return Poly.atom(("expr", estr(e)))


def rel_lin(e, pol, defs=None):
    """relational expression with polarity -> ('==' | '!=' | '>' | '>=', Poly) read as  Poly op 0 ; truthiness of x -> x != 0.
    '==' / '!=' polynomials are sign-normalised."""
    ops = {"<": ">", "<=": ">=", ">": ">", ">=": ">=", "==": "==", "!=": "!="}
    neg = {"<": ">=", "<=": ">", ">": "<=", ">=": "<", "==": "!=", "!=": "=="}
    if e.k == "bin" and e.op in ops:
        op = e.op if pol else neg[e.op]
        a, b = lin(e.a[0], defs), lin(e.a[1], defs)
        if a is None or b is None:
            return None
        p = (b - a) if op in ("<", "<=") else (a - b)
        op2 = ops[op]
    else:
        p = lin(e, defs)
        if p is None:
            return None
        op2 = "!=" if pol else "=="
    if op2 in ("==", "!="):
        q = -p
        if repr(q) < repr(p):
            p = q
    return (op2, p)


def rel_facts(cfg, nid, defs=None):
    """the guards dominating node nid as a set of (op, Poly-key) facts"""
    out = set()
    for e, pol in cfg.guards(nid):
        r = rel_lin(e, pol, defs)
        if r is not None:
            out.add((r[0], r[1].key()))
    return out


def fact(op, p):
    if op in ("==", "!="):
        q = -p
        if repr(q) < repr(p):
            p = q
    return (op, p.key())


def node_with(cfg, x):
    """the reachable CFG node whose expression contains the expression object x"""
    r = cfg.reachable()
    for n in cfg.nodes:
        if n.id in r and n.e is not None and any(y is x for y in ewalk(n.e)):
            return n
    return None


def local_defs(cfg, nid):
    """name -> defining expression for scalar variables at CFG node nid, valid for that execution of the node: the definition
    'x = e' dominates nid, and no node on a path from the definition to nid (that does not pass through the definition again)
    writes x or a variable that e reads.  Unlike cfront.scalar_defs this accepts definitions that read a cursor which the
    enclosing loop advances after the use (di = i[p] - i[k]; ...; p++)."""
    import networkx as nx
    g = cfg.g
    chain = list(reversed(cfg.dominators(nid)))
    anc = nx.ancestors(g, nid) | {nid}

    def written(n):
        out = set()
        if n.e is None or n.k not in ("expr", "decl", "cond", "return"):
            return out
        for x in ewalk(n.e):
            if x.k == "asg" and x.a[0].k == "var":
                out.add(x.a[0].name)
            if x.k == "incdec" and x.a[0].k == "var":
                out.add(x.a[0].name)
            if x.k == "un" and x.op == "&" and x.a[0].k == "var":
                out.add(x.a[0].name)
        return out
    defs = {}
    for d in chain[:-1]:
        n = cfg.nodes[d]
        if n.k != "expr" or n.e is None or n.e.k != "asg" or n.e.op != "=" or n.e.a[0].k != "var":
            continue
        name = n.e.a[0].name
        rhs = n.e.a[1]
        if any(x.k in ("asg", "incdec", "call") for x in ewalk(rhs)):
            continue
        reads = {x.name for x in ewalk(rhs) if x.k == "var"}
        if name in reads:
            continue
        h = g.copy()
        h.remove_node(d)
        between = set()
        for s_ in g.successors(d):
            if s_ in h:
                between |= {s_} | nx.descendants(h, s_)
        between &= (nx.ancestors(h, nid) if nid in h else set())
        bad = False
        for b in between:
            if written(cfg.nodes[b]) & (reads | {name}):
                bad = True
                break
        if not bad:
            defs[name] = rhs
    return defs


class NotEvaluable(Exception):
    pass


def ceval(e, env):
    """concrete value of a C expression: env maps canonical texts (of loads / variables) to numbers"""
    t = estr(e).replace(" ", "")
    if t in env:
        return env[t]
    if e.k in ("int", "float"):
        return e.val
    if e.k == "var" and e.name in env and not isinstance(env[e.name], (list, tuple)):
        return env[e.name]
    if e.k == "idx":
        b_ = e.a[0]
        while b_.k == "cast":
            b_ = b_.a[0]
        if b_.k == "var" and isinstance(env.get(b_.name), (list, tuple)):
            k_ = ceval(e.a[1], env)
            arr_ = env[b_.name]
            if not (isinstance(k_, int) and 0 <= k_ < len(arr_)):
                raise NotEvaluable("index %s out of the model array %s" % (k_, b_.name))
            return arr_[k_]
    if e.k == "cast":
        v = ceval(e.a[0], env)
        if e.ty and ("int" in e.ty or "long" in e.ty or "short" in e.ty or "char" in e.ty) and "*" not in e.ty:
            return int(v)
        return v
    if e.k == "un" and e.op in ("-", "+", "!"):
        v = ceval(e.a[0], env)
        return -v if e.op == "-" else (v if e.op == "+" else int(not v))
    if e.k == "cond":
        return ceval(e.a[1], env) if ceval(e.a[0], env) else ceval(e.a[2], env)
    if e.k == "call" and e.name in ("abs", "fabs", "fabsf", "labs") and len(e.a) == 1:
        return abs(ceval(e.a[0], env))
    if e.k == "bin":
        if e.op == "&&":
            return int(bool(ceval(e.a[0], env)) and bool(ceval(e.a[1], env)))
        if e.op == "||":
            return int(bool(ceval(e.a[0], env)) or bool(ceval(e.a[1], env)))
        a, b = ceval(e.a[0], env), ceval(e.a[1], env)
        if e.op == "/":
            if isinstance(a, int) and isinstance(b, int):
                if b == 0:
                    raise NotEvaluable("division by zero")
                q = abs(a) // abs(b)
                return q if (a >= 0) == (b >= 0) else -q
            from fractions import Fraction
            return Fraction(a) / Fraction(b)
        ops = {"+": lambda: a + b, "-": lambda: a - b, "*": lambda: a * b, "<": lambda: int(a < b), ">": lambda: int(a > b),
               "<=": lambda: int(a <= b), ">=": lambda: int(a >= b), "==": lambda: int(a == b), "!=": lambda: int(a != b)}
        if e.op in ops:
            r = ops[e.op]()
            if e.op in ("+", "-", "*") and env.get("__int32__") and (e.ty or "").strip() == "int" and isinstance(r, int):
                # C 'int' arithmetic as the compilers of this package implement it: two's complement wrap-around (formally undefined)
                if not -2 ** 31 <= r < 2 ** 31:
                    env.setdefault("__overflow__", []).append(estr(e))
                    r = (r + 2 ** 31) % 2 ** 32 - 2 ** 31
            return r
    raise NotEvaluable(estr(e))


def run_concrete(func, env, max_steps=2000):
    """execute `func` on the concrete environment env (scalars: numbers; arrays: python lists, modified in place) by walking its
    flow graph: branch nodes are evaluated with ceval, expression / declaration nodes executed (scalar and array-cell assignments,
    compound assignments, ++ / --).  Returns ('return', value or None) or ('exit', None).  Raises NotEvaluable for anything else
    (calls with effects, pointer arithmetic, ...).  For small-model case analysis of short helper functions."""
    cfg = func.cfg

    def store(t, v):
        while t.k == "cast":
            t = t.a[0]
        if t.k == "var":
            env[t.name] = v
            return
        if t.k == "idx":
            b_ = t.a[0]
            while b_.k == "cast":
                b_ = b_.a[0]
            if b_.k == "var" and isinstance(env.get(b_.name), list):
                k_ = ceval(t.a[1], env)
                if not (isinstance(k_, int) and 0 <= k_ < len(env[b_.name])):
                    raise NotEvaluable("store outside the model array %s[%s]" % (b_.name, k_))
                env[b_.name][k_] = v
                return
        raise NotEvaluable("store target %s" % estr(t))

    def ex(e):
        while e.k == "cast":
            e = e.a[0]
        if e.k == "asg":
            v = ceval(e.a[1], env) if e.a[1].k != "asg" else ex(e.a[1])
            if e.op == "=":
                store(e.a[0], v)
                return v
            cur = ceval(e.a[0], env)
            if e.op in ("+=", "-=", "*="):
                nv = cur + v if e.op == "+=" else (cur - v if e.op == "-=" else cur * v)
                store(e.a[0], nv)
                return nv
            raise NotEvaluable(estr(e))
        if e.k == "incdec":
            cur = ceval(e.a[0], env)
            store(e.a[0], cur + (1 if e.op in ("++", "post++", "pre++") or "+" in e.op else -1))
            return cur
        if e.k == "comma" or (e.k == "bin" and e.op == ","):
            r_ = None
            for a in e.a:
                r_ = ex(a)
            return r_
        return ceval(e, env)
    nid = cfg.entry.id
    for _ in range(max_steps):
        n = cfg.nodes[nid]
        succ = list(cfg.g.successors(nid))
        if n.k == "cond":
            v = bool(ceval(n.e, env))
            succ = [s_ for s_ in succ if cfg.nodes[s_].k == "assume" and cfg.nodes[s_].pol == v]
        elif n.k == "expr" and n.e is not None:
            ex(n.e)
        elif n.k == "decl":
            if n.e is not None and n.s is not None and getattr(n.s, "var", None) is not None:
                env[n.s.var.name] = ex(n.e)
        elif n.k == "return":
            return ("return", ex(n.e) if n.e is not None else None)
        elif nid == cfg.exit.id:
            return ("exit", None)
        elif n.k not in ("entry", "assume", "join"):
            raise NotEvaluable("statement kind %s" % n.k)
        if not succ:
            return ("exit", None)
        if len(succ) != 1:
            raise NotEvaluable("%d successors after %r" % (len(succ), n))
        nid = succ[0]
    raise NotEvaluable("no exit within %d steps" % max_steps)
