"""E3: forward 'definitely assigned' dataflow for C locals on the CFG.

Lattice per local: scalars must-defined bool; small arrays a frozenset of defined cell numbers or ALL;
symbolic cells (array, index-texts) defined until one of the index variables is assigned.
join = intersection.  Reports reads of locals that are not definitely assigned on some path.
"""
import re
from collections import deque

from . import cfront
from .cfront import estr, ewalk, subscripts
from .report import AnalysisError

ALL = "ALL"
MAXCELLS = 64


def dims_of(ty):
    """'double[3][3]' -> [3,3] ; non-array -> None ; unknown extent -> None"""
    if ty is None or "[" not in ty:
        return None
    if "(*)" in ty:
        return None
    ds = re.findall(r"\[(\d*)\]", ty)
    if not ds or any(d == "" for d in ds):
        return None
    return [int(d) for d in ds]


def ncells(dims):
    n = 1
    for d in dims:
        n *= d
    return n


class State(object):
    __slots__ = ("v", "sym")

    def __init__(self, v=None, sym=None):
        self.v = v if v is not None else {}
        self.sym = sym if sym is not None else frozenset()

    def copy(self):
        return State(dict(self.v), self.sym)

    def __eq__(self, o):
        return self.v == o.v and self.sym == o.sym

    def join(self, o):
        out = {}
        for k in self.v:
            if k not in o.v:
                continue
            x, y = self.v[k], o.v[k]
            if x == y:
                out[k] = x
            elif isinstance(x, bool) or isinstance(y, bool):
                out[k] = bool(x is True and y is True)
            elif x == ALL:
                out[k] = y
            elif y == ALL:
                out[k] = x
            else:
                out[k] = x & y
        # a ('*',) entry records that SOME path stored into the array at an index the analysis cannot enumerate (a loop filling
        # mat[3 * q + p]): reads of that array are then undecided, never reported (a report needs positive evidence)
        may = frozenset(s_ for s_ in (self.sym | o.sym) if s_[1] == ("*",))
        return State(out, (self.sym & o.sym) | may)


def const_index(e):
    """value of an index expression made of integer literals, + - * and parentheses / casts; None otherwise"""
    if e is None:
        return None
    if e.k == "int":
        return e.val
    if e.k in ("paren", "cast") and e.a:
        return const_index(e.a[-1])
    if e.k == "bin" and e.op in ("+", "-", "*") and len(e.a) == 2:
        a, b = const_index(e.a[0]), const_index(e.a[1])
        if a is None or b is None:
            return None
        return a + b if e.op == "+" else (a - b if e.op == "-" else a * b)
    return None


class Analyzer(object):
    """one function.  tracked: dict declid -> (name, dims|None) of variables to track.
    For summaries, parameters can be tracked as if they were locals (treat_params)."""

    def __init__(self, func, tus, treat_params=None, depth=0):
        self.f = func
        self.tus = tus
        self.cfg = func.cfg
        self.depth = depth
        self.tracked = {}
        for d, v in func.locals.items():
            if v.scope == "local":
                self.tracked[d] = (v.name, dims_of(v.ty))
        self.param_dims = treat_params or {}
        for d, dims in self.param_dims.items():
            p = [x for x in func.params if x.decl == d][0]
            self.tracked[d] = (p.name, dims)
        self.reports = []          # (var name, index text, line, node)
        self.n_reads = 0
        self.reporting = False
        self.unknown_calls = set()

    # -- state helpers
    def cell(self, decl, idx):
        name, dims = self.tracked[decl]
        if dims is None:
            return None if idx else 0
        if len(idx) != len(dims):
            return None
        c = 0
        for d, i in zip(dims, idx):
            iv = const_index(i)          # 3 * 0 + 1 of an unrolled loop is the cell 1
            if iv is None or not (0 <= iv < d):
                return None
            c = c * d + iv
        return c

    def is_array(self, decl):
        return self.tracked[decl][1] is not None

    def is_def(self, st, decl, idx):
        v = st.v.get(decl)
        if v is True or v == ALL:
            return True
        if self.is_array(decl) and (decl, ("*",), frozenset()) in st.sym:
            return True          # stored by a loop at an index the analysis cannot enumerate: which cells are set is undecided, nothing is reported
        if v is False or v is None:
            return False
        c = self.cell(decl, idx)
        if c is not None:
            return c in v
        key = (decl, tuple(estr(i) for i in idx))
        for s in st.sym:
            if s[0] == key[0] and s[1] == key[1]:
                return True
        return False

    def define(self, st, decl, idx):
        if not self.is_array(decl):
            st.v[decl] = True
            self.kill_sym(st, self.tracked[decl][0])
            return
        v = st.v.get(decl)
        if v == ALL:
            return
        name, dims = self.tracked[decl]
        c = self.cell(decl, idx)
        if c is None:
            if len(idx) == len(dims):
                names = frozenset(x.name for i in idx for x in ewalk(i) if x.k == "var")
                st.sym = st.sym | {(decl, tuple(estr(i) for i in idx), names)}
            st.sym = st.sym | {(decl, ("*",), frozenset())}
            return
        nv = (v or frozenset()) | {c}
        st.v[decl] = ALL if len(nv) == ncells(dims) else frozenset(nv)

    def kill_sym(self, st, varname):
        if st.sym:
            st.sym = frozenset(s for s in st.sym if varname not in s[2])

    def report(self, e, decl, idx, node, what="read"):
        if self.reporting:
            name = self.tracked[decl][0]
            self.reports.append((name, "".join("[%s]" % estr(i) for i in idx), e.line or node.line, what))

    # -- expression transfer
    def read_lv(self, st, e, node):
        """e is an lvalue expression being read"""
        v, idx = subscripts(e)
        if v is not None and v.decl in self.tracked:
            self.n_reads += 1
            for i in idx:
                self.ev(st, i, node)
            if self.is_array(v.decl) and len(idx) < len(self.tracked[v.decl][1]):
                # row / whole-array value used as pointer (passed somewhere) - handled by callers
                return
            if not self.is_def(st, v.decl, idx):
                self.report(e, v.decl, idx, node)
            return
        # not a tracked lvalue: evaluate sub-expressions
        if e.k == "idx":
            self.ev(st, e.a[0], node)
            self.ev(st, e.a[1], node)
        elif e.k == "un":
            self.ev(st, e.a[0], node)
        elif e.k == "member":
            if e.op == "->":
                self.ev(st, e.a[0], node)
        elif e.k == "cast":
            self.read_lv(st, e.a[0], node)

    def write_lv(self, st, e, node):
        v, idx = subscripts(e)
        if v is not None and v.decl in self.tracked:
            for i in idx:
                self.ev(st, i, node)
            self.define(st, v.decl, idx)
            return
        if v is not None and v.k == "var":
            for i in idx:
                self.ev(st, i, node)
            if not idx:
                self.kill_sym(st, v.name)
            return
        if e.k == "un" and e.op == "*":
            inner = e.a[0]
            bv = cfront.base_var(inner)
            if bv is not None and bv.decl in self.param_dims and inner.k == "var":
                self.define(st, bv.decl, [cfront.E("int", val=0)] if self.is_array(bv.decl) else [])
                return
            self.ev(st, inner, node)
            return
        if e.k == "idx":
            self.ev(st, e.a[0], node)
            self.ev(st, e.a[1], node)
        elif e.k == "member":
            if e.op == "->":
                self.ev(st, e.a[0], node)
        elif e.k == "cast":
            self.write_lv(st, e.a[0], node)

    def ev(self, st, e, node):
        if e is None:
            return
        k = e.k
        if k in ("int", "float", "str", "sizeof"):
            return
        if k == "var":
            if e.decl in self.tracked:
                self.n_reads += 1
                if self.is_array(e.decl):
                    return   # array name used as pointer value (decay) outside a call: no cell read
                if not self.is_def(st, e.decl, []):
                    self.report(e, e.decl, [], node)
            return
        if k == "asg":
            self.ev(st, e.a[1], node)
            if e.op != "=":
                self.read_lv(st, e.a[0], node)
            self.write_lv(st, e.a[0], node)
            return
        if k == "incdec":
            self.read_lv(st, e.a[0], node)
            self.write_lv(st, e.a[0], node)
            return
        if k in ("idx", "member"):
            self.read_lv(st, e, node)
            return
        if k == "un" and e.op == "*":
            inner = e.a[0]
            if inner.k == "var" and inner.decl in self.param_dims:
                idx = [cfront.E("int", val=0)] if self.is_array(inner.decl) else []
                if not self.is_def(st, inner.decl, idx):
                    self.report(e, inner.decl, idx, node)
                return
            self.ev(st, inner, node)
            return
        if k == "un" and e.op == "&":
            # address taken outside a call: assume the pointee gets defined through it (no report later)
            v, idx = subscripts(e.a[0])
            if v is not None and v.decl in self.tracked:
                if idx and self.cell(v.decl, idx) is not None:
                    self.define(st, v.decl, idx)
                else:
                    st.v[v.decl] = ALL if self.is_array(v.decl) else True
            else:
                self.ev(st, e.a[0], node)
            return
        if k == "call":
            self.call(st, e, node)
            return
        for x in e.a:
            self.ev(st, x, node)

    def call(self, st, e, node):
        callee = None
        for tu in self.tus.values():
            if e.name in tu.funcs:
                callee = tu.funcs[e.name]
        for ai, a in enumerate(e.a):
            # local array (or row of it) / &local passed to the callee
            target = a
            addr = False
            while target.k == "cast":
                target = target.a[0]
            if target.k == "un" and target.op == "&":
                addr = True
                target = target.a[0]
            v, idx = subscripts(target)
            passes_ref = v is not None and v.decl in self.tracked and (
                addr or (self.is_array(v.decl) and len(idx) < len(self.tracked[v.decl][1])))
            if not passes_ref:
                self.ev(st, a, node)
                continue
            for i in idx:
                self.ev(st, i, node)
            name, dims = self.tracked[v.decl]
            whole = (not idx)
            if callee is None or ai >= len(callee.params) or self.depth > 4:
                # external / unknown: assume it defines what it is given and reads nothing undefined
                self.unknown_calls.add(e.name)
                if whole:
                    st.v[v.decl] = ALL if self.is_array(v.decl) else True
                else:
                    self._define_sub(st, v.decl, idx)
                continue
            sub_dims = (dims[len(idx):] if dims else None) if not addr else ([1] if not dims or len(idx) == len(dims) else dims[len(idx):])
            summ = summary(callee, self.tus, ai, tuple(sub_dims) if sub_dims else None, self.depth + 1)
            # reads before write
            if summ["reads"]:
                if whole:
                    if self.is_array(v.decl):
                        if st.v.get(v.decl) != ALL:
                            self.report(e, v.decl, [cfront.E("var", name="*")], node,
                                        "read by callee %s" % e.name)
                    elif not self.is_def(st, v.decl, []):
                        self.report(e, v.decl, [], node, "read by callee %s" % e.name)
                else:
                    if not self._sub_all(st, v.decl, idx):
                        self.report(e, v.decl, idx, node, "read by callee %s" % e.name)
            if summ["defines_all"]:
                if whole:
                    st.v[v.decl] = ALL if self.is_array(v.decl) else True
                else:
                    self._define_sub(st, v.decl, idx)

    def _sub_all(self, st, decl, idx):
        v = st.v.get(decl)
        if v == ALL or v is True:
            return True
        name, dims = self.tracked[decl]
        if dims is None or any(i.k != "int" for i in idx):
            return False
        # all cells with that prefix
        pre = 0
        for d, i in zip(dims, idx):
            pre = pre * d + i.val
        rest = ncells(dims[len(idx):])
        return all((pre * rest + j) in (v or ()) for j in range(rest))

    def _define_sub(self, st, decl, idx):
        name, dims = self.tracked[decl]
        if dims is None:
            st.v[decl] = True
            return
        if any(i.k != "int" for i in idx):
            return
        pre = 0
        for d, i in zip(dims, idx):
            pre = pre * d + i.val
        rest = ncells(dims[len(idx):])
        v = st.v.get(decl)
        if v == ALL:
            return
        nv = frozenset(v or ()) | frozenset(pre * rest + j for j in range(rest))
        st.v[decl] = ALL if len(nv) == ncells(dims) else nv

    # -- node transfer
    def transfer(self, st, node):
        k = node.k
        if k == "decl":
            var = node.s.var
            if var.decl in self.tracked:
                if node.s.init is not None:
                    self.ev(st, node.s.init, node)
                    st.v[var.decl] = ALL if self.is_array(var.decl) else True
                else:
                    st.v[var.decl] = frozenset() if self.is_array(var.decl) else False
                self.kill_sym(st, var.name)
            elif node.s.init is not None:
                self.ev(st, node.s.init, node)
        elif k in ("expr", "cond", "return"):
            self.ev(st, node.e, node)
        elif k == "omp_begin":
            for ck, cargs, exprs in node.omp.clauses:
                for x in exprs:
                    if x.k != "var" or x.decl not in self.tracked:
                        continue
                    if ck in ("private", "lastprivate"):
                        st.v[x.decl] = frozenset() if self.is_array(x.decl) else False
                    elif ck in ("reduction", "firstprivate"):
                        if not self.is_array(x.decl) and not self.is_def(st, x.decl, []):
                            self.report(x, x.decl, [], node, "%s of undefined" % ck)
        elif k == "omp_end":
            for ck, cargs, exprs in node.omp.clauses:
                for x in exprs:
                    if x.k != "var" or x.decl not in self.tracked:
                        continue
                    if ck == "private":
                        st.v[x.decl] = frozenset() if self.is_array(x.decl) else False
                    elif ck == "lastprivate":
                        st.v[x.decl] = ALL if self.is_array(x.decl) else True
        elif k == "join" and node.s is not None and node.s.k in ("for",) and id(node.s) in self.fill_loops:
            pass
        elif k == "assume" and not node.pol:
            # exit edge of a canonical full-fill loop: arrays completely written by the nest
            for decl, cells in self.fill_exit.get(id(node.e), ()):
                v = st.v.get(decl)
                if v == ALL:
                    continue
                nv = frozenset(v or ()) | cells
                st.v[decl] = ALL if len(nv) == ncells(self.tracked[decl][1]) else nv
        return st

    # -- canonical fill loops
    def find_fill_loops(self):
        """for (i=0;i<N;i++) [for (j=0;j<M;j++)] { a[i][j] = e; ... } with N,M the declared extents and
        the store executed unconditionally in every iteration -> a is ALL at loop exit."""
        self.fill_loops = {}
        self.fill_exit = {}     # id(cond expr) -> set(decl)
        for s in cfront.swalk(self.f.body):
            if s.k != "for":
                continue
            hdr = canon_header(s)
            if hdr is None or hdr[1] != 0 or hdr[3] != 1 or hdr[2].k != "int":
                continue
            # any escape inside disqualifies
            if any(x.k in ("break", "continue", "goto", "return", "label") for x in cfront.swalk(s.body)):
                continue
            filled = []
            self._fills(s.body, [(hdr[0], hdr[2].val)], filled)
            if filled:
                self.fill_exit.setdefault(id(s.cond), []).extend(filled)

    def _fills(self, body, ivs, filled):
        stmts = body.body if body.k == "block" else [body]
        for st in stmts:
            if st.k == "expr" and st.e.k == "asg" and st.e.op == "=":
                e = st.e
                # chained a = b = 0 : consider outermost and nested targets
                targets = []
                while e is not None and e.k == "asg" and e.op == "=":
                    targets.append(e.a[0])
                    e = e.a[1]
                for t in targets:
                    v, idx = subscripts(t)
                    if v is None or v.decl not in self.tracked or not self.is_array(v.decl):
                        continue
                    dims = self.tracked[v.decl][1]
                    if len(idx) != len(dims):
                        continue
                    ok = True
                    used = set()
                    ranges = []
                    ivd = dict(ivs)
                    for d, i in zip(dims, idx):
                        if i.k == "var" and i.name in ivd and ivd[i.name] <= d and i.name not in used:
                            used.add(i.name)
                            ranges.append(range(ivd[i.name]))
                        elif i.k == "int" and 0 <= i.val < d:
                            ranges.append([i.val])
                        else:
                            ok = False
                    if ok and used == set(ivd):
                        import itertools
                        cells = set()
                        for combo in itertools.product(*ranges):
                            c = 0
                            for d, x in zip(dims, combo):
                                c = c * d + x
                            cells.add(c)
                        filled.append((v.decl, frozenset(cells)))
            elif st.k == "for":
                hdr = canon_header(st)
                if hdr is not None and hdr[1] == 0 and hdr[3] == 1 and hdr[2].k == "int":
                    self._fills(st.body, ivs + [(hdr[0], hdr[2].val)], filled)
            elif st.k == "block":
                self._fills(st, ivs, filled)

    def run(self):
        self.find_fill_loops()
        cfg = self.cfg
        IN = {}
        init = State()
        for d in self.param_dims:
            init.v[d] = frozenset() if self.is_array(d) else False
        IN[cfg.entry.id] = init
        work = deque([cfg.entry.id])
        OUT = {}
        it = 0
        while work:
            nid = work.popleft()
            it += 1
            if it > 200000:
                raise AnalysisError("definit did not converge in %s" % self.f.name)
            st = self.transfer(IN[nid].copy(), cfg.nodes[nid])
            OUT[nid] = st
            for s in cfg.g.successors(nid):
                if s not in IN:
                    IN[s] = st.copy()
                    work.append(s)
                else:
                    j = IN[s].join(st)
                    if not (j == IN[s]):
                        IN[s] = j
                        work.append(s)
        # reporting pass
        self.reporting = True
        self.n_reads = 0
        for nid in sorted(IN):
            self.transfer(IN[nid].copy(), cfg.nodes[nid])
        self.exit_state = IN.get(cfg.exit.id)
        return self.reports


def canon_header(s):
    """for (v = a; v < b; v++ | v += c)  -> (name, start int|E, bound E, step int) or None"""
    if s.k != "for" or s.cond is None or s.inc is None:
        return None
    init = s.init
    name = None
    start = None
    if init is not None and init.k == "expr" and init.e.k == "asg" and init.e.op == "=" and init.e.a[0].k == "var":
        name = init.e.a[0].name
        start = init.e.a[1]
    elif init is not None and init.k == "decl" and init.init is not None:
        name = init.var.name
        start = init.init
    else:
        return None
    c = s.cond
    if not (c.k == "bin" and c.op in ("<", "<=") and c.a[0].k == "var" and c.a[0].name == name):
        return None
    bound = c.a[1]
    inc = s.inc
    step = None
    if inc.k == "incdec" and inc.op == "++" and inc.a[0].k == "var" and inc.a[0].name == name:
        step = 1
    elif inc.k == "asg" and inc.op == "+=" and inc.a[0].k == "var" and inc.a[0].name == name and inc.a[1].k == "int":
        step = inc.a[1].val
    elif inc.k == "asg" and inc.op == "=" and inc.a[0].k == "var" and inc.a[0].name == name and \
            inc.a[1].k == "bin" and inc.a[1].op == "+" and inc.a[1].a[0].k == "var" and inc.a[1].a[0].name == name:
        step = inc.a[1].a[1].val if inc.a[1].a[1].k == "int" else inc.a[1].a[1]
    else:
        return None
    if c.op == "<=":
        return None
    sv = start.val if start.k == "int" else start
    return (name, sv, bound, step)


_SUMM = {}


def summary(callee, tus, pi, dims, depth):
    """does callee read parameter #pi (as array with dims, or scalar cell) before writing it;
    does it define all of it on every path to exit"""
    key = (callee.file, callee.name, pi, dims, id(callee))
    if key in _SUMM:
        return _SUMM[key]
    _SUMM[key] = dict(reads=False, defines_all=False)   # recursion guard
    p = callee.params[pi]
    an = Analyzer(callee, tus, treat_params={p.decl: list(dims) if dims else None}, depth=depth)
    reps = an.run()
    reads = any(r[0] == p.name for r in reps)
    ex = an.exit_state
    defines = False
    if ex is not None:
        v = ex.v.get(p.decl)
        defines = (v == ALL or v is True)
    out = dict(reads=reads, defines_all=defines)
    _SUMM[key] = out
    return out


def analyse(func, tus):
    an = Analyzer(func, tus)
    reps = an.run()
    return an, reps
