"""Coverage of an array by unconditional affine writes: which contiguous index interval is certainly
written.  Used for "output / work buffers are fully defined before they are read" rules."""
from . import cfront, omp
from .poly import Poly
from .report import AnalysisError


class Site(object):
    def __init__(self, acc, loops):
        self.acc = acc
        self.loops = loops     # enclosing canonical loops, outermost first: list of dict(iv, lo, hi, step, stmt)


def loop_chain(func, root=None):
    """map id(stmt) -> list of enclosing 'for' statements (outermost first) for expression statements"""
    chains = {}

    def rec(s, chain, cond_depth):
        if s is None:
            return
        if s.k == "for":
            if s.init is not None:
                rec(s.init, chain, cond_depth)
            rec(s.body, chain + [s], cond_depth)
            return
        if s.k in ("while", "do"):
            rec(s.body, chain + [s], cond_depth)
            return
        if s.k == "if":
            if cfront.is_zero_lit(s.cond):
                rec(s.els, chain, cond_depth)
                return
            rec(s.then, chain, cond_depth + 1)
            rec(s.els, chain, cond_depth + 1)
            return
        if s.k in ("block", "multi"):
            for x in s.body:
                rec(x, chain, cond_depth)
            return
        if s.k in ("omp", "label"):
            rec(s.body, chain, cond_depth)
            return
        chains[id(s)] = (list(chain), cond_depth)
    rec(root if root is not None else func.body, [], 0)
    return chains


def has_escape(loop):
    for x in cfront.swalk(loop.body):
        if x.k in ("break", "continue", "return", "goto"):
            return True
    return False


def merge_intervals(ivs, facts):
    """list of (lo, hi) polys -> merged list after chaining adjacent/overlapping ones (needs provable order)"""
    if not ivs:
        return []
    rest = list(ivs)
    # pick a start: the interval whose lo is provably <= all others
    out = []
    while rest:
        start = None
        for c in rest:
            if all(omp.proves_nonneg(o[0] - c[0], facts) for o in rest):
                start = c
                break
        if start is None:
            return None
        rest.remove(start)
        lo, hi = start
        changed = True
        while changed:
            changed = False
            for c in list(rest):
                # c.lo <= hi + 1  -> extends
                if omp.proves_nonneg(hi + 1 - c[0], facts):
                    rest.remove(c)
                    if omp.proves_nonneg(c[1] - hi, facts):
                        hi = c[1]
                    elif not omp.proves_nonneg(hi - c[1], facts):
                        return None
                    changed = True
        out.append((lo, hi))
    return out


def covered(func, tus, arrname, root=None, facts=None):
    """-> list of (lo, hi) intervals of arrname[...] that are written unconditionally by `root`
    (default: whole function body), proven with the lower-bound facts"""
    facts = list(facts or [])
    reg = omp.collect_accesses(func, tus, root)
    chains = loop_chain(func, root)
    # statement text -> chain: accesses carry .stmt text and line; map through expression statements
    stmts = {}
    for s in cfront.swalk(root if root is not None else func.body):
        if s.k == "expr":
            stmts.setdefault((cfront.estr_top(s.e), s.line), s)
    sites = []
    for a in reg.acc:
        if a.arr != arrname or a.rw != "w":
            continue
        s = stmts.get((a.stmt, a.line))
        if s is None:
            # line of the access may differ from the statement's line: match on text only
            cands = [v for (t, l), v in stmts.items() if t == a.stmt]
            if len(cands) != 1:
                continue
            s = cands[0]
        chain, cdepth = chains.get(id(s), ([], 1))
        if cdepth > 0 or a.guards:
            continue   # conditional store: not counted
        if a.idx is None or omp.is_datadep(a.idx):
            continue
        if any(l.k != "for" or has_escape(l) for l in chain):
            continue
        hdrs = [omp.loop_header(l) for l in chain]
        if any(h is None for h in hdrs):
            continue
        sites.append((a, chain, hdrs))
    # group by outermost loop (or top level)
    return _cover_level(reg, sites, 0, facts)


def _cover_level(reg, sites, depth, facts):
    """sites all share the same enclosing loops above `depth`; returns intervals as polys over the
    induction variables of loops above depth"""
    ivs = []
    groups = {}
    order = []
    for a, chain, hdrs in sites:
        if len(chain) == depth:
            ivs.append((a.idx, a.idx))
        else:
            k = id(chain[depth])
            if k not in groups:
                groups[k] = []
                order.append(k)
            groups[k].append((a, chain, hdrs))
    for k in order:
        grp = groups[k]
        a0, chain0, hdrs0 = grp[0]
        iv, start, bound, step, direction, incl = hdrs0[depth]
        rng = a0.ranges.get(iv)
        if rng is None or omp.is_datadep(rng[0]) or omp.is_datadep(rng[1]):
            continue
        lo, hi = rng
        f2 = facts + [hi - lo]
        inner = _cover_level(reg, grp, depth + 1, f2)
        if inner is None:
            continue
        astep = step if direction > 0 else -step
        stepp = Poly.const(astep) if isinstance(astep, int) else astep
        # each inner interval must be c*iv + [L,H] with the same c
        forms = []
        okk = True
        for (l, h) in inner:
            if l.degree_in(iv) > 1 or h.degree_in(iv) > 1 or l.coeff(iv, 1) != h.coeff(iv, 1):
                okk = False
                break
            forms.append((l.coeff(iv, 1), l.without(iv), h.without(iv)))
        if not okk or not forms:
            continue
        bycoef = {}
        for c, L, H in forms:
            bycoef.setdefault(c, []).append((L, H))
        for c, lst in bycoef.items():
            merged = merge_intervals(lst, f2)
            if merged is None:
                continue
            for (L, H) in merged:
                if c.is_zero():
                    ivs.append((L, H))
                    continue
                if omp.sign_of(c) != 1:
                    continue
                stride = c * stepp
                # iterations tile contiguously when block width >= stride
                if not omp.proves_nonneg(H - L + 1 - stride, f2):
                    # isolated cells per iteration: no contiguous coverage claimed
                    continue
                # last iterate: step 1 -> hi ; else start and bound must be multiples of the step
                if isinstance(astep, int) and astep == 1:
                    last = hi
                else:
                    first = lo
                    n_iter_bound = hi + 1     # exclusive bound
                    if not (_divisible(first, stepp) and _divisible(n_iter_bound, stepp)):
                        continue
                    last = n_iter_bound - stepp
                ivs.append((c * lo + L, c * last + H))
    return merge_intervals(ivs, facts) if ivs else []


def _divisible(p, s):
    """polynomial p is s*q for a polynomial q (s a single atom or constant)"""
    if s.is_const():
        c = s.const_value()
        return all((v / c).denominator == 1 for v in p.t.values())
    ats = list(s.atoms())
    if len(ats) != 1 or s != Poly.atom(ats[0]):
        return False
    x = ats[0]
    return all(any(a == x for a, pw in k) for k in p.t)
