"""Exact multivariate polynomials / rational functions over atoms (E6 core, also used for index forms).

atom: str (input cell / variable) or tuple (fname, canon-arg, ...) for an uninterpreted application.
Poly: dict monomial -> Fraction ; monomial: tuple of (atom, power) sorted by atom sort key.
"""
from fractions import Fraction as Fr

_KEYCACHE = {}


def akey(a):
    k = _KEYCACHE.get(a)
    if k is None:
        k = (0, a) if isinstance(a, str) else (1, repr(a))
        _KEYCACHE[a] = k
    return k


def _mono_mul(m1, m2):
    if not m1:
        return m2
    if not m2:
        return m1
    d = dict(m1)
    for a, p in m2:
        d[a] = d.get(a, 0) + p
    return tuple(sorted(((a, p) for a, p in d.items() if p), key=lambda x: akey(x[0])))


class Poly(object):
    __slots__ = ("t",)

    def __init__(self, t=None):
        self.t = {k: v for k, v in (t or {}).items() if v != 0}

    @staticmethod
    def const(c):
        return Poly({(): Fr(c)})

    @staticmethod
    def atom(a, p=1):
        return Poly({((a, p),): Fr(1)})

    def __add__(self, o):
        o = _P(o)
        t = dict(self.t)
        for k, v in o.t.items():
            nv = t.get(k, 0) + v
            if nv == 0:
                t.pop(k, None)
            else:
                t[k] = nv
        return Poly(t)

    __radd__ = __add__

    def __neg__(self):
        return Poly({k: -v for k, v in self.t.items()})

    def __sub__(self, o):
        return self + (-_P(o))

    def __rsub__(self, o):
        return _P(o) - self

    def __mul__(self, o):
        o = _P(o)
        if len(self.t) * len(o.t) > 4000000:
            raise OverflowError("polynomial product too large")
        t = {}
        for k1, v1 in self.t.items():
            for k2, v2 in o.t.items():
                k = _mono_mul(k1, k2)
                nv = t.get(k, 0) + v1 * v2
                if nv == 0:
                    t.pop(k, None)
                else:
                    t[k] = nv
        return Poly(t)

    __rmul__ = __mul__

    def __pow__(self, n):
        assert isinstance(n, int) and n >= 0
        r = Poly.const(1)
        for _ in range(n):
            r = r * self
        return r

    def scale(self, c):
        c = Fr(c)
        return Poly({k: v * c for k, v in self.t.items()})

    def is_zero(self):
        return not self.t

    def is_const(self):
        return all(k == () for k in self.t)

    def const_value(self):
        return self.t.get((), Fr(0))

    def atoms(self):
        s = set()
        for k in self.t:
            for a, p in k:
                s.add(a)
        return s

    def degree_in(self, atom):
        d = 0
        for k in self.t:
            for a, p in k:
                if a == atom:
                    d = max(d, p)
        return d

    def coeff(self, atom, power=1):
        """coefficient polynomial of atom**power (terms where atom appears exactly to that power)"""
        t = {}
        for k, v in self.t.items():
            pw = 0
            for a, p in k:
                if a == atom:
                    pw = p
            if pw == power:
                nk = tuple((a, p) for a, p in k if a != atom)
                t[nk] = t.get(nk, 0) + v
        return Poly(t)

    def without(self, atom):
        """terms not containing atom"""
        return Poly({k: v for k, v in self.t.items() if all(a != atom for a, p in k)})

    def subs(self, mapping):
        """mapping atom -> Poly"""
        if not mapping:
            return self
        out = Poly()
        for k, v in self.t.items():
            term = Poly.const(v)
            for a, p in k:
                if a in mapping:
                    term = term * (_P(mapping[a]) ** p)
                else:
                    term = term * Poly.atom(a, p)
            out = out + term
        return out

    def key(self):
        return tuple(sorted(((k, v) for k, v in self.t.items()), key=lambda kv: tuple((akey(a), p) for a, p in kv[0])))

    def __eq__(self, o):
        if o is None:
            return False
        o = _P(o)
        return self.t == o.t

    def __ne__(self, o):
        return not self.__eq__(o)

    def __hash__(self):
        return hash(self.key())

    def __repr__(self):
        if not self.t:
            return "0"
        parts = []
        for k, v in sorted(self.t.items(), key=lambda kv: tuple((akey(a), p) for a, p in kv[0])):
            mon = "*".join((_astr(a) if p == 1 else "%s^%d" % (_astr(a), p)) for a, p in k)
            if not mon:
                parts.append(str(v))
            elif v == 1:
                parts.append(mon)
            elif v == -1:
                parts.append("-" + mon)
            else:
                parts.append("%s*%s" % (v, mon))
        return " + ".join(parts).replace("+ -", "- ")

    def lead_normalised(self):
        """divide by the coefficient of the first monomial in sort order -> (poly, coeff)"""
        if not self.t:
            return self, Fr(1)
        k0 = min(self.t, key=lambda k: tuple((akey(a), p) for a, p in k))
        c = self.t[k0]
        return self.scale(1 / c), c


def _astr(a):
    if isinstance(a, str):
        return a
    if a[0] == "inv3x3":
        return "inv{%03d}[%d,%d]" % (abs(hash(a[3])) % 1000, a[1], a[2])
    if a[0] == "inv3x3_status":
        return "invstatus{%03d}" % (abs(hash(a[1])) % 1000)
    return "%s(%s)" % (a[0], ",".join(_cstr(x) for x in a[1:]))


def _cstr(x):
    if isinstance(x, tuple) and len(x) == 2 and all(isinstance(y, tuple) for y in x):
        # canon of a Rat: (numkey, denkey)
        n = Poly(dict(x[0]))
        d = Poly(dict(x[1]))
        if d == Poly.const(1):
            return repr(n)
        return "(%r)/(%r)" % (n, d)
    return str(x)


def _P(x):
    if isinstance(x, Poly):
        return x
    return Poly.const(x)


class Rat(object):
    """rational function n/d"""
    __slots__ = ("n", "d")

    def __init__(self, n, d=None):
        self.n = _P(n)
        self.d = _P(d) if d is not None else Poly.const(1)
        if self.d.is_const() and not self.d.is_zero():
            c = self.d.const_value()
            if c != 1:
                self.n = self.n.scale(1 / c)
                self.d = Poly.const(1)

    @staticmethod
    def const(c):
        return Rat(Poly.const(c))

    @staticmethod
    def atom(a):
        return Rat(Poly.atom(a))

    def __add__(self, o):
        if hasattr(o, "__array_priority__"):
            return NotImplemented
        o = _R(o)
        if self.d == o.d:
            return Rat(self.n + o.n, self.d)
        return Rat(self.n * o.d + o.n * self.d, self.d * o.d)

    __radd__ = __add__

    def __sub__(self, o):
        if hasattr(o, "__array_priority__"):
            return NotImplemented
        o = _R(o)
        if self.d == o.d:
            return Rat(self.n - o.n, self.d)
        return Rat(self.n * o.d - o.n * self.d, self.d * o.d)

    def __rsub__(self, o):
        return _R(o) - self

    def __neg__(self):
        return Rat(-self.n, self.d)

    def __mul__(self, o):
        if hasattr(o, "__array_priority__"):
            return NotImplemented
        o = _R(o)
        return Rat(self.n * o.n, self.d * o.d)

    __rmul__ = __mul__

    def __truediv__(self, o):
        if hasattr(o, "__array_priority__"):
            return NotImplemented
        o = _R(o)
        if o.n.is_zero():
            raise ZeroDivisionError("division by the zero polynomial")
        return Rat(self.n * o.d, self.d * o.n)

    def __rtruediv__(self, o):
        return _R(o) / self

    def __pow__(self, n):
        if isinstance(n, Rat):
            if n.is_const():
                n = n.const_value()
            else:
                raise TypeError("symbolic exponent")
        n = Fr(n)
        if n.denominator != 1:
            raise TypeError("fractional exponent")
        n = int(n)
        if n >= 0:
            return Rat(self.n ** n, self.d ** n)
        return Rat(self.d ** (-n), self.n ** (-n))

    def is_const(self):
        return self.n.is_const() and self.d.is_const()

    def const_value(self):
        return self.n.const_value() / self.d.const_value()

    def is_zero(self):
        return self.n.is_zero()

    def canon(self):
        """canonical hashable form (up to a common factor that the caller did not cancel):
        denominator lead-normalised"""
        d, c = self.d.lead_normalised()
        n = self.n.scale(1 / c)
        return (n.key(), d.key())

    def atoms(self):
        return self.n.atoms() | self.d.atoms()

    def __repr__(self):
        if self.d == Poly.const(1):
            return repr(self.n)
        return "(%r)/(%r)" % (self.n, self.d)


def _R(x):
    if isinstance(x, Rat):
        return x
    return Rat(_P(x))
