"""Driver: ./check <ID> [--tier quick|thorough] [--root DIR] [--rule R] [--replay FILE]"""
import argparse
import importlib
import json
import os
import sys
import traceback

sys.path.insert(0, os.path.dirname(os.path.dirname(os.path.abspath(__file__))))
sys.setrecursionlimit(20000)

from engine import report  # noqa: E402


def main(argv=None):
    ap = argparse.ArgumentParser()
    ap.add_argument("pid")
    ap.add_argument("--tier", default=os.environ.get("VERIF_TIER") or "quick", choices=["quick", "thorough"])
    ap.add_argument("--root", default=os.environ.get("VERIF_ROOT") or "/repo")
    ap.add_argument("--rule", default=None)
    ap.add_argument("--replay", default=None)
    a = ap.parse_args(argv)
    pid = a.pid.upper()
    rule = a.rule
    if a.replay:
        with open(a.replay) as f:
            rule = json.load(f).get("rule")
    run = report.Run(pid, a.tier, a.root, only_rule=rule)
    err = None
    try:
        try:
            mod = importlib.import_module("rules.%s" % pid.lower())
        except ImportError as e:
            raise report.AnalysisError("no rule module for %s (%s)" % (pid, e))
        mod.run(run)
    except report.AnalysisError as e:
        err = e
    except Exception as e:  # any traceback is an analysis error, never a violation
        traceback.print_exc()
        err = "%s: %s" % (type(e).__name__, e)
    code = report.finish(run, err)
    sys.stdout.flush()
    return code


if __name__ == "__main__":
    sys.exit(main())
