"""Driver: ./check <ID> [--tier quick|thorough] [--root DIR] [--rule R] [--replay FILE]"""
import argparse
import importlib
import json
import os
import sys
import traceback

sys.path.insert(0, os.path.dirname(os.path.dirname(os.path.abspath(__file__))))
sys.setrecursionlimit(20000)

from engine import report  # noqa: E402


def main(argv=None):
    ap = argparse.ArgumentParser()
    ap.add_argument("pid")
    ap.add_argument("--tier", default=os.environ.get("VERIF_TIER") or "quick", choices=["quick", "thorough"])
    ap.add_argument("--root", default=os.environ.get("VERIF_ROOT") or "/repo")
    ap.add_argument("--rule", default=None)
    ap.add_argument("--replay", default=None)
    a = ap.parse_args(argv)
    pid = a.pid.upper()
    rule = a.rule
    if a.replay:
        with open(a.replay) as f:
            rule = json.load(f).get("rule")
    run = report.Run(pid, a.tier, a.root, only_rule=rule)
    err = None
    try:
        try:
            mod = importlib.import_module("rules.%s" % pid.lower())
        except ImportError as e:
            raise report.AnalysisError("no rule module for %s (%s)" % (pid, e))
        mod.run(run)
    except report.AnalysisError as e:
        err = e
    except Exception as e:  # any traceback is an analysis error, never a violation
        traceback.print_exc()
        err = "%s: %s" % (type(e).__name__, e)
    code = report.finish(run, err)
    sys.stdout.flush()
    if a.tier == "thorough" and code == 0 and rule is None and os.environ.get("VERIF_NO_SELFTEST") != "1":
        code = variant_suite(pid, a.root)
    return code


def variant_suite(pid, root):
    """thorough tier: the both-ways variant suite of this property against the current tree (each variant is an edit of a
    scratch copy, removed afterwards).  A breaking variant that is not reported or a preserving one that is means the
    checker cannot be trusted on this tree: exit 2."""
    import subprocess
    verif = os.path.dirname(os.path.dirname(os.path.abspath(__file__)))
    env = dict(os.environ, VERIF_ROOT=root)
    p = subprocess.run([sys.executable, "-B", os.path.join(verif, "selftest", "run.py"), pid, "--stale-ok"],
                       stdout=subprocess.PIPE, stderr=subprocess.STDOUT, env=env, cwd=verif)
    out = p.stdout.decode(errors="replace")
    tail = [l for l in out.splitlines() if l.startswith("selftest:")]
    line = tail[-1] if tail else "selftest: no summary"
    print("   thorough: %s" % line)
    ev = os.path.join(verif, "evidence", "%s.json" % pid)
    canonical = os.path.abspath(root) == os.path.abspath(os.environ.get("VERIF_CANONICAL_ROOT", "/repo"))
    if canonical and os.environ.get("VERIF_NO_EVIDENCE") != "1" and os.path.exists(ev):
        try:
            with open(ev) as f:
                d = json.load(f)
            d["coverage"].setdefault("notes", []).append("thorough tier variant suite: " + line)
            with open(ev, "w") as f:
                json.dump(d, f, indent=1)
        except Exception:
            pass
    if p.returncode != 0:
        print(out[-3000:])
        print("ANALYSIS-ERROR property=%s the variant suite is not as expected on this tree: the checker's verdict is not trusted" % pid)
        return 2
    return 0


if __name__ == "__main__":
    sys.exit(main())
