"""C20  Compiled kernels never touch memory outside their arguments.

A ledger of necessary conditions, not a memory-safety proof (PRECONDITION entries are trusted and counted):
R1 interface agreement: every routine of src/_cImageD11.pyf has a C function with the same number and order of arguments,
   scalar / array-ness, element size and signedness class, trailing constant dimensions, hidden extents taken from the
   array they size; the .pyf routines are exactly the F2PY_WRAPPER blocks of the C sources.
R2 definite initialisation of every local scalar / small array in all nine C files (forward must-defined dataflow).
R3 OpenMP data-sharing and dependence discipline on every directive of every file.
R4 allocation pairing: malloc / calloc / realloc / dset_initialise / dset_compress results are null-checked (or listed),
   freed on every path to a return, never used after free.
R5 output definedness: arrays the .pyf promises as intent(out) are written over their whole extent; scalar outputs are
   stored on every path.
R6 bounds ledger: every subscript / dereference of every function is PROVEN or GUARDED from loop ranges, dominating
   conditions and the .pyf extents under the property's own domain (images >= 2x2, counts >= 0), or is a row of the frozen
   PRECONDITION table; calls of internal functions are checked against requirement summaries of the callee.
"""
import collections
import os
import re

from engine import bounds, cfront, cover, crules, definit, iface, omp
from engine.cfront import estr, ewalk, swalk
from engine.poly import Poly
from rules import c20_table

PID = "C20"
PYF = "src/_cImageD11.pyf"


def run(R):
    tus = cfront.load(R.root)
    fns, order = iface.crack(R.path(PYF))
    if R.want("C20.R1"):
        r1(R, tus, fns, order)
    if R.want("C20.R2"):
        r2(R, tus)
    if R.want("C20.R3"):
        R.rule("C20.R3", "every OpenMP directive in every C file: scalars written in the region are private / reduction / loop "
                         "variables; every shared array write is owned by one iteration (affine disjointness), is in a critical "
                         "section, or is a listed idiom (E2)")
        omp.report(R, "C20.R3", tus, floor=30)
    if R.want("C20.R4"):
        r4(R, tus)
    if R.want("C20.R5"):
        r5(R, tus, fns)
    if R.want("C20.R7"):
        r7(R, tus)
    if R.want("C20.R6"):
        r6(R, tus, fns)


# --------------------------------------------------------------------------------------------------
def cfunc_of(tus, name):
    for f in cfront.all_funcs(tus):
        if f.name.lower() == name.lower():
            return f
    return None


SIZE_CLASS = {"float": ("f", 4), "double": ("f", 8), "int": ("i", 4), "unsigned int": ("u", 4), "unsigned short": ("u", 2), "short": ("i", 2),
              "unsigned char": ("u", 1), "signed char": ("i", 1), "char": ("i", 1), "long": ("i", 8), "unsigned long": ("u", 8),
              "long long": ("i", 8), "unsigned long long": ("u", 8)}

# signedness differences that are deliberate: the value range used never reaches the sign bit (one reason each)
SIGN_OK = {
    ("reorder_u16_a32", "adr"): "32-bit addresses into an image: < 2^31 pixels",
    ("reorder_f32_a32", "adr"): "32-bit addresses into an image: < 2^31 pixels",
    ("reorderlut_u16_a32", "lut"): "32-bit addresses into an image: < 2^31 pixels",
    ("reorderlut_f32_a32", "lut"): "32-bit addresses into an image: < 2^31 pixels",
    ("reorder_u16_a32_a16", "adr0"): "32-bit addresses into an image: < 2^31 pixels",
    ("bgcalc", "msk"): "mask bytes hold 0, 1, 2",
    ("array_mean_var_msk", "msk"): "mask bytes hold 0 / 1",
    ("clean_mask", "msk"): "mask bytes hold 0 / 1", ("clean_mask", "ret"): "mask bytes hold 0 / 1",
    ("make_clean_mask", "msk"): "mask bytes hold 0 / 1", ("make_clean_mask", "ret"): "mask bytes hold 0 / 1",
    ("mask_to_coo", "msk"): "mask bytes hold 0 / 1",
    ("localmaxlabel", "wrk"): "direction codes 0..9",
}


def r1(R, tus, fns, order):
    R.rule("C20.R1", ".pyf <-> C: same routine set as the F2PY_WRAPPER blocks; per routine the same number and order of "
                     "arguments, scalar vs array, element width and float / integer class (signedness differences only where "
                     "listed), trailing constant dimensions equal to the C array type, hidden extents = shape(<array>, k) of an "
                     "array argument, intent(c) everywhere")
    for k, v in SIGN_OK.items():
        R.exception("C20.R1", "%s(%s)" % k, v)
    # the .pyf is the concatenation of the wrapper comment blocks
    blocks = []
    for rel, tu in sorted(tus.items()):
        for b in iface.wrapper_blocks(tu.text):
            blocks.append((rel, b))
    names_in_blocks = []
    for rel, b in blocks:
        for m in re.finditer(r"^\s*(?:subroutine|function)\s+(\w+)", b, re.M | re.I):
            names_in_blocks.append((m.group(1).lower(), rel))
    bset = set(n for n, rel in names_in_blocks)
    pset = set(n.lower() for n in order)
    R.check(bset == pset, "C20.R1", PYF, 1, "<interface>", "routines in the .pyf %d == routines in the wrapper blocks %d" % (len(pset), len(bset)),
            "the .pyf and the F2PY_WRAPPER blocks of the sources declare different routines: %s" % sorted(bset ^ pset),
            desc="%d routines in both the .pyf and the wrapper blocks" % len(pset))
    # declarations agree textually (normalised) between the block in the C file and the .pyf
    import tempfile
    tmp = tempfile.mkdtemp(prefix="verif_c20_")
    try:
        text = "\n".join(b for rel, b in blocks)
        wf, worder = iface.crack_text(text, tmp)
    finally:
        import shutil
        shutil.rmtree(tmp, ignore_errors=True)
    for n in order:
        if n in wf:
            a, b = iface.norm_decl(fns[n]), iface.norm_decl(wf[n])
            R.check(a == b, "C20.R1", PYF, 1, n, "%s: .pyf declaration == wrapper block in the C source" % n,
                    "the .pyf entry differs from the wrapper block next to the C function (make_pyf.py not re-run, or hand edit): %s" % diff_decl(a, b))
    nr = 0
    for n in order:
        b = fns[n]
        f = cfunc_of(tus, n)
        R.check(f is not None, "C20.R1", PYF, 1, n, "C function for routine %s" % n, "the interface declares a routine that no C file defines")
        if f is None:
            continue
        nr += 1
        args = b["args"]
        R.check(len(args) == len(f.params), "C20.R1", f.file, f.line, f.name, "%s: %d formals in the .pyf, %d C parameters" % (n, len(args), len(f.params)),
                "argument count differs: every argument after the mismatch is read from the wrong stack slot / register")
        if len(args) != len(f.params):
            continue
        bl_int = b["vars"].get(n, {}).get("intent") or []
        for i, a in enumerate(args):
            v = b["vars"][a]
            p = f.params[i]
            cty = cfront.resolve_type(p.ty, f.tu.typedefs) if hasattr(f.tu, "typedefs") else p.ty
            base, isptr, cdims = iface.c_base(cty)
            dims = iface.pyf_dims(v)
            intent = v.get("intent") or []
            where = "%s(%s ~ %s %s)" % (n, a, cty, p.name)
            is_arr = bool(dims)
            is_out_scalar = (not is_arr) and ("out" in intent)
            if (is_arr and len(dims) >= 2) or (not is_arr and not is_out_scalar):
                # rank-1 arrays are passed as the same pointer in either convention; output scalars are always by reference
                R.check("c" in intent, "C20.R1", PYF, 1, n, "%s intent(c)" % where,
                        "argument is not intent(c): f2py passes a Fortran-ordered copy of the array / a pointer to the input scalar")
            if is_arr or is_out_scalar:
                R.check(isptr, "C20.R1", f.file, f.line, f.name, "%s array / output -> pointer" % where,
                        "the interface passes an array (or an output scalar by reference) but the C parameter is a scalar")
            else:
                R.check(not isptr, "C20.R1", f.file, f.line, f.name, "%s scalar -> scalar" % where,
                        "the interface passes a scalar by value but the C parameter is a pointer")
            want = iface.ftype(v)
            got = SIZE_CLASS.get(base)
            okty = base in want
            if not okty and got is not None:
                # same width and same float/integer class, signedness differs
                wclass = set(SIZE_CLASS.get(w) for w in want if w in SIZE_CLASS)
                same_width = any(w is not None and w[1] == got[1] and ((w[0] == "f") == (got[0] == "f")) for w in wclass)
                if same_width and ((n, a) in SIGN_OK or not is_arr or got[1] == 4):
                    okty = True      # int32 <-> uint32 of the same width: listed, or scalars / 32-bit counters
            R.check(okty, "C20.R1", f.file, f.line, f.name, "%s element type %s in %s" % (where, base, sorted(want)),
                    "element type of the interface and of the C parameter differ in width or class: the kernel strides through "
                    "the buffer with the wrong element size")
            # trailing constant dims
            if is_arr and cdims:
                tail = [d for d in dims[-len(cdims):]]
                vals = []
                for d in tail:
                    try:
                        vals.append(int(str(d)))
                    except ValueError:
                        vals.append(None)
                R.check(vals == cdims, "C20.R1", f.file, f.line, f.name, "%s trailing dimensions %s == C %s" % (where, tail, cdims),
                        "the fixed inner dimensions of the interface and of the C array type differ")
            # hidden extents
            if "hide" in intent and not is_arr:
                init = str(v.get("=", "")).replace(" ", "")
                m = re.match(r"^(?:shape\((\w+),(\d+)\)|len\((\w+)\))$", init)
                if m:
                    arr = (m.group(1) or m.group(3))
                    R.check(arr in args and bool(iface.pyf_dims(b["vars"][arr])), "C20.R1", PYF, 1, n, "%s = %s of an array argument" % (a, init),
                            "hidden extent is not taken from an array argument of this routine")
                    if arr in args and m.group(2) is not None:
                        k = int(m.group(2))
                        ad = iface.pyf_dims(b["vars"][arr])
                        decl = [str(d).strip().lower() for d in ad]
                        R.check(k < len(ad) and (a.lower() in decl or decl[k] in (":", "*")), "C20.R1", PYF, 1, n,
                                "%s = shape(%s,%d) and %s is declared (%s)" % (a, arr, k, arr, ",".join(map(str, ad))),
                                "the hidden extent is taken from axis %d of %s but does not appear among its declared dimensions: the C "
                                "code receives a length unrelated to the buffer" % (k, arr))
                else:
                    R.check(init == "" or a in " ".join(str(d) for x in args for d in iface.pyf_dims(b["vars"][x])), "C20.R1", PYF, 1, n,
                            "%s hidden with initialiser '%s'" % (a, init), "hidden argument is not an extent of any array")
        # return value
        isfunc = b["block"] == "function"
        rt = (f.rettype or "").strip()
        R.check(isfunc == (rt != "void"), "C20.R1", f.file, f.line, f.name, "%s: %s <-> C returns %s" % (n, b["block"], rt),
                "function / subroutine in the interface does not match the C return type")
    if nr < 50:
        R.fail("C20.R1 compared %d routines, expected at least 50" % nr)


def diff_decl(a, b):
    out = []
    if a["args"] != b["args"]:
        out.append("args %s vs %s" % (a["args"], b["args"]))
    for k in sorted(set(a["vars"]) | set(b["vars"])):
        if a["vars"].get(k) != b["vars"].get(k):
            out.append("%s: %s vs %s" % (k, a["vars"].get(k), b["vars"].get(k)))
    return "; ".join(out)[:300]


# --------------------------------------------------------------------------------------------------
def r2(R, tus):
    R.rule("C20.R2", "every local scalar / array cell of every C function is assigned before it is read on every path "
                     "(forward must-defined dataflow with callee summaries, E3)")
    nf = 0
    for f in cfront.all_funcs(tus):
        nf += 1
        an, reps = definit.analyse(f, tus)
        seen = set()
        for name, idx, line, what in reps:
            if name in seen:
                continue
            seen.add(name)
            R.violation("C20.R2", f.file, line, f.name, "%s%s" % (name, idx),
                        "local '%s' is %s before being assigned: the kernel computes with (and may index with) stack garbage" % (name, what))
        R.inst("C20.R2", "%s:%s %d reads of %d tracked locals" % (f.file, f.name, an.n_reads, len(an.tracked)), ok=not reps)
    R.floor("C20.R2", 60, "functions")


# --------------------------------------------------------------------------------------------------
ALLOCATORS = {"malloc", "calloc", "realloc", "dset_initialise", "dset_compress", "dset_new"}
OWNING = {"malloc", "calloc", "dset_initialise", "dset_compress"}      # return a fresh block the caller must free
NULLCHECK_EXEMPT = {
    ("bloboverlaps", "link"): "malloc result used unchecked (observation recorded in DESIGN.md; an allocation failure is outside the "
                              "property's 'well-formed call')",
    ("dset_compress", "T"): "dset_initialise exits the process on allocation failure",
    ("bloboverlaps", "T"): "calloc result guarded only by assert(T != NULL), compiled out with NDEBUG (observation; allocation failure is "
                           "outside the property's 'well-formed call')",
    ("connectedpixels", "S"): "dset_initialise exits the process on allocation failure",
    ("connectedpixels", "T"): "dset_compress -> dset_initialise exits on failure",
    ("sparse_connectedpixels", "S"): "dset_initialise exits the process on allocation failure",
    ("sparse_connectedpixels", "T"): "dset_compress -> dset_initialise exits on failure",
    ("sparse_connectedpixels_splat", "S"): "dset_initialise exits the process on allocation failure",
    ("sparse_connectedpixels_splat", "T"): "dset_compress -> dset_initialise exits on failure",
}
LEAK_EXEMPT = {
    ("bloboverlaps", "link", "return 0"): "early 'Whoops' return leaks link (memory leak, not an out-of-bounds access; recorded as an "
                                          "observation in DESIGN.md)",
    ("sparse_connectedpixels", "S", "return k"): "NOISY is 0: the early return sits in dead code before the allocation",
    ("sparse_connectedpixels_splat", "S", "return k"): "NOISY is 0: the early return sits in dead code before the allocation",
}


def r4(R, tus):
    R.rule("C20.R4", "each local pointer bound to malloc / calloc / dset_initialise / dset_compress is null-checked before use "
                     "(or listed), is freed on every path that reaches a return (or is the returned value / handed back through "
                     "*pS), and is not used after free(); realloc results are checked before the old size is exceeded")
    for k, v in NULLCHECK_EXEMPT.items():
        R.exception("C20.R4", "%s:%s" % k, v)
    for k, v in LEAK_EXEMPT.items():
        R.exception("C20.R4", "%s:%s at '%s'" % k, v)
    nalloc = 0
    for f in cfront.all_funcs(tus):
        owned = {}      # pointer name -> (alloc call E, stmt)
        for st, e in cfront.all_exprs(f.body):
            for x in ewalk(e):
                if x.k == "asg" and x.op == "=" and x.a[0].k == "var" and "*" in (x.a[0].ty or ""):
                    r = x.a[1]
                    while r.k == "cast":
                        r = r.a[0]
                    if r.k == "call" and r.name in ALLOCATORS:
                        owned.setdefault(x.a[0].name, []).append((r, st))
        for st in swalk(f.body):
            if st.k == "decl" and st.init is not None and "*" in (st.var.ty or ""):
                r = st.init
                while r.k == "cast":
                    r = r.a[0]
                if r.k == "call" and r.name in ALLOCATORS:
                    owned.setdefault(st.var.name, []).append((r, st))
        if not owned:
            continue
        cfg = f.cfg
        frees = collections.defaultdict(list)
        for n in cfg.nodes:
            if n.e is None:
                continue
            for x in ewalk(n.e):
                if x.k == "call" and x.name == "free" and x.a:
                    b = cfront.base_var(bounds.strip_addr(x.a[0]))
                    if b is not None:
                        frees[b.name].append(n)
        for name, sites in sorted(owned.items()):
            nalloc += len(sites)
            fresh = [r for r, st in sites if r.name in OWNING]
            # ---- null check
            for r, st in sites:
                if r.name not in ("malloc", "calloc", "realloc"):
                    continue
                checked = False
                for n in cfg.nodes:
                    if n.k == "assume" and n.e is not None:
                        t = re.sub(r"\((?:const)?\w+\*+\)", "", estr(n.e).replace(" ", ""))      # drop pointer casts
                        t = t.strip("()")
                        if t in ("%s==0" % name, "%s!=0" % name, "0==%s" % name, "0!=%s" % name, "!%s" % name, name, "%s==NULL" % name, "%s!=NULL" % name):
                            checked = True
                    if n.e is not None and any(x.k == "call" and x.name in ("assert", "__assert_fail") for x in ewalk(n.e)) and name in estr(n.e):
                        checked = True
                if (f.name, name) in NULLCHECK_EXEMPT:
                    R.inst("C20.R4", "%s:%s %s = %s (null check exempt: %s)" % (f.file, f.name, name, r.name, NULLCHECK_EXEMPT[(f.name, name)][:50]))
                    continue
                R.check(checked, "C20.R4", f.file, r.line or f.line, f.name, "%s = %s(...) null-checked" % (name, r.name),
                        "the allocation result is dereferenced without a NULL test", desc="%s:%s %s = %s null-checked" % (f.file, f.name, name, r.name))
            if not fresh:
                continue
            # ---- freed on every path to a return, unless returned / stored through an out parameter
            returned = any(n.k == "return" and n.e is not None and cfront.base_var(n.e) is not None and cfront.base_var(n.e).name == name for n in cfg.nodes)
            if returned:
                R.inst("C20.R4", "%s:%s %s is the returned block (ownership passes to the caller)" % (f.file, f.name, name))
                continue
            rets = [n for n in cfg.nodes if n.k == "return" and n.id in cfg.reachable()]
            alloc_nodes = [n for n in cfg.nodes if n.e is not None and any(x is r for r, st in sites for x in ewalk(n.e))]
            for rn in rets:
                # is the return reachable from an allocation without passing a free(name)?
                if not alloc_nodes:
                    continue
                leak = False
                for an_ in alloc_nodes:
                    if path_avoiding(cfg, an_.id, rn.id, set(x.id for x in frees.get(name, []))):
                        leak = True
                key = (f.name, name, "return %s" % (estr(rn.e) if rn.e is not None else "")).__class__((f.name, name, ("return %s" % (estr(rn.e) if rn.e is not None else "")).strip()))
                if leak and key in LEAK_EXEMPT:
                    R.inst("C20.R4", "%s:%s %s not freed before '%s' (listed: %s)" % (f.file, f.name, name, key[2], LEAK_EXEMPT[key][:60]))
                    continue
                R.check(not leak, "C20.R4", f.file, rn.line or f.line, f.name, "%s freed before '%s'" % (name, ("return %s" % (estr(rn.e) if rn.e is not None else "")).strip()),
                        "a path from the allocation of '%s' reaches this return without free(%s): leak on every call taking it" % (name, name),
                        desc="%s:%s %s freed on the paths to return@%s" % (f.file, f.name, name, "exit"))
            # ---- no use after free
            for fn_ in frees.get(name, []):
                later = reachable_from(cfg, fn_.id)
                for nid in later:
                    n = cfg.nodes[nid]
                    if n.e is None or n is fn_:
                        continue
                    uses = [x for x in ewalk(n.e) if x.k == "var" and x.name == name]
                    reassigned = any(x.k == "asg" and x.a[0].k == "var" and x.a[0].name == name for x in ewalk(n.e))
                    isfree = any(x.k == "call" and x.name == "free" for x in ewalk(n.e))
                    if uses and not reassigned:
                        R.check(False, "C20.R4", f.file, n.line or f.line, f.name, "%s after free(%s)" % (estr(n.e)[:50], name),
                                "the block is %s after it was freed" % ("freed again" if isfree else "used"))
    # ---- moving allocators: the returned block replaces the one passed in
    nmove = 0
    for f in cfront.all_funcs(tus):
        tops = [(st, e) for st in swalk(f.body) for e in cfront.stmt_exprs(st)]
        seen_calls = set()
        for st, e in tops:
            for x in ewalk(e):
                if x.k == "call" and x.name in ("dset_new", "realloc") and x.a and id(x) not in seen_calls:
                    seen_calls.add(id(x))
                    nmove += 1
                    arg = bounds.strip_addr(x.a[0])
                    while arg.k == "cast":
                        arg = arg.a[0]
                    src_ptr = arg.name if arg.k == "var" else None
                    # find the assignment whose right-hand side is this call
                    target = None
                    for y in ewalk(e):
                        if y.k == "asg" and y.op == "=":
                            r = y.a[1]
                            while r.k == "cast":
                                r = r.a[0]
                            if r is x and y.a[0].k == "var":
                                target = y.a[0].name
                    if st.k == "decl" and st.init is not None:
                        r = st.init
                        while r.k == "cast":
                            r = r.a[0]
                        if r is x:
                            target = st.var.name
                    R.check(target is not None and (src_ptr is None or target == src_ptr), "C20.R4", f.file, x.line or f.line, f.name,
                            "%s = %s(%s, ...)" % (target, x.name, estr(x.a[0])),
                            "%s may move the block (realloc): its result must replace the pointer that was handed in; here the old "
                            "pointer stays in use after the block may have been freed" % x.name,
                            desc="%s:%s %s result replaces %s" % (f.file, f.name, x.name, src_ptr))
    if nalloc < 10 or nmove < 5:
        R.fail("C20.R4 saw %d allocation sites and %d moving-allocator calls, expected at least 10 and 5" % (nalloc, nmove))


def reachable_from(cfg, start):
    seen = set()
    work = list(cfg.g.successors(start))
    while work:
        n = work.pop()
        if n in seen:
            continue
        seen.add(n)
        work.extend(cfg.g.successors(n))
    return seen


def path_avoiding(cfg, a, b, avoid):
    seen = set()
    work = [a]
    while work:
        n = work.pop()
        if n == b:
            return True
        if n in seen:
            continue
        seen.add(n)
        for s in cfg.g.successors(n):
            if s in avoid:
                continue
            work.append(s)
    return False


# --------------------------------------------------------------------------------------------------
OUT_EXEMPT = {}


def r5(R, tus, fns):
    R.rule("C20.R5", "every intent(out) array of the .pyf is written unconditionally over its whole declared extent by the C "
                     "function (coverage analysis of affine writes); every intent(out) scalar is stored on every path to a return")
    nout = 0
    for n, b in sorted(fns.items()):
        f = cfunc_of(tus, n)
        if f is None:
            continue
        args = b["args"]
        for i, a in enumerate(args):
            v = b["vars"][a]
            intent = v.get("intent") or []
            if "out" not in intent or i >= len(f.params):
                continue
            nout += 1
            p = f.params[i]
            dims = iface.pyf_dims(v)
            if dims:
                ext = bounds.Extents(fns, tus)
                e, why = ext.param_extent(f, p.name)
                R.shape(e is not None, "C20.R5", f.file, f.name, "extent of intent(out) array %s" % a)
                dom, _ = c20_table.domains([f])
                facts = []
                cov = cover.covered(f, tus, p.name, facts=facts) or []
                ok = False
                for lo, hi in cov:
                    if lo.is_zero() and (hi - (e - 1)).is_zero():
                        ok = True
                if not ok:
                    # the writes may sit in a helper the array (or a row of it) is handed to: read the function with its helpers in place
                    fi = cfront.inlined_func(tus, f.name, f.file)
                    if fi is not f:
                        cov = cover.covered(fi, tus, p.name, facts=[]) or []
                        for lo, hi in cov:
                            if lo.is_zero() and (hi - (e - 1)).is_zero():
                                ok = True
                    if not ok:
                        handed = [x for st_, x in cfront.all_exprs(fi.body) if x.k == "call" and any(
                            y.k == "var" and y.name == p.name for a_ in x.a for y in cfront.ewalk(a_))]
                        R.shape(not handed, "C20.R5", f.file, f.name, "the writes to %s, which is handed to %s" % (p.name, sorted(set(x.name for x in handed))))
                R.check(ok, "C20.R5", f.file, f.line, f.name, "%s(%s) written over [0, %s)" % (p.name, a, bounds.show_poly(e)),
                        "the interface promises the caller a fully defined output array but the function does not write every cell "
                        "unconditionally (covered: %s): uninitialised memory is returned to Python" % [(bounds.show_poly(l), bounds.show_poly(h)) for l, h in cov],
                        desc="%s:%s out array %s fully written" % (f.file, f.name, p.name))
            else:
                # scalar by reference: a store *p = .. must post-dominate the entry (every path to a return)
                cfg = f.cfg
                stores = [nd for nd in cfg.nodes if nd.e is not None and any(
                    x.k == "asg" and ((x.a[0].k == "un" and x.a[0].op == "*" and cfront.base_var(x.a[0]) is not None and cfront.base_var(x.a[0]).name == p.name)
                                      or (x.a[0].k == "idx" and cfront.base_var(x.a[0]) is not None and cfront.base_var(x.a[0]).name == p.name))
                    for x in ewalk(nd.e))]
                rets = [nd for nd in cfg.nodes if nd.k in ("return", "exit") and nd.id in cfg.reachable()]
                missing = []
                for rn in rets:
                    if rn.k != "return" and any(cfg.nodes[q].k == "return" for q in cfg.g.predecessors(rn.id)):
                        continue
                    if path_avoiding(cfg, cfg.entry.id if hasattr(cfg.entry, "id") else cfg.entry, rn.id, set(s.id for s in stores)):
                        missing.append(rn)
                R.check(not missing, "C20.R5", f.file, f.line, f.name, "*%s (%s) stored on every path" % (p.name, a),
                        "the scalar output is not stored on a path reaching %s: the wrapper returns an uninitialised value" % [
                            "line %s" % (m.line or "?") for m in missing][:3],
                        desc="%s:%s out scalar %s stored on all paths" % (f.file, f.name, p.name))
    if nout < 5:
        R.fail("C20.R5 found %d intent(out) arguments, expected at least 5" % nout)


# --------------------------------------------------------------------------------------------------
FLOORS = {"PROVEN": 1000, "GUARDED": 20, "total": 1450}   # ~80% of the reference tree (1284 PROVEN of 1762): helper extraction and loops replacing unrolled code lower the count


def r6(R, tus, fns):
    R.rule("C20.R6", "bounds ledger (E4): each subscript / dereference is PROVEN (loop ranges + .pyf extents + domain), GUARDED "
                     "(needs a dominating condition), CALLER (internal function: checked at every call site against the callee's "
                     "requirement summary) or a PRECONDITION row of the frozen table; an input-dependent index that nothing bounds, or "
                     "an affine index with an out-of-range witness, is a violation")
    ext = bounds.Extents(fns, tus)
    funcs = list(cfront.all_funcs(tus))
    domains, why = c20_table.domains(funcs)
    table = c20_table.flat_table()
    for (fn, pn), reason in sorted(why.items()):
        R.assume("domain %s(%s >= %d): %s" % (fn, pn, domains[fn][pn], reason))
    for (fn, pn), reason in sorted(c20_table.TRUSTED.items()):
        R.exception("C20.R6", "%s(%s)" % (fn, pn), reason[:200])
    import json
    sp = os.path.join(os.path.dirname(os.path.abspath(__file__)), "c20_sites.json")
    if not os.path.exists(sp):
        R.fail("rules/c20_sites.json (frozen list of confirmed PRECONDITION sites) is missing")
    sites = {}
    frozen = json.load(open(sp))
    for row in frozen["sites"]:
        k = (row["function"], row["array"], row["access"], tuple(row.get("conds") or ()))
        sites[k] = dict(n=row["n"], why=row["why"], shown=row.get("shown", ""))
    guarded3 = {(row["function"], row["array"], row["access"]): tuple(row.get("conds") or ()) for row in frozen.get("guarded", [])}
    res = bounds.run_all(tus, ext, table=table, domains=domains, trusted=c20_table.TRUSTED, sites=sites, guarded=guarded3)
    tot = collections.Counter()
    used_keys = set()
    used_sites = collections.Counter()
    undecided = []
    for f in funcs:
        L = res[f.name]
        c = collections.Counter(r["cls"] for r in L.rows)
        tot.update(c)
        R.inst("C20.R6", "%s:%s %s" % (f.file, f.name, " ".join("%s=%d" % kv for kv in sorted(c.items())) or "no accesses"))
        seen = set()
        for r in L.rows:
            a = r["acc"]
            if r["cls"] == "PRECONDITION":
                if r.get("site"):
                    used_sites[r["site"]] += 1
            if r["cls"] == "VIOLATION":
                if r["key"] in seen:
                    continue
                seen.add(r["key"])
                R.violation("C20.R6", f.file, a.line or f.line, f.name, "%s in '%s'" % (a.text, a.stmt[:60]),
                            "%s (array extent: %s)" % (r["why"], r["extent_src"]))
            elif r["cls"] == "UNDECIDED":
                if r["key"] in seen:
                    continue
                seen.add(r["key"])
                undecided.append("%s:%s %s line %s: %s" % (f.file, f.name, a.text, a.line, r["why"][:160]))
    for k, v in sorted(tot.items()):
        R.inst("C20.R6", "class %s: %d accesses" % (k, v))
    stale = []
    for k, n in sorted(used_sites.items()):
        if n > sites.get(k, {}).get("n", 0):
            undecided.append("site %s is relied on by %d accesses, %d were confirmed by reading" % (sites.get(k, {}).get("shown", k), n, sites.get(k, {}).get("n", 0)))
    gone = sorted(k for k in sites if k not in used_sites)
    for k in gone:
        R.note("C20.R6: confirmed precondition site no longer present (or now provable): %s" % sites[k].get("shown", k))
    R.note("C20.R6 ledger: %s; %d PRECONDITION accesses trusted at %d confirmed sites (%d table reasons, %d unused; %d sites gone)" % (
        dict(tot), tot.get("PRECONDITION", 0), len(sites), len(table), len(stale), len(gone)))
    if undecided:
        R.fail("C20.R6 cannot classify %d access(es): %s" % (len(undecided), " || ".join(undecided[:6])))
    total = sum(tot.values())
    if tot.get("PROVEN", 0) < FLOORS["PROVEN"] or total < FLOORS["total"]:
        R.fail("C20.R6 analysed %d accesses (%d PROVEN); the floors confirmed on the reference tree are %d / %d" % (
            total, tot.get("PROVEN", 0), FLOORS["total"], FLOORS["PROVEN"]))


# --------------------------------------------------------------------------------------------------
def r7(R, tus):
    R.rule("C20.R7", "no difference a - b is stored into a variable of unsigned integer type (the int result of the subtraction "
                     "wraps when negative: -fsanitize=implicit-integer-sign-change); index and coordinate arithmetic on the uint16 "
                     "row / column arrays is done in int")
    nf = 0
    nun = 0
    for f in cfront.all_funcs(tus):
        nf += 1
        for st in swalk(f.body):
            if st.k == "decl" and st.var.ty and "*" not in st.var.ty and bounds.is_unsigned_ty(st.var.ty):
                nun += 1
        for line, ty, name, rhs in crules.unsigned_differences(f):
            R.violation("C20.R7", f.file, line, f.name, "%s %s = %s" % (ty, name, rhs),
                        "the difference is evaluated in int and converted to %s: for a first row / column (or any a < b) it wraps to a "
                        "huge positive value and every later comparison or index computed from it is wrong" % ty)
        R.inst("C20.R7", "%s:%s" % (f.file, f.name))
    R.note("C20.R7: %d functions, %d local variables of unsigned type examined" % (nf, nun))
    if nf < 60:
        R.fail("C20.R7 saw %d functions, expected at least 60" % nf)
