"""C18  Saved peaks, parameters and grains read back as written.

Decided: writer/reader table agreement, extracted from the live code of both sides, per format
(R1 columnfile text, R2 columnfile HDF5, R3 parameter files, R4 grain text files incl. inverse
conversions, R5 grain HDF5, R6 ubi files, R7 sparse frames + h5py attribute discipline).
Not decided: digit-level precision of a given value, negative zero, overwriting an HDF5 group that
holds a different set of titles.
"""
import ast
import re

from engine import pyfacts
from engine.pyfacts import src

PID = "C18"
CF = "ImageD11/columnfile.py"
PAR = "ImageD11/parameters.py"
GR = "ImageD11/grain.py"
IDX = "ImageD11/indexing.py"
SPF = "ImageD11/sparseframe.py"

CONV = re.compile(r"%(?P<flags>[-+ #0]*)(?P<width>\d+)?(?:\.(?P<prec>\d+))?(?P<type>[diouxXeEfFgGcrs%])")


def conversions(fmt):
    return [m for m in CONV.finditer(fmt) if m.group("type") != "%"]


def sig_digits(m):
    """significant decimal digits guaranteed by one conversion for |x| in [1e-12,1e12] (None = integer/str)"""
    t = m.group("type")
    p = m.group("prec")
    if t in "gG":
        return int(p) if p is not None else 6
    if t in "eE":
        return (int(p) if p is not None else 6) + 1
    if t in "fF":
        return None if p is None else -int(p)      # fixed: decimals, reported negative
    return None


def str_consts(node):
    return [n.value for n in ast.walk(node) if isinstance(n, ast.Constant) and isinstance(n.value, str)]


def run(R):
    R.assume("h5py/numpy store float64/int64 exactly; float() parses every decimal string the writers produce")
    if R.want("C18.R1"):
        r1(R)
    if R.want("C18.R2"):
        r2(R)
    if R.want("C18.R3"):
        r3(R)
    if R.want("C18.R4"):
        r4(R)
    if R.want("C18.R5"):
        r5(R)
    if R.want("C18.R6"):
        r6(R)
    if R.want("C18.R7"):
        r7(R)
    if R.want("C18.R8"):
        r8(R)


# --------------------------------------------------------------------------------------------------
def eval_title_tables(m):
    """evaluate the module-level title lists (pure literals, list comprehensions over literals, +, +=) with a
    tiny evaluator (no exec of repo code)"""
    env = {}

    def ev(e, loc):
        if isinstance(e, ast.Constant):
            return e.value
        if isinstance(e, ast.List):
            return [ev(x, loc) for x in e.elts]
        if isinstance(e, ast.Tuple):
            return tuple(ev(x, loc) for x in e.elts)
        if isinstance(e, ast.Name):
            if e.id in loc:
                return loc[e.id]
            if e.id in env:
                return env[e.id]
            if e.id == "str":
                return str
            if e.id == "range":
                return range
            raise KeyError(e.id)
        if isinstance(e, ast.BinOp):
            a, b = ev(e.left, loc), ev(e.right, loc)
            if isinstance(e.op, ast.Add):
                return a + b
            if isinstance(e.op, ast.Mod):
                return a % b
            raise KeyError("op")
        if isinstance(e, ast.Call):
            f = ev(e.func, loc)
            return f(*[ev(a, loc) for a in e.args])
        if isinstance(e, ast.Subscript):
            return ev(e.value, loc)[ev(e.slice, loc)]
        if isinstance(e, ast.ListComp):
            out = []

            def rec(gi, loc2):
                if gi == len(e.generators):
                    out.append(ev(e.elt, loc2))
                    return
                g = e.generators[gi]
                for x in ev(g.iter, loc2):
                    l3 = dict(loc2)
                    bind(g.target, x, l3)
                    if all(ev(c, l3) for c in g.ifs):
                        rec(gi + 1, l3)
            rec(0, dict(loc))
            return out
        raise KeyError(type(e).__name__)

    def bind(t, v, loc):
        if isinstance(t, ast.Name):
            loc[t.id] = v
        else:
            for tt, vv in zip(t.elts, v):
                bind(tt, vv, loc)
    formats = {}
    for n in m.tree.body:
        try:
            if isinstance(n, ast.Assign) and isinstance(n.targets[0], ast.Name):
                env[n.targets[0].id] = ev(n.value, {})
            elif isinstance(n, ast.AugAssign) and isinstance(n.target, ast.Name) and isinstance(n.op, ast.Add):
                env[n.target.id] = env[n.target.id] + ev(n.value, {})
            elif isinstance(n, ast.For) and isinstance(n.iter, ast.Name) and n.iter.id in env and len(n.body) == 1:
                s = n.body[0]
                if isinstance(s, ast.Assign) and isinstance(s.targets[0], ast.Subscript) and src(s.targets[0].value) == "FORMATS":
                    for x in env[n.iter.id]:
                        formats[x] = ev(s.value, {n.target.id: x})
        except (KeyError, TypeError):
            continue
    return env, formats


def r1(R):
    R.rule("C18.R1", "columnfile text: header '# name = value' <-> split('=',1); titles line; one numeric conversion per title; "
                     "integer-typed titles get an integer-valued conversion; rows parse back by position with float()")
    m = pyfacts.module(R, CF)
    env, formats = eval_title_tables(m)
    for k in ("FLOATS", "INTS", "LONGFLOATS", "EXPONENTIALS"):
        if k not in env:
            R.fail("columnfile.%s could not be evaluated" % k)
    if len(formats) < 60:
        R.fail("FORMATS table evaluated to %d entries (expected > 60)" % len(formats))
    for t, f in sorted(formats.items()):
        cs = conversions(f)
        ok = len(cs) == 1 and cs[0].group("type") in "feEgGd" and f.strip() == cs[0].group(0)
        R.check(ok, "C18.R1", CF, 1, "FORMATS", "FORMATS[%r] = %r" % (t, f), "a column format must be exactly one numeric conversion")
        if t in env["INTS"]:
            c = cs[0] if cs else None
            isint = c is not None and (c.group("type") == "d" or (c.group("type") in "fF" and c.group("prec") == "0"))
            R.check(isint, "C18.R1", CF, 1, "FORMATS", "integer title %r -> %r" % (t, f),
                    "an integer-typed column is not written with an integer-valued conversion")
        if t in env["LONGFLOATS"]:
            c = cs[0]
            R.check(c.group("prec") is not None and int(c.group("prec")) >= 9, "C18.R1", CF, 1, "FORMATS", "orientation title %r -> %r" % (t, f),
                    "U/UBI columns need at least 9 decimals")
        if t in env["EXPONENTIALS"]:
            R.check(cs[0].group("type") in "eEgG", "C18.R1", CF, 1, "FORMATS", "strain title %r -> %r" % (t, f),
                    "strain/stress columns (~1e-4) need an exponent format: %r prints zeros" % f)
    # U and UBI are general 3x3 matrices: all nine elements of each are orientation titles (a title that is not in the table is
    # written with the fallback "%f", six decimals)
    for base in ("U", "UBI"):
        for i_ in (1, 2, 3):
            for j_ in (1, 2, 3):
                t = "%s%d%d" % (base, i_, j_)
                f = formats.get(t)
                c = conversions(f)[0] if f and conversions(f) else None
                R.check(c is not None and c.group("prec") is not None and int(c.group("prec")) >= 9, "C18.R1", CF, 1, "FORMATS",
                        "orientation title %r has a format with >= 9 decimals (%r)" % (t, f),
                        "the matrix element %s is %s: it is written with 6 decimals while the other elements of the same matrix keep 12, so an "
                        "orientation read back from a text columnfile is orthonormal only to 1e-6" % (t, "not in the FORMATS table (fallback '%f')" if f is None else "formatted %r" % f))
    w = m.ifunc("columnfile.writefile", keep=("chkarray",))   # private helpers (row format builder, ...) read as if written here
    rd = m.nfunc("columnfile.readfile")
    ws = str_consts(w)
    # header lines
    hdr = [s for s in ws if s.startswith("#") and "=" in s]
    R.check(len(hdr) == 1 and re.match(r"^# %s = %s\n$", hdr[0]) is not None, "C18.R1", CF, w.lineno, "columnfile.writefile",
            "header line format %r" % hdr, "parameter header must be written as '# name = value\\n'")
    rsplit = [c for c in ast.walk(rd) if isinstance(c, ast.Call) and isinstance(c.func, ast.Attribute) and c.func.attr == "split"
              and c.args and isinstance(c.args[0], ast.Constant) and c.args[0].value == "="]
    R.check(len(rsplit) == 1 and len(rsplit[0].args) == 2 and src(rsplit[0].args[1]) == "1" and "[1:]" in src(rsplit[0].func.value),
            "C18.R1", CF, rd.lineno, "columnfile.readfile", "header parse %s" % [src(c) for c in rsplit],
            "the reader must drop the leading '#' and split at the first '=' only (values may contain '=')")
    cl = [c for c in ast.walk(rd) if isinstance(c, ast.Call) and pyfacts.dotted(c.func) == "clean" and any(x is rsplit[0] for x in ast.walk(c))] if rsplit else []
    R.check(bool(cl), "C18.R1", CF, rd.lineno, "columnfile.readfile", "name/value whitespace trimmed (clean())", "padding spaces would become part of names/values")
    # titles line
    tw = [s for s in ws if s.strip() == "%s" and s != "%s"]
    R.check("#" in ws and len(tw) >= 1 and all(s.startswith(" ") for s in tw), "C18.R1", CF, w.lineno, "columnfile.writefile",
            "titles written as '#' then '  %s' each", "title line must start with '#' and separate titles by whitespace")
    tr = [a for a in ast.walk(rd) if isinstance(a, ast.Assign) and src(a.targets[0]) == "self.titles" and "split()" in src(a.value)]
    R.check(len(tr) == 1 and "[1:]" in src(tr[0].value), "C18.R1", CF, rd.lineno, "columnfile.readfile", "titles = line[1:].split()", "title parse changed")
    # one conversion per title in both branches of the format builder
    rowfmt = [c for c in ast.walk(w) if isinstance(c, ast.BinOp) and isinstance(c.op, ast.Mod) and "self.__data" in src(c.right)]
    R.shape(len(rowfmt) == 1 and isinstance(rowfmt[0].left, ast.Name), "C18.R1", CF, "columnfile.writefile", "the row  <format> % tuple(col[i] for col in self.__data)")
    fvar = rowfmt[0].left.id
    fres = pyfacts.resolved(w, rowfmt[0].left, 3, keep=("self",))
    fnames = {fvar} | {x.id for x in ast.walk(fres) if isinstance(x, ast.Name)}     # the format and the names it is built from
    loops = [n for n in ast.walk(w) if isinstance(n, ast.For) and src(n.iter) == "self.titles"
             and any(isinstance(a, ast.AugAssign) and src(a.target) in fnames for a in ast.walk(n))]
    R.shape(len(loops) == 1, "C18.R1", CF, "columnfile.writefile", "the loop over self.titles that builds the row format")
    aug = [a for a in ast.walk(loops[0]) if isinstance(a, ast.AugAssign) and src(a.target) in fnames]
    tries = [t for t in ast.walk(loops[0]) if isinstance(t, ast.Try)]
    fall = [s_ for s_ in str_consts(loops[0]) if "%f" in s_ or "%g" in s_ or "%e" in s_]
    R.shape(len(tries) == 1 and len(aug) >= 1, "C18.R1", CF, "columnfile.writefile", "FORMATS[title] with a fallback for unlisted titles (try / except)")

    def one_conv(a):
        if "FORMATS[" in src(a.value):
            return True
        cs_ = conversions("".join(str_consts(a.value)))
        return len(cs_) == 1 and cs_[-1].group("type") in "feg"
    ok = len(aug) == 2 and all(one_conv(a) for a in aug)
    R.check(ok, "C18.R1", CF, w.lineno, "columnfile.writefile", "format row: FORMATS[title] or fallback, one conversion per title",
            "the row format no longer has exactly one numeric conversion per title on both the known and unknown title path")
    R.check("for col in self.__data" in src(rowfmt[0].right) and "col[i]" in src(rowfmt[0].right), "C18.R1", CF, w.lineno,
            "columnfile.writefile", "row i = tuple(col[i] for col in storage)", "a row must take element i of every column in title order")
    nl = [a for a in ast.walk(w) if isinstance(a, ast.AugAssign) and src(a.target) in fnames and src(a.value) in ('"\\n"', "'\\n'")]
    tail = isinstance(fres, ast.BinOp) and isinstance(fres.op, ast.Add) and isinstance(fres.right, ast.Constant) and fres.right.value == "\n"
    R.check(len(nl) == 1 or (not nl and tail), "C18.R1", CF, w.lineno, "columnfile.writefile", "row terminated by newline", "rows are not newline terminated")
    # reader: float per token, by position
    fc = m.nfunc("fillcols")
    R.check("cols[j][i] = float(item)" in ast.unparse(fc) and "line.split()" in ast.unparse(fc), "C18.R1", CF, fc.lineno, "fillcols",
            "cols[j][i] = float(item) for j,item in enumerate(line.split())", "tokens are no longer parsed by position with float()")


# --------------------------------------------------------------------------------------------------
def find_calls(fn, name_suffix):
    return [c for c in ast.walk(fn) if isinstance(c, ast.Call) and (
        (isinstance(c.func, ast.Attribute) and c.func.attr == name_suffix) or (isinstance(c.func, ast.Name) and c.func.id == name_suffix))]


def stores_every_path(R, fn, loop, qual):
    """every path through one iteration of the title loop passes a statement that stores the column: create_dataset(t, data=..)
    or a whole-dataset assignment  <dataset>[:] = <data>  (paths that raise are exempt)"""
    cfg = pyfacts.PyCFG(fn)
    head = cfg.of.get(id(loop))
    R.shape(head is not None, "C18.R2", CF, qual, "the title loop in the CFG")
    inside = set()
    for n in cfg.nodes:
        x = n.node
        while x is not None:
            if x is loop and n is not head:
                inside.add(n.id)
                break
            x = getattr(x, "_parent", None)
    stores = set()
    for n in cfg.nodes:
        if n.id not in inside or n.k != "stmt" or n.node is None:
            continue
        st = n.node
        if isinstance(st, ast.Expr) and isinstance(st.value, ast.Call) and isinstance(st.value.func, ast.Attribute) \
                and st.value.func.attr == "create_dataset" and any(k.arg == "data" for k in st.value.keywords):
            stores.add(n.id)
        if isinstance(st, ast.Assign) and isinstance(st.targets[0], ast.Subscript) and src(st.targets[0].slice) in (":", "...", "()"):
            stores.add(n.id)
    R.shape(bool(stores), "C18.R2", CF, qual, "a statement that stores a column (create_dataset(.., data=..) or ds[:] = ..)")
    # can one iteration get from the loop head back to it without passing a store?
    seen = set()
    work = [x for x in cfg.g.successors(head.id) if x in inside]
    leak = False
    while work:
        x = work.pop()
        if x in seen or x in stores:
            continue
        seen.add(x)
        for y in cfg.g.successors(x):
            if y == head.id:
                leak = True
            elif y in inside:
                work.append(y)
    R.check(not leak, "C18.R2", CF, loop.lineno, qual, "every path through the title loop stores the column (%d storing statements)" % len(stores),
            "on some path through the loop body a column is neither created nor overwritten: the file keeps (or lacks) that column's "
            "data although the call returns normally - e.g. an existing dataset of the same length is left with its old values")


def r2(R):
    R.rule("C18.R2", "columnfile HDF5: both writers convert exactly the INTS titles to int64 and everything else to float64, tag "
                     "the group 'peaks'; the reader accepts that tag, reads every dataset and adds it as a column")
    m = pyfacts.module(R, CF)
    for qual in ("colfile_to_hdf", "colfileobj_to_hdf"):
        fn = m.ifunc(qual)      # a dtype-selection helper reads as the conditional expression it computes
        ifs = [n for n in ast.walk(fn) if isinstance(n, (ast.If, ast.IfExp)) and isinstance(n.test, ast.Compare) and isinstance(n.test.ops[0], (ast.In, ast.NotIn))
               and src(n.test.comparators[0]) == "INTS"]
        R.shape(len(ifs) == 1, "C18.R2", CF, qual, "the 'title in INTS' dtype selection")
        blist = lambda x: x if isinstance(x, list) else [x]
        tbranch, fbranch = (blist(ifs[0].body), blist(ifs[0].orelse)) if isinstance(ifs[0].test.ops[0], ast.In) else (blist(ifs[0].orelse), blist(ifs[0].body))
        tt = " ".join(src(x) for x in tbranch)
        ft = " ".join(src(x) for x in fbranch)
        R.check("int64" in tt and "float64" in ft, "C18.R2", CF, ifs[0].lineno, qual, "INTS -> %s ; others -> %s" % (tt, ft),
                "integer-typed columns must be stored as int64 and all others as float64")
        if isinstance(ifs[0], ast.IfExp):
            par = getattr(ifs[0], "_parent", None)
            tyvar = [par.targets[0].id] if isinstance(par, ast.Assign) and isinstance(par.targets[0], ast.Name) else []
            tyvar.append(src(ifs[0]))
        else:
            tyvar = [a.targets[0].id for a in ast.walk(ifs[0]) if isinstance(a, ast.Assign) and isinstance(a.targets[0], ast.Name)]
        ast_calls = [c for c in ast.walk(fn) if isinstance(c, ast.Call) and isinstance(c.func, ast.Attribute) and c.func.attr == "astype"]
        R.check(any(c.args and src(c.args[0]) in tyvar for c in ast_calls), "C18.R2", CF, fn.lineno, qual, "column data .astype(<selected dtype>)",
                "the selected dtype is not applied to the data that is written")
        tag = [a for a in ast.walk(fn) if isinstance(a, ast.Assign) and isinstance(a.targets[0], ast.Subscript)
               and src(a.targets[0].slice) in ("'ImageD11_type'", '"ImageD11_type"') and src(a.targets[0].value).endswith(".attrs")]
        R.shape(len(tag) == 1, "C18.R2", CF, qual, "the ImageD11_type tag assignment")
        R.check(src(tag[0].value) in ("'peaks'", "b'peaks'"), "C18.R2", CF, tag[0].lineno, qual, "group tagged ImageD11_type=%s" % src(tag[0].value),
                "the group is tagged with a value colfile_from_hdf does not accept")
        loops = [n for n in ast.walk(fn) if isinstance(n, ast.For) and src(n.iter).endswith(".titles")]
        R.check(len(loops) == 1 and not any(isinstance(x, (ast.Break, ast.Continue)) for x in ast.walk(loops[0])), "C18.R2", CF, fn.lineno, qual,
                "one loop over all titles without early exit", "not every title is written")
        if len(loops) == 1:
            stores_every_path(R, fn, loops[0], qual)
    rd = m.nfunc("colfile_from_hdf")
    accepted = [c for c in ast.walk(rd) if isinstance(c, ast.Compare) and "ImageD11_type" in src(c.left) and isinstance(c.ops[0], ast.In)
                and isinstance(c.comparators[0], (ast.Tuple, ast.List, ast.Set))]
    R.shape(bool(accepted), "C18.R2", CF, "colfile_from_hdf", "the accepted ImageD11_type tags")
    vals = set(x for c in accepted for x in ast.literal_eval(c.comparators[0]))
    R.check("peaks" in vals, "C18.R2", CF, accepted[0].lineno, "colfile_from_hdf", "accepted tags %s" % sorted(map(str, vals)),
            "the reader no longer recognises the tag the writers use")
    adds = [c for c in find_calls(rd, "addcolumn")]
    R.shape(len(adds) == 1, "C18.R2", CF, "colfile_from_hdf", "the addcolumn call")
    loop = adds[0]
    while loop is not None and not isinstance(loop, ast.For):
        loop = getattr(loop, "_parent", None)
    R.shape(loop is not None, "C18.R2", CF, "colfile_from_hdf", "the loop around addcolumn")
    itname = src(loop.iter)
    asserts = [a for a in ast.walk(rd) if isinstance(a, ast.Assert) and itname in src(a.test) and "len(" in src(a.test)]
    R.check(bool(asserts), "C18.R2", CF, rd.lineno, "colfile_from_hdf", "reordered title list %s has the length of the file's title list" % itname,
            "titles can be dropped or duplicated while being reordered")
    a0 = adds[0].args[0]
    R.check(isinstance(a0, (ast.Subscript, ast.Call)) and "[:]" in src(a0) and src(adds[0].args[1]) == src(loop.target), "C18.R2", CF, adds[0].lineno,
            "colfile_from_hdf", "addcolumn(<group>[name][:], name)", "a dataset is not read back whole under its own name")
    w = m.nfunc("colfile_to_hdf")
    rs = find_calls(w, "resize")
    cmp_shape = [c for c in ast.walk(w) if isinstance(c, ast.Compare) and ".shape" in src(c.left) and ".shape" in src(c.comparators[0])]
    R.check(bool(rs) and bool(cmp_shape), "C18.R2", CF, w.lineno, "colfile_to_hdf", "existing dataset of another length is resized (or the write raises)",
            "overwriting an existing group with a different number of rows is not handled")


# --------------------------------------------------------------------------------------------------
def r3(R):
    R.rule("C18.R3", "parameter files: '%s %s\\n' per key <-> split(' ') into exactly two fields; dumbtypecheck runs at the end "
                     "of loadparameters on every path")
    m = pyfacts.module(R, PAR)
    w = m.nfunc("parameters.saveparameters")
    rd = m.nfunc("parameters.loadparameters")
    fm = [s for s in str_consts(w) if "%s" in s]
    R.check(fm == ["%s %s\n"], "C18.R3", PAR, w.lineno, "parameters.saveparameters", "line format %r" % fm, "writer must emit 'name value\\n'")
    sp = [a for a in ast.walk(rd) if isinstance(a, ast.Assign) and isinstance(a.value, ast.Call) and isinstance(a.value.func, ast.Attribute)
          and a.value.func.attr == "split" and src(a.value.func.value) == "line"]
    ok = len(sp) == 1 and isinstance(sp[0].targets[0], (ast.List, ast.Tuple)) and len(sp[0].targets[0].elts) == 2 \
        and (not sp[0].value.args or src(sp[0].value.args[0]) in ("' '", '" "'))
    if not ok and len(sp) == 1 and isinstance(sp[0].targets[0], ast.Name) and (not sp[0].value.args or src(sp[0].value.args[0]) in ("' '", '" "')):
        # the same with a named list: fields = line.split(' '); the store self.parameters[<from fields[0]>] = fields[1] runs only
        # where len(fields) == 2
        F = sp[0].targets[0].id
        rcfg = pyfacts.PyCFG(rd)
        st = [a for a in ast.walk(rd) if isinstance(a, ast.Assign) and isinstance(a.targets[0], ast.Subscript) and src(a.targets[0].value) == "self.parameters"]
        if len(st) == 1 and rcfg.node_of(st[0]) is not None:
            atoms = pyfacts.guard_atoms(rcfg.guards(rcfg.node_of(st[0])))
            val = pyfacts.resolved_src(rd, st[0].value, 3, keep=(F, "self")).replace(" ", "")
            key = pyfacts.resolved_src(rd, st[0].targets[0].slice, 3, keep=(F, "self")).replace(" ", "")
            ok = ("len(%s)==2" % F, True) in atoms and val == "%s[1]" % F and key.startswith("%s[0]" % F)
    R.check(ok, "C18.R3", PAR, rd.lineno, "parameters.loadparameters", "[name, value] = line.split(' ')", "reader no longer splits a line into exactly name and value")
    cfg = pyfacts.PyCFG(rd)
    calls = [s for s in ast.walk(rd) if isinstance(s, ast.Expr) and isinstance(s.value, ast.Call) and pyfacts.dotted(s.value.func) == "self.dumbtypecheck"]
    ok = bool(calls) and cfg.postdominates(cfg.node_of(calls[-1]), cfg.entry)
    R.check(ok, "C18.R3", PAR, rd.lineno, "parameters.loadparameters", "self.dumbtypecheck() post-dominates the entry",
            "values stay strings on some path: ints/floats do not come back with their types")
    dt = m.nfunc("parameters.dumbtypecheck")
    u = pyfacts.closure_src(m, dt)   # the coercion may live in a helper of the same module
    R.check(re.search(r"\bfloat\(", u) and re.search(r"\bint\(", u) and (".lstrip().rstrip()" in u or ".strip()" in u), "C18.R3", PAR, dt.lineno, "parameters.dumbtypecheck",
            "coercion tries float, then int, else stripped string", "type coercion order changed")
    # int vs float: a value that parses with int() comes back as that int.  The test that prefers the int must hold for every
    # integer string - comparing int(value) with float(value) exactly does not (Python compares int and float exactly; beyond
    # 2**53 the float is rounded, the test fails and the rounded float is stored)
    scope = [dt] + pyfacts.local_callees(m, dt, 2)
    ints = set()
    floats = set()
    for f_ in scope:
        for a_ in ast.walk(f_):
            if isinstance(a_, ast.Assign) and len(a_.targets) == 1 and isinstance(a_.targets[0], ast.Name) and isinstance(a_.value, ast.Call) and len(a_.value.args) == 1:
                if src(a_.value.func) == "int":
                    ints.add(a_.targets[0].id)
                if src(a_.value.func) == "float":
                    floats.add(a_.targets[0].id)
    for f_ in scope:
        for c_ in ast.walk(f_):
            if isinstance(c_, ast.Compare) and len(c_.ops) == 1 and isinstance(c_.ops[0], (ast.Eq, ast.NotEq)):
                names = {src(c_.left), src(c_.comparators[0])}
                if names & ints and names & floats:
                    R.check(False, "C18.R3", PAR, c_.lineno, "parameters.dumbtypecheck", "int / float choice by %s" % src(c_),
                            "int(value) is compared exactly with float(value): for integers that are not representable as a double "
                            "(|v| > 2**53) the comparison is false and the value is stored as a rounded float - neither its type nor its "
                            "value survives the round trip")
    # columnfile.readfile also coerces header parameters
    cm = pyfacts.module(R, CF)
    rf = cm.nfunc("columnfile.readfile")
    R.check("self.parameters.dumbtypecheck()" in ast.unparse(rf), "C18.R3", CF, rf.lineno, "columnfile.readfile", "header parameters coerced with dumbtypecheck()",
            "header parameters of a columnfile stay strings")


# --------------------------------------------------------------------------------------------------
def writer_tags(fn):
    """'#tag ...' format strings of write_grain_file -> {tag: [conversion types]}"""
    out = {}
    for s in str_consts(fn):
        mm = re.match(r"^#(\w+):?(.*)$", s, re.S)
        if mm:
            out[mm.group(1)] = [c.group("type") for c in conversions(mm.group(2))]
    return out


def write_sequence(stmts, fname=None, env=None, conditional=False):
    """the .write(...) calls of a statement list in execution order, loops over range(<small constant>) / constant tuples unrolled:
    list of (format string, [argument source with unrolled loop variables substituted], conditional?) - a plain string is a format
    without arguments.  Statements under if / try are marked conditional; other loops are descended once (one iteration)."""
    env = env or {}
    out = []

    def subst(e):
        class T(ast.NodeTransformer):
            def visit_Name(self, n):
                if n.id in env and isinstance(n.ctx, ast.Load):
                    return ast.copy_location(ast.Constant(value=env[n.id]), n)
                return n
        return src(T().visit(pyfacts.clone(e))).replace(" ", "")
    for st in stmts:
        if isinstance(st, ast.Expr) and isinstance(st.value, ast.Call) and isinstance(st.value.func, ast.Attribute) and st.value.func.attr == "write" \
                and len(st.value.args) == 1 and (fname is None or src(st.value.func.value) == fname):
            a = st.value.args[0]
            if isinstance(a, ast.Constant) and isinstance(a.value, str):
                out.append((a.value, [], conditional, st))
            elif isinstance(a, ast.BinOp) and isinstance(a.op, ast.Mod) and isinstance(a.left, ast.Constant) and isinstance(a.left.value, str):
                args = a.right.elts if isinstance(a.right, ast.Tuple) else [a.right]
                out.append((a.left.value, [subst(x) for x in args], conditional, st))
            else:
                out.append((None, [subst(a)], conditional, st))
        elif isinstance(st, ast.For):
            vals = None
            it = st.iter
            if isinstance(st.target, ast.Name):
                if isinstance(it, ast.Call) and src(it.func) == "range" and all(isinstance(x, ast.Constant) and isinstance(x.value, int) for x in it.args) and 1 <= len(it.args) <= 3:
                    vals = list(range(*[x.value for x in it.args]))
                elif isinstance(it, (ast.Tuple, ast.List)) and all(isinstance(x, ast.Constant) for x in it.elts):
                    vals = [x.value for x in it.elts]
            if vals is not None and len(vals) <= 16:
                for v in vals:
                    out += write_sequence(st.body, fname, dict(env, **{st.target.id: v}), conditional)
            else:
                out += write_sequence(st.body, fname, env, conditional)
        elif isinstance(st, ast.With):
            out += write_sequence(st.body, fname, env, conditional)
        elif isinstance(st, ast.If):
            out += write_sequence(st.body, fname, env, True) + write_sequence(st.orelse, fname, env, True)
        elif isinstance(st, ast.Try):
            out += write_sequence(st.body, fname, env, True)
            for h in st.handlers:
                out += write_sequence(h.body, fname, env, True)
            out += write_sequence(st.finalbody, fname, env, conditional)
    return out



def ubi_row_reader(fn):
    """the 3x3 text reader idiom, names free:  vals = [float(x) for x in line.split()];  if len(vals) == 3: ACC gets vals appended;
    if len(ACC) == 3: <use ACC>; ACC = []   ->  (ok, accumulator name or reason)"""
    fl = None
    for a in ast.walk(fn):
        if isinstance(a, ast.Assign) and len(a.targets) == 1 and isinstance(a.targets[0], ast.Name) and src(a.value).replace(" ", "") == "[float(x)forxinline.split()]":
            fl = a.targets[0].id
    if fl is None:
        return False, "no  <vals> = [float(x) for x in line.split()]"
    acc = None
    for i in ast.walk(fn):
        if isinstance(i, ast.If) and src(i.test).replace(" ", "") == "len(%s)==3" % fl and not i.orelse:
            for b in i.body:
                if isinstance(b, ast.Assign) and isinstance(b.targets[0], ast.Name) and src(b.value).replace(" ", "") in (
                        "%s+[%s]" % (b.targets[0].id, fl), "%s+[%s,]" % (b.targets[0].id, fl)):
                    acc = b.targets[0].id
                elif isinstance(b, ast.AugAssign) and isinstance(b.target, ast.Name) and isinstance(b.op, ast.Add) and src(b.value).replace(" ", "") == "[%s]" % fl:
                    acc = b.target.id
                elif isinstance(b, ast.Expr) and isinstance(b.value, ast.Call) and isinstance(b.value.func, ast.Attribute) and b.value.func.attr == "append" \
                        and isinstance(b.value.func.value, ast.Name) and [src(x) for x in b.value.args] == [fl]:
                    acc = b.value.func.value.id
    if acc is None:
        return False, "rows of three floats are not collected under len(%s) == 3" % fl
    for i in ast.walk(fn):
        if isinstance(i, ast.If) and src(i.test).replace(" ", "") == "len(%s)==3" % acc:
            reset = any(isinstance(b, ast.Assign) and src(b.targets[0]) == acc and src(b.value) in ("[]", "list()") for b in i.body)
            used = any(isinstance(x, ast.Name) and x.id == acc and isinstance(x.ctx, ast.Load) for b in i.body for x in ast.walk(b))
            if reset and used:
                return True, acc
            return False, "the accumulator %s is not consumed and reset after three rows" % acc
    return False, "no  if len(%s) == 3  block" % acc



def r4(R):
    R.rule("C18.R4", "grain text files: every tag written is parsed; conversions are inverted (%d<->int, %g/%f<->float, %s<->stripped "
                     "str); 9 UBI numbers with >= 9 significant digits, translation >= 6; per-grain state reset after each grain")
    m = pyfacts.module(R, GR)
    w = m.nfunc("write_grain_file")
    rd = m.nfunc("read_grain_file")
    tags = writer_tags(w)
    need = {"translation", "name", "npks", "nuniq", "UBI"}
    R.check(need <= set(tags), "C18.R4", GR, w.lineno, "write_grain_file", "tags written %s" % sorted(tags), "writer lost one of %s" % sorted(need))
    # UBI precision
    ub = [s for s in str_consts(w) if not s.startswith("#") and len(conversions(s)) == 3]
    # each  "<3 conversions>" % (u[a, b], ...)  counts once, or three times when it sits in a  for v in range(3)  loop and uses v
    rows, prec, nconv = [], [], 0
    for bo in ast.walk(w):
        if not (isinstance(bo, ast.BinOp) and isinstance(bo.op, ast.Mod) and isinstance(bo.left, ast.Constant) and bo.left.value in ub and isinstance(bo.right, ast.Tuple)):
            continue
        loopvar = None
        par = getattr(bo, "_parent", None)
        while par is not None and not isinstance(par, ast.FunctionDef):
            if isinstance(par, ast.For) and isinstance(par.target, ast.Name) and src(par.iter).replace(" ", "") in ("range(3)", "range(0,3)", "(0,1,2)", "[0,1,2]") \
                    and any(isinstance(x, ast.Name) and x.id == par.target.id for x in ast.walk(bo.right)):
                loopvar = par.target.id
                break
            par = getattr(par, "_parent", None)
        for rep in (range(3) if loopvar else [None]):
            for e in bo.right.elts:
                if not (isinstance(e, ast.Subscript) and isinstance(e.slice, ast.Tuple) and len(e.slice.elts) == 2):
                    continue
                ij = []
                for x in e.slice.elts:
                    if isinstance(x, ast.Constant) and isinstance(x.value, int):
                        ij.append(x.value)
                    elif isinstance(x, ast.Name) and x.id == loopvar:
                        ij.append(rep)
                    else:
                        ij.append(None)
                rows.append(tuple(ij))
            for c in conversions(bo.left.value):
                prec.append(sig_digits(c))
                nconv += 1
    R.shape(nconv > 0, "C18.R4", GR, "write_grain_file", "the '%.9g %.9g %.9g' rows of the UBI")
    R.check(nconv == 9 and all(p is not None and p >= 9 for p in prec), "C18.R4", GR, w.lineno, "write_grain_file", "UBI rows %r" % ub,
            "the UBI must be written as 9 numbers with at least 9 significant digits each (found %d conversions, digits %s)" % (nconv, prec))
    R.check(rows == [(i, j) for i in range(3) for j in range(3)], "C18.R4", GR, w.lineno, "write_grain_file", "UBI element order %s" % rows,
            "UBI elements are not written row-major u[0,0]..u[2,2]")
    tr = [s for s in str_consts(w) if s.startswith("#translation")]
    tprec = [sig_digits(c) for s in tr for c in conversions(s)]
    R.check(len(tprec) == 3 and all(p is not None and p >= 6 for p in tprec), "C18.R4", GR, w.lineno, "write_grain_file", "translation format %r" % tr,
            "translation must be written as 3 numbers with at least 6 significant digits")
    # reader: which expression is stored for each key
    stored = reader_store_exprs(rd)
    R.check(set(stored) >= {"name", "npks", "nuniq"}, "C18.R4", GR, rd.lineno, "read_grain_file", "keys restored %s" % sorted(stored),
            "the reader no longer restores name / npks / nuniq")
    for tag, convs in sorted(tags.items()):
        if tag in ("translation", "UBI", "Rod"):
            continue
        if tag not in stored:
            R.check(tag in ("intensity_info",) and "intensity_info" in ast.unparse(rd), "C18.R4", GR, rd.lineno, "read_grain_file",
                    "tag #%s recognised" % tag, "tag #%s is written but not restored by the reader" % tag)
            continue
        e = stored[tag]
        kind = expr_conversion(e)
        want = {"d": "int", "s": "str", "f": "float", "g": "float", "e": "float"}.get((convs or ["s"])[0], "str")
        R.check(kind == want, "C18.R4", GR, e.lineno, "read_grain_file", "#%s written with %%%s, restored as %s" % (tag, (convs or ["s"])[0], src(e)),
                "the reader does not invert the writer's conversion: %s comes back as %s instead of %s" % (
                    tag, {"raw": "the raw rest of the line including the newline"}.get(kind, kind), want))
    # line classification: the tag dictionary is filled from lines that carry free text (names, intensity_info), so the tests that
    # decide 'this is a #key value line' must look at the START of the line; a search anywhere in the line misfiles a value that
    # happens to contain the searched text
    _unanchored_line_tests(R, rd)
    # translation parsed with float and split()
    u = ast.unparse(rd)
    R.check("[float(x) for x in line.split()[1:]]" in u, "C18.R4", GR, rd.lineno, "read_grain_file", "translation = floats of the tokens after the tag", "translation parse changed")
    okr, accname = ubi_row_reader(rd)
    R.check(okr, "C18.R4", GR, rd.lineno, "read_grain_file", "UBI rows: three floats per line, three lines per grain", "UBI parse changed: %s" % accname)
    # state reset after each grain
    app = [n for n in ast.walk(rd) if isinstance(n, ast.If) and src(n.test).replace(" ", "") == "len(%s)==3" % accname]
    ok = False
    tvars = [a.targets[0].id for a in ast.walk(rd) if isinstance(a, ast.Assign) and isinstance(a.targets[0], ast.Name)
             and src(a.value).replace(" ", "") == "[float(x)forxinline.split()[1:]]"]
    dvars = sorted(set(a.targets[0].value.id for a in ast.walk(rd) if isinstance(a, ast.Assign) and isinstance(a.targets[0], ast.Subscript)
                       and isinstance(a.targets[0].value, ast.Name) and not isinstance(a.targets[0].slice, ast.Slice)))
    R.shape(len(tvars) == 1 and len(dvars) == 1 and bool(app), "C18.R4", GR, "read_grain_file", "the per-grain state: translation list, tag dictionary, row accumulator")
    body = [src(s).replace(" ", "") for s in app[0].body]
    ok = any(b in ("%s={}" % dvars[0], "%s=dict()" % dvars[0]) for b in body) and any(b in ("%s=[]" % accname, "%s=list()" % accname) for b in body) \
        and "%s=None" % tvars[0] in body
    R.check(ok, "C18.R4", GR, rd.lineno, "read_grain_file", "tag dictionary, row accumulator and translation reset after each grain", "attributes of one grain leak into the next")


def _unanchored_line_tests(R, rd):
    cfg = pyfacts.PyCFG(rd)
    loops = [l for l in ast.walk(rd) if isinstance(l, ast.For) and isinstance(l.target, ast.Name)]
    R.shape(len(loops) >= 1, "C18.R4", GR, "read_grain_file", "the loop over the lines of the file")
    lv = loops[0].target.id
    stores = [a for a in ast.walk(rd) if isinstance(a, ast.Assign) and isinstance(a.targets[0], ast.Subscript) and isinstance(a.targets[0].value, ast.Name)
              and not isinstance(a.targets[0].slice, (ast.Slice, ast.Constant))]
    R.shape(len(stores) >= 1, "C18.R4", GR, "read_grain_file", "the store  <tags>[key] = value  of a '#key value' line")

    def conjuncts(t, pol):
        if isinstance(t, ast.BoolOp) and isinstance(t.op, ast.And) and pol:
            for v in t.values:
                for c in conjuncts(v, True):
                    yield c
        elif isinstance(t, ast.BoolOp) and isinstance(t.op, ast.Or) and not pol:
            for v in t.values:
                for c in conjuncts(v, False):
                    yield c
        elif isinstance(t, ast.UnaryOp) and isinstance(t.op, ast.Not):
            for c in conjuncts(t.operand, not pol):
                yield c
        else:
            yield t, pol

    def unanchored(t, pol):
        """(searched text, 'must be absent'|'must be present') when t (taken with polarity pol) searches the whole line"""
        if not isinstance(t, ast.Compare) or len(t.ops) != 1:
            return None
        l_, op, r_ = t.left, t.ops[0], t.comparators[0]
        if isinstance(op, (ast.In, ast.NotIn)) and isinstance(l_, ast.Constant) and isinstance(l_.value, str) and src(r_) == lv:
            absent = isinstance(op, ast.NotIn) == pol
            return l_.value, absent
        if isinstance(l_, ast.Call) and isinstance(l_.func, ast.Attribute) and l_.func.attr in ("find", "rfind", "index") and src(l_.func.value) == lv \
                and l_.args and isinstance(l_.args[0], ast.Constant) and isinstance(l_.args[0].value, str):
            c = pyfacts.const_int(r_)
            if c is None:
                return None
            # value of find(): -1 = absent, 0 = at the start, > 0 somewhere else
            sat = lambda val: {ast.Lt: val < c, ast.LtE: val <= c, ast.Gt: val > c, ast.GtE: val >= c, ast.Eq: val == c, ast.NotEq: val != c}[type(op)]
            if type(op) not in (ast.Lt, ast.LtE, ast.Gt, ast.GtE, ast.Eq, ast.NotEq):
                return None
            want = [sat(v) == pol for v in (-1, 0, 5)]     # accepted for: absent / at start / inside
            if want == [True, False, False]:
                return l_.args[0].value, True              # passes only when the text is nowhere in the line
            if want == [False, True, True]:
                return l_.args[0].value, False             # passes whenever the text is anywhere in the line
            return None                                    # anchored (== 0) or position independent
        return None

    n = 0
    for st in stores:
        node = cfg.node_of(st)
        if node is None:
            continue
        for t, pol in cfg.guards(node):
            for c, cp in conjuncts(t, pol):
                u = unanchored(c, cp)
                n += 1
                if u is not None and u[1]:
                    R.check(False, "C18.R4", GR, c.lineno, "read_grain_file", "key/value line test %s" % src(c),
                            "a '#key value' line is recognised by %r appearing NOWHERE in the line, but the line carries free text: "
                            "write_grain_file writes '#name x%sy' for a grain of that name and the reader drops it (the grain comes back without its name)"
                            % (u[0], u[0]))
                else:
                    R.inst("C18.R4", "read_grain_file: key/value line guard %s%s" % ("" if cp else "not ", src(c)))
    R.shape(n >= 1, "C18.R4", GR, "read_grain_file", "the tests that guard the tag dictionary store")


def reader_store_exprs(fn):
    """{key: value expression} for 'for k in [consts]: ... setattr(obj, k, EXPR)' and direct setattr(obj, 'k', EXPR)"""
    out = {}
    for loop in ast.walk(fn):
        if isinstance(loop, ast.For) and isinstance(loop.iter, (ast.List, ast.Tuple)) and isinstance(loop.target, ast.Name):
            keys = [e.value for e in loop.iter.elts if isinstance(e, ast.Constant)]
            for c in ast.walk(loop):
                if isinstance(c, ast.Call) and pyfacts.dotted(c.func) == "setattr" and len(c.args) == 3 and src(c.args[1]) == loop.target.id:
                    for k in keys:
                        out[k] = c.args[2]
    for c in ast.walk(fn):
        if isinstance(c, ast.Call) and pyfacts.dotted(c.func) == "setattr" and len(c.args) == 3 and isinstance(c.args[1], ast.Constant):
            out[c.args[1].value] = c.args[2]
    return out


def expr_conversion(e):
    if isinstance(e, ast.Call):
        d = pyfacts.dotted(e.func) or ""
        if d == "int":
            return "int"
        if d == "float":
            return "float"
        if isinstance(e.func, ast.Attribute) and e.func.attr in ("strip", "rstrip"):
            return "str"
        if d == "str":
            return expr_conversion(e.args[0]) if e.args else "str"
    return "raw"


# --------------------------------------------------------------------------------------------------
def r5(R):
    R.rule("C18.R5", "grain HDF5: writer and reader iterate the same attribute tables with inverse conversions; dataset 'ubi' on both "
                     "sides; groups are named str(index) and read back sorted by int")
    m = pyfacts.module(R, GR)
    w = m.nfunc("grain.to_h5py_group")
    rd = m.nfunc("grain.from_h5py_group")
    uw, ur = ast.unparse(w), ast.unparse(rd)
    # writer, by role: save_array(<group>, <name>, <value>) calls and <group>[<name>] = <value> stores, values resolved through locals
    gname = None
    rg = [c for c in ast.walk(w) if isinstance(c, ast.Call) and isinstance(c.func, ast.Attribute) and c.func.attr == "require_group"]
    if rg and isinstance(getattr(rg[0], "_parent", None), ast.Assign):
        gname = src(rg[0]._parent.targets[0])
    R.shape(gname is not None, "C18.R5", GR, "grain.to_h5py_group", "the group created with require_group")
    saves = [c for c in ast.walk(w) if isinstance(c, ast.Call) and src(c.func) == "save_array" and len(c.args) == 3 and src(c.args[0]) == gname]
    ubi_saves = [c for c in saves if pyfacts.resolved_src(w, c.args[2], 3, keep=("self",)).replace(" ", "") == "self.ubi"]
    R.shape(len(ubi_saves) == 1, "C18.R5", GR, "grain.to_h5py_group", "one save_array(<group>, <name>, self.ubi) call")
    wname = ubi_saves[0].args[1]
    R.check(isinstance(wname, ast.Constant) and wname.value == "ubi" and "grain_group['ubi'][:]" in ur, "C18.R5", GR, ubi_saves[0].lineno, "grain.to_h5py_group",
            "'ubi' dataset written (%s) and read whole" % src(wname), "ubi dataset name or slicing differs between writer and reader")

    def loop_over(fn_, tables):
        out = []
        for l in ast.walk(fn_):
            if isinstance(l, ast.For) and isinstance(l.target, ast.Name):
                names = set(x.id for x in ast.walk(l.iter) if isinstance(x, ast.Name))
                if set(tables) <= names and names <= set(tables) | {"list", "tuple", "sorted"}:
                    out.append(l)
        return out

    def value_is_getattr(fn_, v, var):
        r = pyfacts.resolved(fn_, v, 3, keep=("self", var))
        return isinstance(r, ast.Call) and src(r.func) == "getattr" and len(r.args) >= 2 and src(r.args[0]) == "self" and src(r.args[1]) == var
    sl = loop_over(w, ("STRINGATTRS", "NUMATTRS"))
    if not sl:
        sl = loop_over(w, ("STRINGATTRS",)) + loop_over(w, ("NUMATTRS",))
        R.shape(len(sl) == 2, "C18.R5", GR, "grain.to_h5py_group", "the loop(s) over STRINGATTRS and NUMATTRS")
    for l in sl:
        var = l.target.id
        st = [x for x in ast.walk(l) if isinstance(x, ast.Assign) and isinstance(x.targets[0], ast.Subscript) and src(x.targets[0].value) == gname]
        R.shape(len(st) == 1, "C18.R5", GR, "grain.to_h5py_group", "one store <group>[<attr>] = <value> in the loop over the scalar attribute tables")
        R.check(src(st[0].targets[0].slice) == var and value_is_getattr(w, st[0].value, var), "C18.R5", GR, st[0].lineno, "grain.to_h5py_group",
                "scalars: %s[%s] = getattr(self, %s) for %s" % (gname, src(st[0].targets[0].slice), var, src(l.iter)), "a scalar attribute is written under another name or with another value")
    # an optional attribute is skipped only when it is None: 0 peaks / 0 unique peaks / an empty name are data.  A truthiness test
    # ('if value:') drops them, and the reader then returns a grain without the attribute
    wcfg = pyfacts.PyCFG(w)
    for l in sl:
        for stx in [x for x in ast.walk(l) if isinstance(x, ast.Assign) and isinstance(x.targets[0], ast.Subscript) and src(x.targets[0].value) == gname]:
            for t, pol in wcfg.guards(wcfg.node_of(stx)):
                tv = pyfacts.resolved(w, t, 2, keep=("self", l.target.id))
                names = [x.id for x in ast.walk(t) if isinstance(x, ast.Name)]
                if not any(nm in names for nm in [src(stx.value)] if isinstance(stx.value, ast.Name)):
                    continue
                ok_none = isinstance(t, ast.Compare) and len(t.ops) == 1 and isinstance(t.ops[0], (ast.IsNot, ast.NotEq)) and \
                    isinstance(t.comparators[0], ast.Constant) and t.comparators[0].value is None and pol
                truthy = pol and isinstance(t, ast.Name) and t.id == src(stx.value)
                R.check(not truthy, "C18.R5", GR, stx.lineno, "grain.to_h5py_group", "scalar attribute written unless it is None (guard: %s)" % src(t),
                        "the guard is a truthiness test: npks == 0, nuniq == 0 and name == '' are skipped like None, no dataset is created and "
                        "read_grain_file_h5 returns the grain WITHOUT that attribute")
                if not truthy and not ok_none:
                    R.shape(False, "C18.R5", GR, "grain.to_h5py_group", "the condition '%s' under which a scalar attribute is written" % src(t)[:60])
    al = loop_over(w, ("ARRATTRS",))
    R.shape(len(al) == 1, "C18.R5", GR, "grain.to_h5py_group", "the loop over ARRATTRS")
    var = al[0].target.id
    asv = [c for c in saves if any(c is x for x in ast.walk(al[0]))]
    R.shape(len(asv) == 1, "C18.R5", GR, "grain.to_h5py_group", "one save_array call in the loop over ARRATTRS")
    R.check(src(asv[0].args[1]) == var and value_is_getattr(w, asv[0].args[2], var), "C18.R5", GR, asv[0].lineno, "grain.to_h5py_group",
            "arrays: save_array(%s, %s, getattr(self, %s))" % (gname, src(asv[0].args[1]), var), "an array attribute is written under another name or with another value")
    for table, conv in (("STRINGATTRS", "[()].decode()"), ("NUMATTRS", "[()])"), ("ARRATTRS", "[:])")):
        loops = [n for n in ast.walk(rd) if isinstance(n, ast.For) and src(n.iter) == table]
        ok = len(loops) == 1 and conv in ast.unparse(loops[0]) and "setattr(g, attr" in ast.unparse(loops[0])
        R.check(ok, "C18.R5", GR, rd.lineno, "grain.from_h5py_group", "%s restored with %s" % (table, conv),
                "the reader does not iterate %s with the inverse conversion" % table)
    sa = m.nfunc("save_array")
    us = ast.unparse(sa)
    R.check("shape=ary.shape" in us and "dtype=ary.dtype" in us and "hds[:] = ary" in us, "C18.R5", GR, sa.lineno, "save_array",
            "dataset keeps the array's shape and dtype", "arrays are stored with another dtype/shape: not exact")
    wf = m.nfunc("write_grain_file_h5")
    rf = m.nfunc("read_grain_file_h5")
    loops = [l for l in ast.walk(wf) if isinstance(l, ast.For) and isinstance(l.iter, ast.Call) and src(l.iter.func) == "enumerate" and isinstance(l.target, ast.Tuple)
             and len(l.target.elts) == 2]
    calls = [c for l in loops for c in ast.walk(l) if isinstance(c, ast.Call) and isinstance(c.func, ast.Attribute) and c.func.attr == "to_h5py_group"]
    R.shape(len(loops) == 1 and len(calls) == 1, "C18.R5", GR, "write_grain_file_h5", "for <n>, <g> in enumerate(<grains>): <g>.to_h5py_group(...)")
    gname = [k.value for k in calls[0].keywords if k.arg == "group_name"] or (calls[0].args[1:2])
    idx = src(loops[0].target.elts[0])
    R.check(bool(gname) and pyfacts.resolved_src(wf, gname[0], 3, keep=(idx,)).replace(" ", "") in ("str(%s)" % idx, "'%%d'%%%s" % idx, "'%%d'%%(%s,)" % idx, "'%%s'%%%s" % idx, "'%%s'%%(%s,)" % idx),
            "C18.R5", GR, wf.lineno, "write_grain_file_h5", "groups named by list position", "order can no longer be reconstructed from group names")
    srt = [c for c in ast.walk(rf) if isinstance(c, ast.Call) and src(c.func) == "sorted" and c.args and "keys()" in src(c.args[0]) or
           (isinstance(c, ast.Call) and src(c.func) == "sorted" and c.args)]
    if not srt:
        # no sorted(): positive evidence of the defect is a loop that builds the grain list directly from the h5py group's own
        # iteration order (.keys() / .values() / .items() / the group itself), which is alphabetical in the names
        rloops = [l for l in ast.walk(rf) if isinstance(l, ast.For) and any(isinstance(c, ast.Call) and isinstance(c.func, ast.Attribute)
                                                                            and c.func.attr == "from_h5py_group" for c in ast.walk(l))]
        R.shape(len(rloops) == 1, "C18.R5", GR, "read_grain_file_h5", "the loop that reads the grain groups")
        it = pyfacts.resolved(rf, rloops[0].iter)
        while isinstance(it, ast.Call) and src(it.func) in ("list", "iter", "tuple") and len(it.args) == 1:
            it = it.args[0]
        if isinstance(it, ast.Call) and isinstance(it.func, ast.Attribute) and it.func.attr in ("keys", "values", "items") and not it.args:
            it = it.func.value
        R.shape(isinstance(it, ast.Subscript) or (isinstance(it, ast.Name) and it.id in ("hin", "h5f", "hf")), "C18.R5", GR, "read_grain_file_h5",
                "the order in which the grain groups are read (%s)" % src(rloops[0].iter)[:60])
        R.check(False, "C18.R5", GR, rloops[0].lineno, "read_grain_file_h5", "for %s in %s" % (src(rloops[0].target), src(rloops[0].iter)),
                "the groups are read in h5py's own iteration order, which is alphabetical in the names ('10' before '2'): a file with more "
                "than 10 grains comes back in another order than it was written")
        return
    keyf = [src(k.value).replace(" ", "") for k in srt[0].keywords if k.arg == "key"]
    R.check(bool(keyf) and keyf[0] in ("int", "lambdax:int(x)") or (bool(keyf) and re.match(r"^lambda(\w+):int\(\1\)$", keyf[0]) is not None), "C18.R5", GR, rf.lineno, "read_grain_file_h5",
            "groups read back sorted by int(name)", "string sort would put '10' before '2'")
    tabs = {}
    for k in ("STRINGATTRS", "NUMATTRS", "ARRATTRS"):
        tabs[k] = ast.literal_eval(m.global_assign(k))
    R.check(set(tabs["STRINGATTRS"]) >= {"name"} and set(tabs["NUMATTRS"]) >= {"npks", "nuniq"} and "translation" in tabs["ARRATTRS"],
            "C18.R5", GR, 1, "<module>", "attribute tables %s" % tabs, "names, peak counts or translation dropped from the HDF5 tables")


# --------------------------------------------------------------------------------------------------
def r6(R):
    R.rule("C18.R6", "ubi files: three rows of three conversions per matrix, blank line between, reader takes 3 floats per row")
    m = pyfacts.module(R, IDX)
    w = m.nfunc("write_ubi_file")
    rd = m.nfunc("readubis")
    seq = [x for x in write_sequence(w.body) if not x[2]]
    R.shape(bool(seq) and all(x[0] is not None for x in seq), "C18.R6", IDX, "write_ubi_file", "the sequence of formatted writes of one matrix")
    text = "".join(x[0] for x in seq)
    lines = text.split("\n")
    R.check(len(lines) == 5 and lines[3] == "" and lines[4] == "" and all(len(conversions(l)) == 3 and all(c.group("type") in "feg" for c in conversions(l)) for l in lines[:3]),
            "C18.R6", IDX, w.lineno, "write_ubi_file", "record format %r" % text, "a ubi record must be three rows of three numeric conversions followed by a blank line")
    idx = [tuple(int(x) for x in re.findall(r"\d", a)) for x in seq for a in x[1]]
    R.check(idx == [(i, j) for i in range(3) for j in range(3)], "C18.R6", IDX, w.lineno, "write_ubi_file", "element order %s" % idx, "elements not written row-major")
    okr, accname = ubi_row_reader(rd)
    R.check(okr, "C18.R6", IDX, rd.lineno, "readubis", "3 floats per row, 3 rows per matrix, state reset", "ubi reader changed: %s" % accname)


H5_MAKERS = ("create_dataset", "require_dataset", "create_group", "require_group", "File")


def is_h5_object(mm, stmt, e):
    """expression denotes an h5py group/dataset/file: a subscript of something, or a name/attribute bound from an h5py
    constructor or from such a subscript in the same function (or a parameter called group/grp/h5*/hdf*)"""
    if isinstance(e, ast.Subscript):
        return True
    if isinstance(e, ast.Call):
        return isinstance(e.func, ast.Attribute) and e.func.attr in H5_MAKERS
    key = src(e)
    fn = mm.enclosing_function(stmt)
    scope = fn if fn is not None else mm.tree
    for a in ast.walk(scope):
        if isinstance(a, ast.Assign) and any(src(t) == key for t in a.targets):
            v = a.value
            if isinstance(v, ast.Subscript):
                return True
            if isinstance(v, ast.Call) and isinstance(v.func, ast.Attribute) and v.func.attr in H5_MAKERS:
                return True
        if isinstance(a, ast.With):
            for it in a.items:
                if it.optional_vars is not None and src(it.optional_vars) == key and "h5py.File" in src(it.context_expr):
                    return True
    if fn is not None and isinstance(e, ast.Name) and e.id in [x.arg for x in fn.args.args]:
        return re.match(r"^(group|grp|g|h5\w*|hdf\w*|hin|hout|dset|dataset)$", e.id) is not None
    return False


# --------------------------------------------------------------------------------------------------
def r8(R):
    """One frame per group, and the reader is OPEN: from_hdf_group takes every dataset of the group (other than row / col) as a pixel
    array of the frame and every attribute of a dataset as its metadata.  The writer writes a CLOSED set (the names the frame has).
    Saving a frame over a group that held a frame with more pixel arrays (or more metadata keys) therefore reads back with the old
    arrays attached to the new pixels - unless the writer deletes what it did not write.  Two cooperating sites: each looks fine alone."""
    R.rule("C18.R8", "sparse frames, overwriting a group: from_hdf_group reads every dataset / attribute it finds, so to_hdf_group removes the "
                     "datasets (del group[name] for names not in frame.pixels) and the per-array attributes of an earlier save that it does not write")
    m = pyfacts.module(R, SPF)
    w = m.ifunc("sparse_frame.to_hdf_group")
    rd = m.ifunc("from_hdf_group")
    grp_r = rd.args.args[0].arg
    grp_w = w.args.args[-1].arg
    open_ds = [f for f in ast.walk(rd) if isinstance(f, (ast.For, ast.comprehension)) and any(isinstance(x, ast.Name) and x.id == grp_r for x in ast.walk(f.iter))
               and not any(isinstance(x, ast.Attribute) and x.attr == "attrs" for x in ast.walk(f.iter))]
    open_at = [c for c in ast.walk(rd) if isinstance(c, ast.Call) and src(c.func) == "dict" and len(c.args) == 1 and src(c.args[0]).endswith(".attrs")
               and src(c.args[0]).startswith(grp_r + "[")]

    def deletes(kind):
        out = []
        for d in ast.walk(w):
            if isinstance(d, ast.Delete):
                for t in d.targets:
                    ts = src(t).replace(" ", "")
                    if kind == "dataset" and isinstance(t, ast.Subscript) and src(t.value) == grp_w:
                        out.append(d)
                    if kind == "attr" and isinstance(t, ast.Subscript) and ts.startswith(grp_w + "[") and ".attrs[" in ts:
                        out.append(d)
            if kind == "attr" and isinstance(d, ast.Call) and isinstance(d.func, ast.Attribute) and d.func.attr == "clear" and src(d.func.value).endswith(".attrs") \
                    and src(d.func.value).startswith(grp_w + "["):
                out.append(d)
        return out
    if open_ds:
        dd = deletes("dataset")
        R.check(bool(dd), "C18.R8", SPF, w.lineno, "sparse_frame.to_hdf_group", "datasets of an earlier frame removed (reader: for .. in %s)" % src(open_ds[0].iter)[:30],
                "from_hdf_group (line %d) takes every dataset in the group as a pixel array, and to_hdf_group writes only the arrays the frame has and "
                "deletes nothing: a frame with only 'intensity' saved over a group that held 'intensity' and 'labels' reads back with the OLD labels "
                "(and their nlabel) attached to the NEW pixels" % open_ds[0].iter.lineno)
        for d in dd:
            cfg = pyfacts.PyCFG(w)
            g = [src(t) for t, pol in cfg.guards(cfg.node_of(d))] if cfg.node_of(d) is not None else []
            R.check(any("pixels" in t for t in g), "C18.R8", SPF, d.lineno, "sparse_frame.to_hdf_group", "%s only for names the frame does not have (%s)" % (src(d), "; ".join(g)[:60]),
                    "datasets are deleted without testing that the frame does not own them: arrays just written are removed")
    else:
        R.inst("C18.R8", "from_hdf_group reads a closed set of datasets")
    if open_at:
        R.check(bool(deletes("attr")), "C18.R8", SPF, w.lineno, "sparse_frame.to_hdf_group", "attributes of an earlier save removed (reader: %s)" % src(open_at[0])[:40],
                "from_hdf_group takes every attribute of a pixel dataset as its metadata, and to_hdf_group only adds / updates keys (attrs.update): "
                "metadata keys of the frame that was in the group before (nlabel of other labels, a threshold) come back attached to the new array")
    else:
        R.inst("C18.R8", "from_hdf_group reads a closed set of attributes")
    R.floor("C18.R8", 2)


# --------------------------------------------------------------------------------------------------
def r7(R):
    R.rule("C18.R7", "sparse frames: attrs itype/shape0/shape1 and datasets row/col/<pixels> agree between to_hdf_group and "
                     "from_hdf_group; h5py attribute managers are only updated, never rebound (X.attrs = ... raises)")
    m = pyfacts.module(R, SPF)
    w = m.nfunc("sparse_frame.to_hdf_group")
    rd = m.nfunc("from_hdf_group")
    class H5Norm(ast.NodeTransformer):
        """G.require_dataset(K, ...) / G.create_dataset(K, ...) used as a value is the dataset G[K]"""
        def visit_Call(self, c):
            self.generic_visit(c)
            if isinstance(c.func, ast.Attribute) and c.func.attr in ("require_dataset", "create_dataset") and c.args and getattr(c, "_as_value", False):
                return ast.Subscript(value=c.func.value, slice=c.args[0], ctx=ast.Load())
            return c

    def h5text(fn):
        # dataset handles bound to local names (rowds = group.require_dataset('row', ..); rowds[:] = x) read as group['row'][:] = x
        defs = pyfacts.unique_defs(fn)
        grp = fn.args.args[-1].arg if fn.args.args else "group"
        handles = {n for n, v in defs.items() if (isinstance(v, ast.Call) and isinstance(v.func, ast.Attribute) and v.func.attr in ("require_dataset", "create_dataset"))
                   or (isinstance(v, ast.Subscript) and isinstance(v.value, ast.Name) and v.value.id == grp)}
        sizes = {n for n, v in defs.items() if src(v).replace(" ", "") in ("frame.nnz",)}
        t = pyfacts.resolved(fn, fn, 3, keep=tuple(set(defs) - handles - sizes))
        for n in ast.walk(t):
            for c in ast.iter_child_nodes(n):
                if isinstance(c, ast.Call) and not isinstance(n, ast.Expr):
                    c._as_value = True
        return ast.unparse(ast.fix_missing_locations(H5Norm().visit(t)))
    uw, ur = h5text(w), h5text(rd)
    for a in ("itype", "shape0", "shape1"):
        R.check(("'%s'" % a) in uw and ("group.attrs['%s']" % a) in ur, "C18.R7", SPF, w.lineno, "sparse_frame.to_hdf_group", "attribute %s written and read" % a,
                "attribute %s is not on both sides" % a)
    for d in ("row", "col"):
        R.check(("group['%s'][:] = frame.%s" % (d, d)) in uw and ("group['%s'][:]" % d) in ur, "C18.R7", SPF, w.lineno, "sparse_frame.to_hdf_group",
                "dataset %s written and read" % d, "dataset %s is not on both sides" % d)
    # reader side by role: <frame>.set_pixels(<name>, <group>[<name>][:], dict(<group>[<name>].attrs)) - values named or written inline
    sp_ok = False
    for c_ in ast.walk(rd):
        if isinstance(c_, ast.Call) and isinstance(c_.func, ast.Attribute) and c_.func.attr == "set_pixels" and len(c_.args) >= 3:
            a0 = src(c_.args[0]).replace(" ", "")
            a1 = pyfacts.resolved_src(rd, c_.args[1], 2, keep=(a0,)).replace(" ", "")
            a2 = pyfacts.resolved_src(rd, c_.args[2], 2, keep=(a0,)).replace(" ", "")
            if re.match(r"^\(?\w+\[%s\]\[:\]\)?$" % re.escape(a0), a1) and ("[%s].attrs" % a0) in a2:
                sp_ok = True
    # the writer's loop in the spelling this rule reads; another spelling (keys + lookup, an index loop) is 'cannot decide', not a violation
    R.shape("for pxname, px in frame.pixels.items()" in uw and "group[pxname][:] = px" in uw, "C18.R7", SPF, "sparse_frame.to_hdf_group",
            "the loop 'for pxname, px in frame.pixels.items(): group[pxname][:] = px'")
    R.check(sp_ok, "C18.R7", SPF,
            w.lineno, "sparse_frame.to_hdf_group", "every pixel array written and restored by name", "pixel arrays are not round-tripped by name")
    R.check("dict(group[pxname].attrs)" in ur, "C18.R7", SPF, rd.lineno, "from_hdf_group", "per-array metadata read from attrs", "metadata not restored")
    # metadata written through attrs.update / item assignment
    meta_ok = ("group[pxname].attrs.update(" in uw) or ("group[pxname].attrs[" in uw)
    R.check(meta_ok or "frame.meta" not in uw, "C18.R7", SPF, w.lineno, "sparse_frame.to_hdf_group", "per-array metadata written with attrs.update / attrs[k] = v",
            "metadata of the pixel arrays is not written through the attribute manager")
    # whole library: never rebind .attrs
    n = 0
    for rel in pyfacts.library_files(R.root, R.tier):
        mm = pyfacts.module(R, rel)
        if ".attrs" not in mm.text:
            continue
        for a in ast.walk(mm.tree):
            tg = []
            if isinstance(a, ast.Assign):
                tg = a.targets
            elif isinstance(a, (ast.AugAssign, ast.AnnAssign)):
                tg = [a.target]
            for t in tg:
                if isinstance(t, ast.Attribute) and t.attr == "attrs" and is_h5_object(mm, a, t.value):
                    fn = mm.enclosing_function(a)
                    R.violation("C18.R7", rel, a.lineno, mm.qualname(fn) if fn else "<module>", "%s = ..." % src(t),
                                "h5py objects do not allow rebinding .attrs (AttributeError): the save fails for every object that "
                                "carries metadata; use .attrs.update(...) or .attrs[key] = value")
        for c in ast.walk(mm.tree):
            if isinstance(c, ast.Attribute) and c.attr == "attrs":
                n += 1
    R.inst("C18.R7", "%d uses of .attrs in the library examined, none rebinds the attribute manager" % n, ok=True)
    if n < 20:
        R.fail("C18.R7 saw only %d uses of .attrs (expected > 20): scope lost" % n)
