"""C11  Threshold labelling yields exactly the connected components.

Decided (necessary conditions): R1 each of the four regions of the dense scan (first row, first column, interior,
last column) unions the pixel with exactly the already-visited neighbours that exist there, NW/NE only under
'eightconnected'; the sparse variants look at k-1 and the window j-1..j+1 of the row above; R2 all variants label
exactly 'v > threshold'; R3 disjoint-set protocol (dset_new result assigned back, initialise/compress/free
pairing, link higher->lower, the count cell survives table growth); R4 every label cell is written; R5 the relabel
loop is race free; R6 the Python callers of the kernels (sparseframe, labelimage) keep label 0 = background when they renumber.
Not decided: that union-find over these edges yields exactly the components, counts, equality between variants.
"""
import ast

from engine import cfront, cover, crules, definit, omp, pyfacts
from engine.cfront import estr, estr_top, ewalk, swalk
from engine.poly import Poly

PID = "C11"
CP = "src/connectedpixels.c"
SP = "src/sparse_image.c"
BL = "src/blobs.c"


def run(R):
    R.assume("ns, nf >= 2 for the dense kernel; sparse input sorted row-major without duplicates (produced by the repo's own converters)")
    tus = cfront.load(R.root, files=["connectedpixels.c", "sparse_image.c", "blobs.c"])
    if R.want("C11.R2"):
        r2(R, tus)           # first: it reads nothing but the threshold comparisons (a violation found here is reported even when R1 cannot read the scan)
    if R.want("C11.R1"):
        r1(R, tus)
    if R.want("C11.R3"):
        r3(R, tus)
    if R.want("C11.R4"):
        r4(R, tus)
    if R.want("C11.R6"):
        r6(R)
    if R.want("C11.R7"):
        r7(R)
    if R.want("C11.R5"):
        R.rule("C11.R5", "OpenMP constructs of connectedpixels.c (relabel loop, clean_mask) satisfy the data-sharing discipline (E2)")
        omp.report(R, "C11.R5", tus, select=lambda f: f.file == CP, floor=4)


# --------------------------------------------------------------------------------------------------
def match_pattern(s):
    """'do { if (X == 0) X = Y; else if (X != Y) dset_makeunion(Z, X, Y); } while (0)' -> (X, Y) expression texts"""
    if s.k != "do" or not cfront.is_zero_lit(s.cond):
        return None
    body = s.body.body if s.body.k == "block" else [s.body]
    if len(body) != 1 or body[0].k != "if":
        return None
    i = body[0]
    c = i.cond
    if not (c.k == "bin" and c.op == "==" and c.a[1].k == "int" and c.a[1].val == 0):
        return None
    X = c.a[0]
    tb = i.then.body if i.then.k == "block" else [i.then]
    if len(tb) != 1 or tb[0].k != "expr" or tb[0].e.k != "asg" or estr(tb[0].e.a[0]) != estr(X):
        return None
    Y = tb[0].e.a[1]
    calls = [x for st, x in cfront.all_exprs(i.els) if x.k == "call" and x.name == "dset_makeunion"] if i.els is not None else []
    if len(calls) != 1:
        return None
    args = [estr(a) for a in calls[0].a]
    if set(args[1:]) != {estr(X), estr(Y)}:
        return None
    return X, Y


def r1(R, tus):
    R.rule("C11.R1", "dense scan: region -> linked neighbour offsets {first row: W; first column: N, NE*; interior: NW*, N, NE*, W; last "
                     "column: NW*, N, W} (* only under eightconnected); sparse: k-1 on the same row and j-1..j+1 on the row above")
    f = cfront.find_func(tus, "connectedpixels", CP)
    pn = [p.name for p in f.params]
    data, labels, thr, eight, ns, nf = pn[0], pn[1], pn[2], pn[4], pn[5], pn[6]
    reg = omp.Region(f, cfront.S("omp", name="none", clauses=[], body=f.body), tus)
    found = {}

    def enclosing_conds(block):
        """id(if statement) -> list of (condition E, polarity) of the if statements that enclose it inside `block`"""
        out = {}

        def rec(s, stack):
            if s is None:
                return
            if s.k == "if":
                out[id(s)] = list(stack)
                rec(s.then, stack + [(s.cond, True)])
                rec(s.els, stack + [(s.cond, False)])
                return
            for c in omp._children(s):
                rec(c, stack)
        rec(block, [])
        return out

    def links_of(block, env, P):
        """walk the 'pixel above threshold' block: collect (offset poly, needs_eight)"""
        out = []
        outer = enclosing_conds(block)
        for s in swalk(block):
            if s.k != "if":
                continue
            conds = omp.conj(s.cond, True)
            ctext = [c[0] for c in conds]
            nb = [c for c in ctext if c.startswith("(%s[" % labels) and c.endswith("> 0)")]
            if len(nb) != 1:
                continue
            needs8 = eight in ctext
            # the neighbour cell
            nexpr = None
            for x in ewalk(s.cond):
                if x.k == "bin" and x.op == ">" and x.a[0].k == "idx" and estr(x.a[0].a[0]) == labels:
                    nexpr = x.a[0]
            Q = reg.form(nexpr.a[1], env)
            # a link must be taken whenever ITS neighbour is labelled: it may sit under the eightconnected flag, never under a
            # test of another neighbour's label (the else-branch of 'if W is labelled' etc.)
            for oc, pol in outer.get(id(s), []):
                other = [x.a[0] for x in ewalk(oc) if x.k == "bin" and x.op == ">" and x.a[0].k == "idx" and estr(x.a[0].a[0]) == labels]
                if any(estr(o) != estr(nexpr) for o in other):
                    R.check(False, "C11.R1", CP, s.line, "connectedpixels",
                            "link to %s examined only when %s%s" % (estr(nexpr), "" if pol else "not ", estr(oc)),
                            "the union with this neighbour is skipped depending on the label of another neighbour: the two are not "
                            "necessarily in one set yet (under 4-connectivity W and N are only joined through the current pixel), so "
                            "one blob is split")
            # the action: a match() on (labels[P], labels[Q]) or the direct copy labels[P] = labels[Q]
            act = None
            for t in swalk(s.then):
                mp = match_pattern(t)
                if mp is not None and estr(mp[1]) == estr(nexpr):
                    act = "match"
                if t.k == "expr" and t.e.k == "asg" and t.e.op == "=" and estr(t.e.a[1]) == estr(nexpr) and estr(t.e.a[0]).startswith(labels + "["):
                    act = act or "copy"
            if act is None or Q is None:
                continue
            out.append((Q - P, needs8, act, s.line))
        return out

    def walk(s, env, ranges):
        if s is None:
            return
        if s.k in ("block", "multi"):
            for x in s.body:
                walk(x, env, ranges)
            return
        if s.k == "expr":
            reg.apply_assign(s.e, env, dict(guards=[]), True)
            return
        if s.k == "for":
            hdr = omp.loop_header(s)
            if s.init is not None:
                walk(s.init, env, ranges)
            if hdr is not None:
                env[hdr[0]] = Poly.atom(hdr[0])
                ranges = dict(ranges)
                ranges[hdr[0]] = (reg.form(hdr[1], env), reg.form(hdr[2], env))
            walk(s.body, env, ranges)
            return
        if s.k == "if":
            c = s.cond
            dside = [a for a in c.a if a.k == "idx" and estr(a.a[0]) == data] if c.k == "bin" and c.op in (">", ">=", "<", "<=") else []
            tside = [a for a in c.a if estr(a) == thr] if c.k == "bin" else []
            if len(dside) == 1 and len(tside) == 1:
                P = reg.form(dside[0].a[1], env)
                found[repr(P)] = (P, dict(ranges), links_of(s.then, env, P), s.line)
                return
            walk(s.then, dict(env), ranges)
            walk(s.els, dict(env), ranges)
            return
        if s.k == "omp":
            return
    walk(f.body, {}, {})
    NF = Poly.atom(nf)
    i_, j_ = Poly.atom("i"), Poly.atom("j")
    regions = {
        "first pixel": (Poly(), {}),
        "first row": (j_, {(-1,): False}),
        "first column": (i_ * NF, {("-nf",): False, ("-nf+1",): True}),
        "interior": (i_ * NF + j_, {("-nf-1",): True, ("-nf",): False, ("-nf+1",): True, (-1,): False}),
        "last column": (i_ * NF + NF - 1, {("-nf-1",): True, ("-nf",): False, (-1,): False}),
    }
    offs = {(-1,): Poly.const(-1), ("-nf",): -NF, ("-nf+1",): -NF + 1, ("-nf-1",): -NF - 1}
    for name, (P, want) in regions.items():
        hit = [v for v in found.values() if v[0] == P]
        R.shape(len(hit) == 1, "C11.R1", CP, "connectedpixels", "the '%s' threshold block at pixel index %r (found indices %s)" % (name, P, sorted(found)))
        Pp, rng, links, line = hit[0]
        got = {}
        for off, n8, act, ln in links:
            key = [k for k, v in offs.items() if v == off]
            if not key:
                R.check(False, "C11.R1", CP, ln, "connectedpixels", "%s: link to offset %r" % (name, off), "the scan links a pixel that is not one of the four already-visited neighbours")
                continue
            got[key[0]] = n8
        for k, need8 in want.items():
            R.check(k in got, "C11.R1", CP, line, "connectedpixels", "%s: neighbour %s linked" % (name, k[0]),
                    "an already-visited neighbour is never examined in this region: touching blobs stay separate")
            if k in got:
                R.check(got[k] == need8, "C11.R1", CP, line, "connectedpixels", "%s: neighbour %s %s" % (name, k[0], "only when eightconnected" if need8 else "always (4-connected)"),
                        "a diagonal neighbour is linked in 4-connected mode, or an edge neighbour only in 8-connected mode")
        for k in got:
            R.check(k in want, "C11.R1", CP, line, "connectedpixels", "%s: no link to %s" % (name, k[0]),
                    "the scan links a neighbour that does not exist in this region (wraps to the previous row's other end)")
    # loop ranges of the regions
    P, rng, links, line = [v for v in found.values() if v[0] == regions["interior"][0]][0]
    jr = rng.get("j")
    ir_ = rng.get("i")
    R.check(jr is not None and jr[0] == Poly.const(1) and jr[1] == NF - 1 and ir_ is not None and ir_[0] == Poly.const(1) and ir_[1] == Poly.atom(ns), "C11.R1", CP, line,
            "connectedpixels", "interior: i in [1, ns), j in [1, nf-1)", "interior loop bounds changed: %s %s" % (ir_, jr))
    P, rng, links, line = [v for v in found.values() if v[0] == regions["first row"][0]][0]
    jr = rng.get("j")
    R.check(jr is not None and jr[0] == Poly.const(1) and jr[1] == NF, "C11.R1", CP, line, "connectedpixels", "first row: j in [1, nf)", "first-row loop bounds changed: %s" % (jr,))
    # ---- sparse: the guards that dominate the two places where labels are propagated, read as linear relations over i[], j[],
    # labels[] (the names of the locals, nested ifs vs one && chain, break-first vs if/else, operand order are all free)
    for fname in ("sparse_connectedpixels",):
        g = cfront.inlined_func(tus, fname, SP, keep=tuple(f_.name for f_ in cfront.all_funcs(tus) if f_.name.startswith("dset_")))
        defs = cfront.scalar_defs(g)
        cfg = g.cfg
        pj, pi, lab = g.params[2].name, g.params[1].name, g.params[5].name
        L = lambda arr, idx: Poly.atom(("load", "%s[%s]" % (arr, repr(idx))))
        K = Poly.atom("k")
        one = Poly.const(1)
        # A. same-row neighbour:  labels[k] = labels[X]  under  j[X] + 1 == j[k], i[X] == i[k], labels[X] > 0  with X = k - 1
        in_match = set(id(x) for s_ in swalk(g.body) if match_pattern(s_) is not None for st, x in cfront.all_exprs(s_))
        props = [x for st, x in cfront.all_exprs(g.body) if x.k == "asg" and x.op == "=" and estr(x.a[0]) == "%s[k]" % lab and x.a[1].k == "idx"
                 and estr(x.a[1].a[0]) == lab and x.a[1].a[1].k == "var" and id(x) not in in_match]
        R.shape(len(props) == 1, "C11.R1", SP, fname, "the store labels[k] = labels[<previous pixel>]")
        X = props[0].a[1].a[1].name
        nd = crules.node_with(cfg, props[0])
        facts = crules.rel_facts(cfg, nd.id, defs)
        Xp = Poly.atom(X)
        need = {"column j[X] + 1 == j[k]": crules.fact("==", L(pj, Xp) + one - L(pj, K)),
                "row i[X] == i[k]": crules.fact("==", L(pi, Xp) - L(pi, K)),
                "labelled labels[X] > 0": crules.fact(">", L(lab, Xp))}
        missing = [t for t, f_ in need.items() if f_ not in facts]
        R.check(not missing, "C11.R1", SP, props[0].line or g.line, fname, "left neighbour: j[p]+1 == j[k], same row, labelled",
                "the same-row neighbour test changed: not guarded by %s" % missing)
        xdefs = [(st, x) for st, x in cfront.all_exprs(g.body) if x.k == "asg" and x.a[0].k == "var" and x.a[0].name == X]
        prev = [x for st, x in xdefs if x.op == "=" and crules.lin(x.a[1]) == K - one]
        okx = False
        if len(prev) == 1:
            n1 = crules.node_with(cfg, prev[0])
            okx = n1 is not None and n1.id in cfg.dominators(nd.id)
            import networkx as nx
            g2 = cfg.g.copy()
            g2.remove_node(n1.id)
            for st, x in xdefs:
                if x is prev[0]:
                    continue
                n2 = crules.node_with(cfg, x)
                if n2 is not None and n2.id in g2 and nd.id in g2 and nx.has_path(g2, n2.id, nd.id):
                    okx = False
        R.check(okx, "C11.R1", SP, g.line, fname, "previous pixel index %s = k - 1 at the same-row test" % X, "the same-row neighbour is not the previous pixel of the list")
        # B. row above:  match(labels[k], labels[Y])  under  j[Y] <= j[k] + 1, i[Y] == i[k] - 1, labels[Y] > 0
        nm = [s_ for s_ in swalk(g.body) if match_pattern(s_) is not None]
        R.shape(len(nm) == 1, "C11.R1", SP, fname, "the match(labels[k], labels[<pixel above>], S) union")
        mx, my = match_pattern(nm[0])
        R.check(estr(mx) == "%s[k]" % lab and my.k == "idx" and estr(my.a[0]) == lab and my.a[1].k == "var", "C11.R1", SP, nm[0].line, fname,
                "match(labels[k], labels[p], S) inside the window", "the union of the current pixel with the row above changed")
        Y = my.a[1].name if (my.k == "idx" and my.a[1].k == "var") else "?"
        Yp = Poly.atom(Y)
        inner_asg = [x for st, x in cfront.all_exprs(nm[0]) if x.k == "asg"]
        ndm = crules.node_with(cfg, inner_asg[0]) if inner_asg else None
        R.shape(ndm is not None, "C11.R1", SP, fname, "the union statement in the flow graph")
        mf = crules.rel_facts(cfg, ndm.id, defs)
        rowabove = L(pi, K) - one
        need = {"window j[Y] <= j[k] + 1": crules.fact(">=", L(pj, K) + one - L(pj, Yp)),
                "row i[Y] == i[k] - 1": crules.fact("==", L(pi, Yp) - rowabove),
                "labelled labels[Y] > 0": crules.fact(">", L(lab, Yp))}
        missing = [t for t, f_ in need.items() if f_ not in mf]
        R.check("window j[Y] <= j[k] + 1" not in missing, "C11.R1", SP, nm[0].line, fname, "row-above window ends at j[k] + 1", "the window of the row above is not j-1..j+1")
        R.check("row i[Y] == i[k] - 1" not in missing, "C11.R1", SP, nm[0].line, fname, "ir = i[k] - 1 (row above)", "row above is not i[k]-1 at the union")
        R.check("labelled labels[Y] > 0" not in missing, "C11.R1", SP, nm[0].line, fname, "only labelled pixels of the row above are united", "an unlabelled pixel above is united")
        # C. the cursor on the row above stops one column to the left:  while (j[k] - j[Z] > 1 && i[Z] == i[k] - 1) Z++
        skips = []
        for w in swalk(g.body):
            if w.k not in ("while", "for") or w.cond is None:
                continue
            body = [b_ for b_ in (w.body.body if w.body is not None and w.body.k == "block" else [w.body]) if b_ is not None]
            incs = [b_ for b_ in body if b_.k == "expr" and ((b_.e.k == "incdec" and b_.e.op == "++") or (b_.e.k == "asg" and b_.e.op == "+=" and estr(b_.e.a[1]) == "1"))
                    and b_.e.a[0].k == "var"]
            if w.k == "for" and w.inc is not None and w.inc.k == "incdec" and not body:
                incs = [S_ for S_ in [w] if False]
            if len(body) != 1 or len(incs) != 1:
                continue
            Z = incs[0].e.a[0].name
            Zp = Poly.atom(Z)
            conj = []

            def conjuncts(e):
                if e.k == "bin" and e.op == "&&":
                    conjuncts(e.a[0])
                    conjuncts(e.a[1])
                else:
                    conj.append(e)
            conjuncts(w.cond)
            fs = set()
            for c_ in conj:
                r_ = crules.rel_lin(c_, True, defs)
                if r_ is not None:
                    fs.add((r_[0], r_[1].key()))
            if crules.fact(">", L(pj, K) - L(pj, Zp) - one) in fs:
                skips.append((w, Z, fs))
        R.check(len(skips) == 1 and crules.fact("==", L(pi, Poly.atom(skips[0][1])) - rowabove) in skips[0][2], "C11.R1", SP, g.line, fname, "row-above skip while j[k] - j[pp] > 1",
                "the walk along the row above no longer stops one column to the left (found %d such loops)" % len(skips))
    # splat: the union statement sits in a loop whose variable moves the united cell over the three cells above the current one:
    # (flat index of the other cell) - (flat index of the current cell) runs from -jdim-1 to -jdim+1 in steps of one, whatever the
    # spelling (flat index, row pointers, < or <=)
    g = cfront.inlined_func(tus, "sparse_connectedpixels_splat", SP, keep=tuple(f_.name for f_ in cfront.all_funcs(tus) if f_.name.startswith("dset_")))
    nm = [s_ for s_ in swalk(g.body) if match_pattern(s_) is not None]
    R.shape(len(nm) == 1, "C11.R1", SP, "sparse_connectedpixels_splat", "the match(<current>, <above>, S) union")
    encl = [l for l in swalk(g.body) if l.k == "for" and any(s_ is nm[0] for s_ in swalk(l.body))]
    R.shape(len(encl) >= 2 and omp.loop_header(encl[-1]) is not None, "C11.R1", SP, "sparse_connectedpixels_splat", "the loop over the three pixels of the previous row")
    main, inner = encl[0], encl[-1]
    h = omp.loop_header(inner)
    defs = cfront.scalar_defs(g, within=main)
    defs.pop(h[0], None)
    mx, my = match_pattern(nm[0])

    def flat(e):
        e2 = cfront.esubst(e, defs, 5)
        if e2.k != "idx":
            return None, None
        base, subs = cfront.subscripts(e2)
        if base is None or len(subs) != 1:
            return None, None
        return base.name, crules.lin(subs[0], defs)
    bx, ix = flat(mx)
    by, iy = flat(my)
    R.shape(bx is not None and by is not None and bx == by and ix is not None and iy is not None, "C11.R1", SP, "sparse_connectedpixels_splat",
            "both cells of the union as flat indices into the same scratch image")
    rel = iy - ix
    iv = h[0]
    first = crules.lin(h[1], defs)
    last = crules.lin(h[2], defs) - (Poly.const(0) if h[5] else Poly.const(1))
    # row stride of the scratch image: the factor of the row number i[k] in the flat index of the current cell
    rowatoms = [a_ for a_ in ix.atoms() if isinstance(a_, tuple) and a_[0] == "load" and a_[1].startswith(g.params[1].name + "[")]
    R.shape(len(rowatoms) == 1 and ix.degree_in(rowatoms[0]) == 1, "C11.R1", SP, "sparse_connectedpixels_splat", "current cell = (i[k] + 1) * stride + j[k] + 1")
    JD = ix.coeff(rowatoms[0], 1)
    okr = h[3] == 1 and rel.degree_in(iv) == 1 and rel.coeff(iv, 1) == Poly.const(1) and not (first is None or last is None)
    if okr:
        r0, r1_ = rel.subs({iv: first}), rel.subs({iv: last})
        okr = r0 == -JD - Poly.const(1) and r1_ == -JD + Poly.const(1)
    R.check(okr, "C11.R1", SP, inner.line, "sparse_connectedpixels_splat", "pp from ir-1 to ir+1 inclusive",
            "the splat variant does not visit NW, N, NE: offsets %s for %s in %s..%s" % (rel, iv, estr(h[1]), estr(h[2])))


# --------------------------------------------------------------------------------------------------
def _orderings(cond, is_value, thr):
    """truth of the C condition `cond` for the four possible orderings of (pixel value, threshold): 'gt', 'eq', 'lt' and
    'un' (unordered: the value is NaN, every comparison but != is false).  None when the condition is not a boolean
    combination of comparisons between the pixel value and the threshold."""
    def ev(e, case):
        while e.k == "cast" or e.k == "paren":
            e = e.a[0]
        if e.k == "un" and e.op == "!":
            r_ = ev(e.a[0], case)
            return None if r_ is None else (not r_)
        if e.k == "bin" and e.op in ("&&", "||"):
            a, b = ev(e.a[0], case), ev(e.a[1], case)
            if a is None or b is None:
                return None
            return (a and b) if e.op == "&&" else (a or b)
        if e.k == "bin" and e.op in ("<", "<=", ">", ">=", "==", "!="):
            l_, r_ = e.a[0], e.a[1]
            while l_.k in ("cast", "paren"):
                l_ = l_.a[0]
            while r_.k in ("cast", "paren"):
                r_ = r_.a[0]
            if is_value(l_) and estr(r_) == thr:
                op = e.op
            elif is_value(r_) and estr(l_) == thr:
                op = {"<": ">", "<=": ">=", ">": "<", ">=": "<=", "==": "==", "!=": "!="}[e.op]
            else:
                return None
            if case == "un":
                return op == "!="
            return {"gt": op in (">", ">=", "!="), "eq": op in (">=", "<=", "=="), "lt": op in ("<", "<=", "!=")}[case]
        return None
    out = {}
    for case in ("gt", "eq", "lt", "un"):
        r_ = ev(cond, case)
        if r_ is None:
            return None
        out[case] = r_
    return out


def r2(R, tus):
    R.rule("C11.R2", "dense, sparse and splat variants label exactly the pixels with value > threshold: for each of the four orderings of "
                     "(value, threshold) - above, equal, below, unordered (NaN) - only 'above' is foreground, in every variant")
    want = {"gt": True, "eq": False, "lt": False, "un": False}
    names = {"gt": "value > threshold", "eq": "value == threshold", "lt": "value < threshold", "un": "a NaN value"}

    def report(file, fname, line, cond, fg, skip):
        diff = [c for c in ("gt", "eq", "lt", "un") if fg[c] != want[c]]
        R.check(not diff, "C11.R2", file, line, fname, "test %s%s" % (estr(cond), " -> continue" if skip else ""),
                "foreground for %s: the dense variant labels a pixel only where 'data > threshold' is true, so the variants disagree about "
                "such pixels (and the pixel is %s although it is not strictly above the threshold)"
                % (", ".join(names[c] for c in diff) or "-", "labelled" if any(fg[c] and not want[c] for c in diff) else "dropped"))
    f = cfront.find_func(tus, "connectedpixels", CP)
    data, thr = f.params[0].name, f.params[2].name
    tests = [st.cond for st in swalk(f.body) if st.k == "if" and any(x.k == "idx" and estr(x.a[0]) == data for x in ewalk(st.cond))]
    R.shape(len(tests) >= 5, "C11.R2", CP, "connectedpixels", "the five threshold tests")
    for c in tests:
        fg = _orderings(c, lambda e: e.k == "idx" and estr(e.a[0]) == data, thr)
        R.shape(fg is not None, "C11.R2", CP, "connectedpixels", "a threshold test that compares the pixel with the threshold (%s)" % estr(c))
        report(CP, "connectedpixels", c.line, c, fg, False)
    for fname in ("sparse_connectedpixels", "sparse_connectedpixels_splat"):
        g = cfront.find_func(tus, fname, SP)
        v, thr = g.params[0].name, g.params[4].name
        tests = [st for st in swalk(g.body) if st.k == "if" and any(x.k == "idx" and estr(x.a[0]) == v for x in ewalk(st.cond))]
        R.shape(len(tests) >= 1, "C11.R2", SP, fname, "the threshold test")
        for st in tests:
            skip = st.then.k == "continue" or (st.then.k == "block" and len(st.then.body) >= 1 and st.then.body[-1].k == "continue")
            tv = _orderings(st.cond, lambda e: e.k == "idx" and estr(e.a[0]) == v, thr)
            R.shape(tv is not None, "C11.R2", SP, fname, "a threshold test that compares the pixel with the threshold (%s)" % estr(st.cond))
            fg = {c: (not tv[c]) if skip else tv[c] for c in tv}
            report(SP, fname, st.line, st.cond, fg, skip)


# --------------------------------------------------------------------------------------------------
def r3(R, tus):
    R.rule("C11.R3", "disjoint-set protocol: S = dset_new(&S, ...) at every call; S from dset_initialise; one dset_compress after the scan "
                     "whose table relabels every positive label; free(S), free(T); dset_link points the higher id at the lower; the "
                     "count cell S[S[0]-1] holds the running count after table growth")
    users = [("connectedpixels", CP), ("sparse_connectedpixels", SP), ("sparse_connectedpixels_splat", SP)]
    for fname, file in users:
        f = cfront.find_func(tus, fname, file)
        ncalls = 0
        for st, x in cfront.all_exprs(f.body):
            if x.k == "call" and x.name == "dset_new":
                ncalls += 1
                a0 = x.a[0]
                tgt = a0.a[0].name if (a0.k == "un" and a0.op == "&" and a0.a[0].k == "var") else None
                # the call must be the right-hand side of an assignment to the same variable
                okk = False
                for st2, y in cfront.all_exprs(f.body):
                    if y.k == "asg" and y.op == "=" and y.a[1] is x and y.a[0].k == "var" and y.a[0].name == tgt:
                        okk = True
                R.check(okk, "C11.R3", file, x.line, fname, "%s = dset_new(&%s, ...)" % (tgt, tgt),
                        "the pointer returned by dset_new is dropped: after the table is reallocated (more than 16381 provisional labels) the "
                        "caller keeps using the freed block")
        R.check(ncalls >= 1, "C11.R3", file, f.line, fname, "%d dset_new call sites" % ncalls, "no provisional labels are created")
        inits = [y for st, y in cfront.all_exprs(f.body) if y.k == "asg" and y.a[1].k == "call" and y.a[1].name == "dset_initialise"]
        comp = [y for st, y in cfront.all_exprs(f.body) if y.k == "asg" and y.a[1].k == "call" and y.a[1].name == "dset_compress"]
        frees = [x for st, x in cfront.all_exprs(f.body) if x.k == "call" and x.name == "free"]
        R.check(len(inits) == 1 and len(comp) == 1 and (comp[0].line or 0) > (inits[0].line or 0), "C11.R3", file, f.line, fname, "one dset_initialise, then one dset_compress",
                "initialise/compress pairing changed")
        if inits and comp:
            S, T = estr(inits[0].a[0]), estr(comp[0].a[0])
            fa = sorted(estr(x.a[0]).replace("(void *)", "") for x in frees)
            R.check(fa == sorted([S, T]), "C11.R3", file, f.line, fname, "free(%s), free(%s)" % (S, T), "the set or the compressed table is leaked / freed twice: %s" % fa)
            cfg = f.cfg
            rets = [n for n in cfg.nodes if n.k == "return" and n.id in cfg.reachable()]
            # all dset_new calls precede compress; relabel uses T[...] under label > 0
            news = [x.line for st, x in cfront.all_exprs(f.body) if x.k == "call" and x.name == "dset_new"]
            R.check(all(l < comp[0].line for l in news), "C11.R3", file, comp[0].line, fname, "compress after the last dset_new", "labels are created after the set was compressed")
            rel = [y for st, y in cfront.all_exprs(f.body) if y.k == "asg" and y.op == "=" and any(z.k == "idx" and estr(z.a[0]) == T for z in ewalk(y.a[1])) and (y.line or 0) > comp[0].line]
            R.check(len(rel) >= 1, "C11.R3", file, comp[0].line, fname, "labels rewritten through %s[...] after compress" % T, "provisional labels are returned to the caller")
    # dset_find returns a ROOT: the walk up the parent links is iterated (recursion, or a loop that runs while S[x] != x).  A fixed number
    # of steps returns a non-root for chains longer than that, and dset_link then re-parents the non-root: a recorded union is lost
    df = cfront.find_func(tus, "dset_find", BL)
    sname, xname = df.params[1].name, df.params[0].name
    rec = [x for st, x in cfront.all_exprs(df.body) if x.k == "call" and x.name == "dset_find"]
    loops = [st for st in swalk(df.body) if st.k in ("while", "do", "for") and st.cond is not None and
             any(y.k == "idx" and estr(y.a[0]) == sname for y in ewalk(st.cond))]
    rec_ok = any(len(x.a) == 2 and any(y.k == "idx" and estr(y.a[0]) == sname for y in ewalk(x.a[0])) for x in rec)
    R.check(rec_ok or bool(loops), "C11.R3", BL, df.line, "dset_find", "the walk to the root is iterated (%s)" % (
        "recursion on S[x]" if rec_ok else ("loop on %s" % estr(loops[0].cond) if loops else "no recursion, no loop")),
        "dset_find follows a fixed number of parent links: for a chain of three or more links (labels merged from right to left on successive "
        "rows, then joined to an older label) it returns a label that is not a root, dset_link re-parents that label and the union with its "
        "old root is lost - one connected object gets two labels")
    rets = [st for st in swalk(df.body) if st.k == "return" and st.e is not None and not (st.e.k == "int")]
    R.shape(len(rets) >= 1, "C11.R3", BL, "dset_find", "the return of the root")
    # dset_makeunion links the ROOTS of the two labels: both arguments of dset_link are dset_find results.  S[r] is the root only for a
    # label that was itself just searched; a label whose root was later linked under another root has depth 2
    mu = cfront.find_func(tus, "dset_makeunion", BL)
    mudefs = cfront.scalar_defs(mu)
    links = [x for st, x in cfront.all_exprs(mu.body) if x.k == "call" and x.name == "dset_link"]
    R.shape(len(links) == 1 and len(links[0].a) == 3, "C11.R3", BL, "dset_makeunion", "the dset_link(S, a, b) call")
    muasg = {}
    for st, x in cfront.all_exprs(mu.body):
        if x.k == "asg" and x.op == "=" and x.a[0].k == "var":
            muasg.setdefault(x.a[0].name, []).append(x.a[1])
    for a_ in links[0].a[1:]:
        e_ = cfront.esubst(a_, mudefs, 3)
        while e_.k == "cast":
            e_ = e_.a[0]
        if e_.k == "var" and len(muasg.get(e_.name, [])) == 1:
            e_ = muasg[e_.name][0]
            while e_.k == "cast":
                e_ = e_.a[0]
        R.check(e_.k == "call" and e_.name == "dset_find", "C11.R3", BL, links[0].line, "dset_makeunion", "dset_link argument %s = %s" % (estr(a_), estr(e_)),
                "dset_link is given %s, which is the parent of the label and not necessarily its root: when the label has depth 2 the "
                "intermediate node is re-parented and the root it pointed to is cut off - one connected object gets two labels" % estr(e_))
    # dset_link: the higher root is made to point at the lower one, nothing else changes (decided on small models: every ordered pair
    # of roots from {1, 2, 3} in a table of five identity entries)
    lk = cfront.find_func(tus, "dset_link", BL)
    R.shape(len(lk.params) == 3, "C11.R3", BL, "dset_link", "dset_link(S, a, b)")
    Sn, an, bn = [p_.name for p_ in lk.params]
    bad = None
    try:
        for a_ in (1, 2, 3):
            for b_ in (1, 2, 3):
                env = {Sn: [0, 1, 2, 3, 4], an: a_, bn: b_}
                crules.run_concrete(lk, env)
                want = [0, 1, 2, 3, 4]
                if a_ != b_:
                    want[max(a_, b_)] = min(a_, b_)
                if env[Sn] != want and bad is None:
                    bad = (a_, b_, list(env[Sn]), want)
    except crules.NotEvaluable as ex_:
        R.shape(False, "C11.R3", BL, "dset_link", "a body of comparisons and parent stores that can be evaluated on small tables (%s)" % ex_)
    R.check(bad is None, "C11.R3", BL, lk.line, "dset_link", "dset_link(S, a, b): S[max(a, b)] = min(a, b) for a != b, nothing for a == b (9 models)",
            "for roots %s and %s the table [0, 1, 2, 3, 4] becomes %s, expected %s: a lower id pointing at a higher one (or a missing / extra "
            "store) breaks dset_compress, which numbers roots in increasing order and expects parents below children"
            % ((bad[0], bad[1], bad[2], bad[3]) if bad else ("", "", "", "")))
    # dset_new: *v = current unconditional; growth keeps the counter in the last cell
    dn = cfront.find_func(tus, "dset_new", BL)
    grow = [s for s in swalk(dn.body) if s.k == "if" and "length" in estr(s.cond) and "current" in estr(s.cond)]
    R.shape(len(grow) == 1, "C11.R3", BL, "dset_new", "the table-growth branch")
    c = grow[0].cond
    nrm = crules.rel_norm(c, True)
    R.check(nrm in (("<", "length", "(current + 3)"), ("<", "length", "(current + 2)"), ("<=", "length", "(current + 2)"), ("<=", "length", "(current + 1)"), ("<", "length", "(current + 1)")), "C11.R3", BL, c.line, "dset_new", "growth test %s" % estr(c),
            "the table is not grown before 'current' (and the count cell behind it) would fall outside the allocation")
    reg = omp.collect_accesses(dn, tus, grow[0].then)
    L = Poly.atom("length")
    cnt_cell = L * 2 - 1
    last_writer = None
    order = []
    stmts = grow[0].then.body if grow[0].then.k == "block" else [grow[0].then]
    dndefs = cfront.scalar_defs(dn)   # newlength = length * 2; ... S[newlength - 1]  reads as S[length * 2 - 1]
    _form = reg.form
    reg_form = lambda e, env: _form(cfront.esubst(e, dndefs), env)
    for s in stmts:
        iv = None
        if s.k == "expr" and s.e.k == "asg" and s.e.a[0].k == "idx" and estr(s.e.a[0].a[0]) == "S":
            p = reg_form(s.e.a[0].a[1], {})
            iv = (p, p, estr_top(s.e))
        elif s.k == "for":
            h = omp.loop_header(s)
            body = s.body.body if s.body.k == "block" else [s.body]
            if h is not None and len(body) == 1 and body[0].k == "expr" and body[0].e.k == "asg" and estr(body[0].e.a[0]) == "S[%s]" % h[0]:
                lo, hi = reg_form(h[1], {}), reg_form(h[2], {}) - (0 if h[5] else 1)
                iv = (lo, hi, "for %s in [%r,%r]: %s" % (h[0], lo, hi, estr_top(body[0].e)))
        elif s.k == "expr" and s.e.k == "call" and s.e.name == "memset":
            a0 = s.e.a[0]
            while a0.k == "cast":
                a0 = a0.a[0]
            if a0.k == "un" and a0.op == "&" and a0.a[0].k == "idx" and estr(a0.a[0].a[0]) == "S":
                lo = reg_form(a0.a[0].a[1], {})
                nb = s.e.a[2]
                cnt = None
                if nb.k == "bin" and nb.op == "*":
                    for side in nb.a:
                        if not any(z.k == "sizeof" for z in ewalk(side)):
                            cnt = reg_form(side, {})
                if lo is not None and cnt is not None:
                    iv = (lo, lo + cnt - 1, estr_top(s.e))
        if iv is not None:
            order.append(iv)
    for lo, hi, text in order:
        if lo is None or hi is None:
            continue
        if omp.proves_nonneg(cnt_cell - lo) and omp.proves_nonneg(hi - cnt_cell):
            last_writer = text
    R.check(last_writer is not None and last_writer.replace(" ", "").endswith("=current"), "C11.R3", BL, grow[0].line, "dset_new",
            "last store covering the count cell S[2*length-1] in the growth branch: %s" % last_writer,
            "after the table is grown the running label count is not what the last cell holds (it is zeroed after being stored, or never stored): "
            "the next provisional labels restart from 1 and collide with existing ones")
    dv = [x for st, x in cfront.all_exprs(dn.body) if x.k == "asg" and x.a[0].k == "un" and x.a[0].op == "*"]
    R.check(len(dv) == 1 and estr(dv[0].a[1]) == "current", "C11.R3", BL, dn.line, "dset_new", "*v = current (the new label is handed to the caller)", "the caller's label cell is not set")
    sc = [x for st, x in cfront.all_exprs(dn.body) if x.k == "asg" and estr(x.a[0]) == "S[current]"]
    R.check(len(sc) == 1 and estr(sc[0].a[1]) == "current", "C11.R3", BL, dn.line, "dset_new", "S[current] = current (new singleton set)", "a new label does not start as its own root")


# --------------------------------------------------------------------------------------------------
def r4(R, tus):
    R.rule("C11.R4", "every cell of the labels output is written on every path: dense - unconditional zeroing of cells 1..ns*nf-1 plus both "
                     "branches of the first pixel; sparse - labels[k] = 0 is the first statement of the loop over all k")
    f = cfront.find_func(tus, "connectedpixels", CP)
    labels, ns, nf = f.params[1].name, f.params[5].name, f.params[6].name
    facts = [Poly.atom(nf) - 2, Poly.atom(ns) - 2]
    cov = cover.covered(f, tus, labels, facts=facts)
    want = (Poly.const(1), Poly.atom(ns) * Poly.atom(nf) - 1)
    ok = cov is not None and len(cov) == 1 and cov[0][0] == want[0] and cov[0][1] == want[1]
    R.check(ok, "C11.R4", CP, f.line, "connectedpixels", "unconditional stores cover %s[1 .. ns*nf-1]: %s" % (labels, cov),
            "some label cells are only written when the pixel is above threshold: background pixels keep the caller's previous content")
    first = [s for s in swalk(f.body) if s.k == "if" and estr(s.cond) == "(%s[0] > %s)" % (f.params[0].name, f.params[2].name)]
    R.shape(len(first) == 1, "C11.R4", CP, "connectedpixels", "the first-pixel test")
    tb = " ".join(estr(e) for st in swalk(first[0].then) for e in cfront.stmt_exprs(st))
    eb = " ".join(estr(e) for st in swalk(first[0].els) for e in cfront.stmt_exprs(st)) if first[0].els is not None else ""
    R.check("&%s[0]" % labels in tb and "%s[0] = 0" % labels in eb, "C11.R4", CP, first[0].line, "connectedpixels", "first pixel written on both branches",
            "labels[0] is left unwritten on one branch")
    for fname in ("sparse_connectedpixels",):
        g = cfront.find_func(tus, fname, SP)
        lab, nnz = g.params[5].name, g.params[3].name
        loops = [s for s in swalk(g.body) if s.k == "for" and omp.loop_header(s) is not None]
        main = [s for s in loops if s.body.k == "block" and s.body.body and s.body.body[0].k == "expr" and estr(s.body.body[0].e) == "%s[k] = 0" % lab]
        R.check(len(main) == 1, "C11.R4", SP, g.line, fname, "labels[k] = 0 is the first statement of the scan loop", "labels of below-threshold pixels are not reset")
        if main:
            h = omp.loop_header(main[0])
            R.check(estr(h[1]) == "0" and estr(h[2]) == nnz and h[3] == 1 and not h[5], "C11.R4", SP, main[0].line, fname, "scan loop k in [0, nnz)", "the scan does not visit every pixel")
    # the splat variant labels in a dense work image and copies the result out in a last loop over all k: that loop must store into
    # labels[k] on EVERY path of an iteration (or the cells are zeroed unconditionally before) - a store only under 'Z[p] > 0' leaves
    # the previous content of the output for the pixels that are not above the threshold
    g = cfront.find_func(tus, "sparse_connectedpixels_splat", SP)
    lab, nnz = g.params[5].name, g.params[3].name
    cfg = g.cfg
    import networkx as nx
    covered = False
    found = False
    for lp in [s_ for s_ in swalk(g.body) if s_.k == "for" and omp.loop_header(s_) is not None]:
        h = omp.loop_header(lp)
        if not (estr(h[1]) == "0" and estr(h[2]) == nnz):
            continue
        heads = [n_ for n_ in cfg.nodes if n_.k == "join" and n_.s is lp]
        if not heads:
            continue
        hd = heads[0].id
        body_ids = (nx.descendants(cfg.g, hd) & nx.ancestors(cfg.g, hd)) - {hd}      # the nodes of one iteration
        sts = [n_ for n_ in cfg.nodes if n_.id in body_ids and n_.k == "expr" and n_.e is not None and n_.e.k == "asg" and estr(n_.e.a[0]) == "%s[%s]" % (lab, h[0])]
        if not sts:
            continue
        found = True
        # unconditional zeroing as the first statement (the sparse idiom) or: no path through an iteration avoids every store
        hg = cfg.g.copy()
        for n_ in sts:
            hg.remove_node(n_.id)
        # without the stores, can an iteration still get from the head back to the head?
        hg2 = hg.subgraph(body_ids | {hd})
        leaks = any(hd in nx.descendants(hg2, s_) for s_ in hg2.successors(hd)) if hd in hg2 else True
        if not leaks:
            covered = True
    R.shape(found, "C11.R4", SP, "sparse_connectedpixels_splat", "a loop over k in [0, nnz) that stores into %s[k]" % lab)
    R.check(covered, "C11.R4", SP, g.line, "sparse_connectedpixels_splat", "%s[k] is stored on every path of the output loop" % lab,
            "the labels of pixels that are not above the threshold are not written (the store is conditional): a reused output array keeps "
            "stale labels for them, possibly larger than the count returned, and the splat and sparse variants no longer give the same partition")


# --------------------------------------------------------------------------------------------------
LABEL_ARG = {"sparse_connectedpixels": 4, "sparse_connectedpixels_splat": 4, "connectedpixels": 1}


def rootsrc(fn, e):
    """text of the array an expression is a view of: subscripts stripped, single-definition aliases (x = self.labels[s:e]) resolved"""
    for _ in range(4):
        while isinstance(e, ast.Subscript):
            e = e.value
        if isinstance(e, ast.Name) and fn is not None:
            r = pyfacts.resolved(fn, e)
            if isinstance(r, (ast.Subscript, ast.Attribute)) or (isinstance(r, ast.Name) and r.id != e.id):
                e = r
                continue
        break
    return pyfacts.src(e)


FN = [None]


def r6(R):
    """The kernels write label 0 for every pixel that is not above the threshold.  A Python caller that renumbers the labels it got
    (SparseScan.cplabel makes them unique across a scan) must keep 0 -> 0: every later store into the label buffer in the same
    function is masked by 'label > 0' (np.where(L > 0, L + k, 0), L[L > 0] += k), a multiplication, or absent."""
    R.rule("C11.R6", "Python callers of connectedpixels / sparse_connectedpixels(_splat): a later store into the label buffer keeps "
                     "background 0 (np.where(L > 0, L + k, 0) or a 'L > 0' mask); an unmasked shift gives background pixels a peak label")
    nsite = 0
    for rel in ("ImageD11/sparseframe.py", "ImageD11/labelimage.py"):
        m = pyfacts.module(R, rel)
        for name, call in pyfacts.kernel_calls(m.tree, names=set(LABEL_ARG)):
            fn = m.enclosing_function(call)
            if fn is None or len(call.args) <= LABEL_ARG[name]:
                R.shape(False, "C11.R6", rel, name, "the label argument of the %s call at line %d" % (name, call.lineno))
            q = m.qualname(fn)
            lab = call.args[LABEL_ARG[name]]
            FN[0] = fn
            bsrc = rootsrc(fn, lab)
            nsite += 1
            stores = []
            for st in ast.walk(fn):
                if isinstance(st, (ast.Assign, ast.AugAssign)):
                    for t in (st.targets if isinstance(st, ast.Assign) else [st.target]):
                        if not isinstance(t, ast.Subscript) and not isinstance(st, ast.AugAssign):
                            continue      # rebinding a name is not a store into the buffer
                        if rootsrc(fn, t) == bsrc and st.lineno > call.lineno:
                            stores.append((st, t))
            if not stores:
                R.inst("C11.R6", "%s:%s %s: labels in %s are passed on as the kernel wrote them" % (rel, q, name, bsrc))
            for st, t in stores:
                verdict = zero_preserving(fn, st, t, bsrc)
                if verdict == "unknown":
                    R.shape(False, "C11.R6", rel, q, "whether '%s' keeps label 0 (background) at 0" % pyfacts.src(st)[:90])
                R.check(verdict == "keeps", "C11.R6", rel, st.lineno, q, pyfacts.src(st)[:100],
                        "the label buffer %s filled by %s is shifted without a 'label > 0' mask: pixels that are not above the threshold "
                        "(label 0) receive a peak label" % (bsrc, name))
    R.floor("C11.R6", 3)


def r7(R):
    """A label buffer kept on the object (self.blim) still holds the previous frame's labels when a call returns without filling
    it: every normal exit of a function that hands such a buffer to a labelling kernel passes through a kernel call on that buffer or
    a whole-buffer zero fill.  Must-pass-through on the statement flow graph of the function."""
    R.rule("C11.R7", "a label image kept on the object is (re)written on every path of the function that labels a frame: no normal exit "
                     "is reachable without a labelling-kernel call on that buffer or a whole-buffer zero fill (else pixels that are not "
                     "above the threshold keep the labels of an earlier frame)")
    nsite = 0
    for rel in ("ImageD11/sparseframe.py", "ImageD11/labelimage.py"):
        m = pyfacts.module(R, rel)
        byfn = {}
        for name, call in pyfacts.kernel_calls(m.tree, names=set(LABEL_ARG)):
            fn = m.enclosing_function(call)
            if fn is None or len(call.args) <= LABEL_ARG[name]:
                continue
            bsrc = rootsrc(fn, call.args[LABEL_ARG[name]])
            if not bsrc.startswith("self."):
                continue          # a buffer made in this call has no history
            byfn.setdefault((id(fn), bsrc), [fn, bsrc, []])[2].append((name, call))
        for fn0, bsrc, calls0 in byfn.values():
            q = m.qualname(fn0)
            fn = m.ifunc(q)               # same-file helpers (an extracted 'allocate the outputs' method) read in place
            calls = [(name, c) for name, c in pyfacts.kernel_calls(fn, names=set(LABEL_ARG))
                     if len(c.args) > LABEL_ARG[name] and rootsrc(fn, c.args[LABEL_ARG[name]]) == bsrc]
            R.shape(len(calls) >= 1, "C11.R7", rel, q, "the labelling-kernel call on %s with helpers read in place" % bsrc)
            cfg = pyfacts.PyCFG(fn)
            fills = set()
            for name, call in calls:
                n = cfg.node_of(call)
                R.shape(n is not None, "C11.R7", rel, q, "the statement of the %s call in the flow graph" % name)
                fills.add(n.id)
            for st in ast.walk(fn):
                if pyfacts.zero_fill(st, bsrc):
                    n = cfg.node_of(st)
                    if n is not None:
                        fills.add(n.id)
            g = cfg.g.copy()
            g.remove_nodes_from(fills)
            import networkx as nx
            nsite += 1
            bad = cfg.exit.id in g and nx.has_path(g, cfg.entry.id, cfg.exit.id)
            line, what = calls[0][1].lineno, "fall off the end"
            if bad:
                path = nx.shortest_path(g, cfg.entry.id, cfg.exit.id)
                last = [cfg.nodes[i] for i in path if cfg.nodes[i].k == "stmt" and cfg.nodes[i].node is not None]
                if last:
                    line, what = last[-1].node.lineno, pyfacts.src(last[-1].node)[:80]
            R.check(not bad, "C11.R7", rel, line, q, "exit without labelling %s: %s" % (bsrc, what),
                    "%s returns on a path that neither calls %s on %s nor zero-fills it: the buffer keeps the labels an earlier frame left "
                    "there, so pixels that are not above the threshold carry a non-zero label and the count disagrees with the labels used"
                    % (q, "/".join(sorted(set(n_ for n_, _ in calls))), bsrc),
                    desc="%s:%s every normal exit passes a kernel call or zero fill of %s" % (rel, q, bsrc))
    R.floor("C11.R7", 1)


def positive_test(e, bsrc):
    """e is 'L > 0' / 'L != 0' / 'L >= 1' with L rooted at the label buffer -> True; its negation -> False; else None"""
    neg = False
    while isinstance(e, ast.UnaryOp) and isinstance(e.op, (ast.Not, ast.Invert)):
        e, neg = e.operand, not neg
    if not (isinstance(e, ast.Compare) and len(e.ops) == 1):
        return None
    l, op, r = e.left, e.ops[0], e.comparators[0]
    if pyfacts.const_int(l) is not None and pyfacts.const_int(r) is None:
        mirror = {ast.Gt: ast.Lt, ast.Lt: ast.Gt, ast.GtE: ast.LtE, ast.LtE: ast.GtE, ast.Eq: ast.Eq, ast.NotEq: ast.NotEq}
        if type(op) not in mirror:
            return None
        l, op, r = r, mirror[type(op)](), l
    if rootsrc(FN[0], l) != bsrc:
        return None
    v = pyfacts.const_int(r)
    if v is None:
        return None
    if neg:
        inv = {ast.Gt: ast.LtE, ast.LtE: ast.Gt, ast.GtE: ast.Lt, ast.Lt: ast.GtE, ast.Eq: ast.NotEq, ast.NotEq: ast.Eq}
        if type(op) not in inv:
            return None
        op = inv[type(op)]()
    if (isinstance(op, (ast.Gt, ast.NotEq)) and v == 0) or (isinstance(op, ast.GtE) and v == 1):
        return True
    if (isinstance(op, (ast.LtE, ast.Eq)) and v == 0) or (isinstance(op, ast.Lt) and v == 1):
        return False
    return None


def zero_preserving(fn, st, t, bsrc):
    def is_zero(e):
        return pyfacts.const_int(e) == 0
    # masked target  L[...][L > 0] op= k   /   L[mask] with mask = (L > 0)
    if isinstance(t, ast.Subscript):
        sl = pyfacts.resolved(fn, t.slice)
        if positive_test(sl, bsrc) is True:
            return "keeps"
    # an assert (L > 0).all() earlier in the same block: nothing is background here
    par = getattr(st, "_parent", None)
    body = None
    for f_ in ("body", "orelse", "finalbody"):
        if par is not None and st in getattr(par, f_, []):
            body = getattr(par, f_)
    for prev in (body[:body.index(st)] if body else []):
        if isinstance(prev, ast.Assert) and isinstance(prev.test, ast.Call) and isinstance(prev.test.func, ast.Attribute) and prev.test.func.attr == "all" \
                and positive_test(prev.test.func.value, bsrc) is True:
            return "keeps"
    if isinstance(st, ast.AugAssign):
        if isinstance(st.op, (ast.Mult, ast.FloorDiv, ast.BitAnd, ast.LShift, ast.RShift)):
            return "keeps"
        if isinstance(st.op, (ast.Add, ast.Sub, ast.BitOr, ast.BitXor)):
            return "keeps" if is_zero(st.value) else "shifts"
        return "unknown"
    v = pyfacts.resolved(fn, st.value)
    if isinstance(v, ast.Call) and (pyfacts.dotted(v.func) or "").split(".")[-1] == "where" and len(v.args) == 3:
        pt = positive_test(v.args[0], bsrc)
        if pt is True and is_zero(v.args[2]):
            return "keeps"
        if pt is False and is_zero(v.args[1]):
            return "keeps"
        if pt is not None:
            return "shifts"
        return "unknown"
    if isinstance(v, ast.BinOp) and isinstance(v.op, (ast.Add, ast.Sub)):
        sides = [v.left, v.right]
        roots = [rootsrc(fn, x) == bsrc for x in sides]
        if any(roots):
            other = sides[1] if roots[0] else sides[0]
            return "keeps" if is_zero(other) else "shifts"
    if isinstance(v, ast.BinOp) and isinstance(v.op, ast.Mult):
        for x in (v.left, v.right):
            if rootsrc(fn, x) == bsrc:
                return "keeps"
    if is_zero(v):
        return "keeps"
    return "unknown"
