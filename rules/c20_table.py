"""Frozen tables of the C20 bounds ledger.  Every entry was confirmed by reading the kernel; one reason each.

DOMAIN      lower bounds of scalar parameters that the property itself grants ("any image shape from 2x2 upwards", "any
            number of peaks or labels including zero") or that an internal function inherits from its only callers (checked
            at every call site by the ledger).
TRUSTED     pointer parameters that address a self-describing heap structure; their accesses are not ledgered here (C11.R2
            checks the disjoint-set protocol, including the growth guard of dset_new).
TABLE       function -> [(reason, [ "<array>|<normalised access text>", ... ])] : accesses that are safe only under a
            documented input precondition or a data-structure invariant.  They are trusted, printed in the evidence, and a
            stale entry (an access that has become provable, or that no longer exists) is reported as a note.
"""

IMAGE = "the property quantifies over image shapes from 2x2 upwards"
COUNT = "numbers of peaks / pixels / vectors are >= 0 (f2py takes them from array shapes or the caller passes a count)"

DOMAIN_BY_NAME = {
    # parameter name -> (lower bound, reason); applies to exported routines whose .pyf uses the name as an image extent
    "ns": (2, IMAGE), "nf": (2, IMAGE), "dim0": (2, IMAGE), "dim1": (2, IMAGE),
    "npx": (1, "flattened image of at least 2x2 pixels"),
    "w": (1, "rgba canvas width >= 1"), "h": (1, "rgba canvas height >= 1"),
    "nhist": (1, "a histogram has at least one bin (nhist = shape(hist, 0); array_histogram clips into [0, nhist-1])"),
}

DOMAIN = {
    # function -> {parameter: (lower bound, reason)} in addition to DOMAIN_BY_NAME
    "neighbormax": {"dim0": (2, "called only from localmaxlabel with its own dim0, dim1 (checked at the call site)"),
                    "dim1": (2, "called only from localmaxlabel with its own dim0, dim1 (checked at the call site)")},
    "bloboverlaps": {"n1": (0, COUNT), "n2": (0, COUNT)},
    "dset_initialise": {"size": (1, "callers pass 16384 or <number of sets> + 3 (checked at the call sites)")},
    "compute_moments": {"nb": (0, COUNT)},
    "blob_moments": {"np": (0, COUNT)},
    "blobproperties": {"npk": (0, COUNT)},
    "sparse_blob2Dproperties": {"npk": (0, COUNT)},
}

DSET = ("disjoint-set array: S[0] is its allocated length and S[S[0]-1] the number of sets in use; both are maintained by "
        "dset_initialise / dset_new (growth guard current + 3 > length checked by C11.R2), every element index handed in is a "
        "set id <= S[S[0]-1] produced by dset_new")
TRUSTED = {
    ("dset_compress", "S"): DSET, ("dset_compress", "pS"): DSET, ("dset_new", "S"): DSET, ("dset_new", "pS"): DSET,
    ("dset_makeunion", "S"): DSET, ("dset_link", "S"): DSET, ("dset_find", "S"): DSET,
}

SORTED = ("precondition 'sorted, duplicate-free (i, j)': the trailing cursor never passes the current pixel k, whose row / "
          "column terminates every scan (C11.R1/R3 check the neighbour tables and the scan guards)")
LABELS = "precondition 'labels lie in [0, npk]' (they are produced by the labelling kernels, C11/C12 check the producers)"
PERM = "precondition of the reorder kernels: the address table is a permutation / lookup into [0, N) built by the caller"
SETIDS = ("T = dset_compress(..) has <number of sets> + 3 cells and every label stored by the first pass is a set id "
          "<= number of sets")

TABLE = {
    "dset_compress": [
        ("the argument is S[S[0]-1] + 3 where S[S[0]-1] is the number of sets in use, >= 0 by the disjoint-set invariant",
         ["(domain)|dset_initialise(...size...)"]),
        (SETIDS + "; i runs over 1..number of sets and j = dset_find(i, S) <= i",
         ["T|T[i]", "T|T[j]"]),
    ],
    "put_incr64": [
        ("documented option boundscheck == 0: the caller promises 0 <= ind[k] < m; the checked branch is GUARDED",
         ["data|data[ind[k]]"]),
    ],
    "put_incr32": [
        ("documented option boundscheck == 0: the caller promises 0 <= ind[k] < m; the checked branch is GUARDED",
         ["data|data[ind[k]]"]),
    ],
    "cluster1d": [
        ("precondition: order is an argsort of ar, i.e. a permutation of 0..n-1",
         ["ar|ar[order[0]]", "ar|ar[order[i]]", "ar|ar[order[i-1]]"]),
        ("ids[] are written by this loop: ids[0] = 0 and ids[i] is ids[i-1] or ids[i-1] + 1, hence 0 <= ids[i] <= i < n",
         ["avgs|avgs[ids[i-1]]", "avgs|avgs[ids[i]]"]),
    ],
    "connectedpixels": [
        (SETIDS, ["T|T[k]"]),
    ],
    "bloboverlaps": [
        (LABELS + ": p2 = b2[..] in [1, n2] and p1 = b1[..] in [1, n1], so p2 and p1 + n2 + 1 index link",
         ["link|link[p2]", "link|link[(p1+n2)+1]", "T|T[p2]"]),
        ("j = dset_find(i, link) is a set id in [1, n2] here (assert j < i); T has n2 + 3 cells",
         ["T|T[j]"]),
        ("link[i], T[i] are set ids in [1, n2] for i in [1, n2]; results2 has at least n2 rows of NPROPERTY (assumed-size "
         "'results2(:, NPROPERTY)' in the .pyf: the caller passes npk2 <= rows)",
         ["res2|res2[(36*(link[i]-1))+j]", "res2|res2[(36*(T[i]-1))+j]", "res2|res2[(36*T[i])+1]"]),
        ("jpk / ipk are peak indices derived from set ids, range-checked by boundscheck(jpk, n, ipk, n) just before; "
         "results1 / results2 are assumed-size in the .pyf with at least npk1 / npk2 rows of NPROPERTY",
         ["res2|merge(&res2[36*jpk])needs22cells(b1[21])", "res1|merge(&res1[36*ipk])needs36cells(b2[i])",
          "res1|merge(&res1[36*jpk])needs22cells(b1[21])", "res2|merge(&res2[36*ipk])needs36cells(b2[i])"]),
    ],
    "reorder_u16_a32": [(PERM, ["out|out[adr[i]]"])],
    "reorder_f32_a32": [(PERM, ["out|out[adr[i]]"])],
    "reorderlut_u16_a32": [(PERM, ["data|data[lut[i]]"])],
    "reorderlut_f32_a32": [(PERM, ["data|data[lut[i]]"])],
    "reorder_u16_a32_a16": [
        (PERM + " (row start a0[i] plus running sum of the 16-bit differences a1)", ["out|out[p]"]),
    ],
    "localmaxlabel": [
        ("thread partition lo = N*tid/nt, hi = N*(tid+1)/nt with 0 <= tid < nt (OpenMP) and N = dim0*dim1: 0 <= lo <= i < hi <= N "
         "(C13.R1 checks the partition shape)",
         ["l|l[i]", "lout|lout[i]"]),
        ("l[] holds the direction codes 0..9 written by neighbormax (pick() constants); o[] has 10 cells",
         ["o|o[l[i]]", "o|o[l[q]]"]),
        ("the walk q += o[l[q]] moves to a neighbour that is strictly higher; border pixels have l == 0 (zeroed by neighbormax, "
         "coverage checked by C13.R3) so the walk stops inside the image",
         ["l|l[q]", "lout|lout[q]"]),
    ],
    "mask_to_coo": [
        ("idx starts at the prefix sum nrow[mi-1] and is incremented once per set mask pixel of row mi; the total was checked "
         "equal to nnz ('if (nrow[ns-1] != nnz) return 4') before filling",
         ["i|i[idx]", "j|j[idx]"]),
    ],
    "sparse_connectedpixels": [
        (SORTED, ["i|i[pp]", "j|j[pp]", "j|j[p]", "i|i[p]", "labels|labels[p]"]),
        (SETIDS, ["T|T[labels[k]]"]),
    ],
    "sparse_connectedpixels_splat": [
        ("precondition stated at the parameter ('workspace, at least (imax+2)*(jmax+2)'): i[k] <= imax and j[k] <= jmax; Z is the "
         "padded scratch image declared in the .pyf as 4 + 2*ni + 2*nj + ni*nj = (ni+2)*(nj+2) cells, so p = (i+1)*(jmax+2) + (j+1) and "
         "its 3x3 neighbourhood lie inside",
         ["Z|Z[p]", "Z|Z[p-1]", "Z|Z[(p-jdim)-1]", "Z|Z[p-jdim]", "Z|Z[(p-jdim)+1]", "Z|Z[pp]", "Z|dset_new(&Z[p])needs1cells(*v)"]),
        (SETIDS, ["T|T[Z[p]]"]),
    ],
    "sparse_blob2Dproperties": [
        (LABELS + ": kpk = (labels[k]-1)*NPROPERTY2D with labels[k] >= 1 after the background test; a label above npk is "
         "reported by printf but not skipped (observation)",
         ["res|res[kpk+%d]" % n for n in range(11)]),
    ],
    "sparse_smooth": [
        (SORTED + "; the inner scan also stops at p == nnz", ["i|i[prow]", "i|i[p]", "j|j[p]", "v|v[p]"]),
    ],
    "sparse_localmaxlabel": [
        (SORTED, ["i|i[pp]", "j|j[pp]", "j|j[p]", "i|i[p]", "v|v[p]", "MV|MV[p]"]),
        ("iMV[] holds pixel indices in [0, nnz) written by the main loop (k or an earlier neighbour p); the uphill walk "
         "p = iMV[p] ends at a fixed point",
         ["iMV|iMV[p]", "labels|labels[p]"]),
    ],
    "sparse_overlaps": [
        ("nhit is incremented only together with p1 and p2, which the loop condition keeps below nnz1 and nnz2: nhit <= min(p1, p2) "
         "(C14.R3 checks the merge discipline)",
         ["k1|k1[nhit]", "k2|k2[nhit]"]),
    ],
    "compress_duplicates": [
        ("precondition checked by the Python callers (C14.R4): every label in i[], j[] is in [0, nt) - 'assert(vmax < nt)' is "
         "compiled out with NDEBUG; tmp[] then holds prefix sums <= n",
         ["tmp|tmp[k]", "tmp|tmp[j[k]]", "oi|oi[tmp[j[k]]]", "oj|oj[tmp[j[k]]]", "tmp|tmp[i[k]]", "tmp|tmp[oi[k]]",
          "j|j[tmp[oi[k]]]", "i|i[tmp[oi[k]]]"]),
    ],
    "coverlaps": [
        (LABELS + " (labels1 in [1, npk1], labels2 in [1, npk2] on shared pixels)",
         ["mat|mat[(((labels1[i1]-1)*npk2)+labels2[i2])-1]"]),
        ("results is assumed-size ('dimension(*)') in the .pyf: the caller provides 3 cells per non-zero entry of mat, at most "
         "3*npk1*npk2; npk counts those entries",
         ["results|results[npk*3]", "results|results[(npk*3)+1]", "results|results[(npk*3)+2]"]),
    ],
    "tosparse_u32": [
        ("row, col, val are assumed-size ('dimension(*)') in the .pyf: the caller sizes them for the masked pixel count; k is "
         "incremented at most once per pixel (the same counter is PROVEN in tosparse_u16 / tosparse_f32 where the extents are declared)",
         ["row|row[k]", "col|col[k]", "val|val[k]"]),
    ],
}


def flat_table():
    out = {}
    for fn, groups in TABLE.items():
        for reason, keys in groups:
            for k in keys:
                out["%s|%s" % (fn, k)] = reason
    return out


def domains(funcs):
    """function name -> {param: lower bound} for the given cfront functions"""
    out = {}
    why = {}
    for f in funcs:
        d = {}
        for p in f.params:
            if p.name in DOMAIN_BY_NAME and "*" not in (p.ty or "") and "[" not in (p.ty or ""):
                d[p.name] = DOMAIN_BY_NAME[p.name][0]
                why[(f.name, p.name)] = DOMAIN_BY_NAME[p.name][1]
        for pn, (lb, reason) in DOMAIN.get(f.name, {}).items():
            d[pn] = lb
            why[(f.name, pn)] = reason
        out[f.name] = d
    return out, why
