"""C12  Peak properties and frame-to-frame merging conserve pixels and intensity.

Decided (necessary conditions): R1 accumulator homomorphism - merge() combines exactly the fields add_pixel()
updates with the same operator class (sums by +=, the max-pixel group by > and copied together, bounding box by
max/min), blobproperties seeds exactly the min/max fields with values that are identities for them, and
compute_moments reads only accumulated fields; R2 labelimage's titles, format and output tuple are the same
30-column table and integer columns are typed integer everywhere; R3 hand-over typestate of mergelast/finalise;
R4 bloboverlaps: the three link cases are the only users of merge(), are exhaustive and disjoint, surviving rows
are MOVED by plain copy (merge into an emptied row is not a move), and the relabel pass follows the merge loop.
Not decided: one-to-one correspondence with 3-D components, centroid arithmetic.
"""
import ast
import re

from engine import cfront, crules, pyfacts
from engine.poly import Poly
from engine.cfront import estr, estr_top, ewalk, swalk
from engine.pyfacts import src

PID = "C12"
BL = "src/blobs.c"
CP = "src/connectedpixels.c"
LI = "ImageD11/labelimage.py"
CF = "ImageD11/columnfile.py"

ROLES = [("sc", "s_cen"), ("fc", "f_cen"), ("omega", "o_raw"), ("Number_of_pixels", "s_1"), ("avg_intensity", "avg_i"), ("s_raw", "s_raw"),
         ("f_raw", "f_raw"), ("sigs", "m_ss"), ("sigf", "m_ff"), ("covsf", "m_sf"), ("sigo", "m_oo"), ("covso", "m_so"), ("covfo", "m_fo"),
         ("sum_intensity", "s_I"), ("sum_intensity^2", "s_I2"), ("IMax_int", "mx_I"), ("IMax_s", "mx_I_s"), ("IMax_f", "mx_I_f"), ("IMax_o", "mx_I_o"),
         ("Min_s", "bb_mn_s"), ("Max_s", "bb_mx_s"), ("Min_f", "bb_mn_f"), ("Max_f", "bb_mx_f"), ("Min_o", "bb_mn_o"), ("Max_o", "bb_mx_o"),
         ("dety", "dety"), ("detz", "detz"), ("onfirst", "self.onfirst"), ("onlast", "self.onlast"), ("spot3d_id", "self.spot3d_id")]
INT_TITLES = {"Number_of_pixels", "IMax_s", "IMax_f", "Min_s", "Max_s", "Min_f", "Max_f", "onfirst", "onlast", "spot3d_id"}


def run(R):
    tus = cfront.load(R.root, files=["blobs.c", "connectedpixels.c"])
    if R.want("C12.R1"):
        r1(R, tus)
    if R.want("C12.R2"):
        r2(R)
    if R.want("C12.R3"):
        r3(R)
    if R.want("C12.R4"):
        r4(R, tus)
    if R.want("C12.R6"):
        r6(R)
    if R.want("C12.R5"):
        # one 2D blob per connected component is the premise of "exactly one output peak per component": the dense labeller's
        # neighbour table (every already-visited neighbour linked, unconditionally, in every border region).  Shared with C11.R1.
        from engine import report
        from rules import c11
        tus11 = cfront.load(R.root, files=["connectedpixels.c", "sparse_image.c", "blobs.c"])
        c11.r1(report.Alias(R, {"C11.R1": "C12.R5"}), tus11)


def field_of(e, arr):
    """b[F] -> F (enumerator name)"""
    if e.k == "idx" and estr(e.a[0]) == arr and e.a[1].k == "int" and e.a[1].name:
        return e.a[1].name
    return None


def classify(f, dst, src_=None):
    """-> dict field -> ('sum'|'max'|'min'|'maxgroup', detail)"""
    out = {}
    for st in swalk(f.body):
        if st.k == "expr" and st.e.k == "asg":
            e = st.e
            F = field_of(e.a[0], dst)
            if F is None:
                continue
            if e.op == "+=":
                out[F] = ("sum", estr(e.a[1]))
            elif e.op == "=" and e.a[1].k == "cond":
                c = e.a[1].a[0]
                if c.k == "bin" and c.op in (">", "<"):
                    # (x > b[F]) ? x : b[F]
                    keep_self = estr(e.a[1].a[2]) == "%s[%s]" % (dst, estr(e.a[0].a[1])) or field_of(e.a[1].a[2], dst) == F
                    # (x > b[F]) ? x : b[F]  is max,  (x < b[F]) ? x : b[F]  is min (and the mirrored spellings); the field compared
                    # must be the field updated and the value taken must be the value compared
                    if (c.op == ">" and field_of(c.a[1], dst) == F) or (c.op == "<" and field_of(c.a[0], dst) == F):
                        kind = "max"
                    elif (c.op == "<" and field_of(c.a[1], dst) == F) or (c.op == ">" and field_of(c.a[0], dst) == F):
                        kind = "min"
                    else:
                        kind = "?"
                    other = c.a[0] if field_of(c.a[1], dst) == F else c.a[1]
                    if estr(e.a[1].a[1]) != estr(other):
                        kind = "?"
                    out[F] = (kind if keep_self else "?", estr(e.a[1]))
        if st.k == "if" and st.cond.k == "bin" and st.cond.op in (">", "<") and st.els is None:
            # if (x > b[F]) b[F] = x;   is the statement form of  b[F] = (x > b[F]) ? x : b[F]   (same for <, and mirrored)
            c = st.cond
            Fr, Fl = field_of(c.a[1], dst), field_of(c.a[0], dst)
            body = [s2 for s2 in swalk(st.then) if s2.k != "block"]
            if len(body) == 1 and body[0].k == "expr" and body[0].e.k == "asg" and body[0].e.op == "=" and (Fr is None) != (Fl is None):
                F, other = (Fr, c.a[0]) if Fr is not None else (Fl, c.a[1])
                if field_of(body[0].e.a[0], dst) == F and estr(body[0].e.a[1]) == estr(other):
                    bigger = (c.op == ">") == (Fr is not None)
                    out[F] = ("max" if bigger else "min", "(%s ? %s : %s[%s])" % (estr(c), estr(other), dst, F))
                    continue
        if st.k == "if" and st.cond.k == "bin" and st.cond.op == ">":
            F = field_of(st.cond.a[1], dst)
            if F is not None:
                grp = []
                for s2 in swalk(st.then):
                    if s2.k == "expr" and s2.e.k == "asg" and s2.e.op == "=":
                        G = field_of(s2.e.a[0], dst)
                        if G is not None:
                            grp.append(G)
                for G in grp:
                    out[G] = ("maxgroup", tuple(sorted(grp)))
    return out


def r1(R, tus):
    R.rule("C12.R1", "merge() combines exactly the fields add_pixel() accumulates, field by field with the same operator class; "
                     "blobproperties seeds min fields above and max fields below every pixel value; compute_moments reads only accumulated fields")
    ap = cfront.find_func(tus, "add_pixel", BL)
    mg0 = cfront.find_func(tus, "merge", BL)
    # a run of fields handled by a loop over consecutive enumerators ( for (i = s_1; i <= s_foI; i++) b1[i] += b2[i]; ) reads field by field
    mg = cfront.unroll_const_loops(mg0, maxiter=30)
    ap = cfront.unroll_const_loops(ap, maxiter=30)
    a = classify(ap, ap.params[0].name)
    m = classify(mg, mg.params[0].name)
    R.shape(len(a) >= 22, "C12.R1", BL, "add_pixel", "the 22 accumulated fields (found %d)" % len(a))
    for F in sorted(set(a) | set(m)):
        ka, km = a.get(F, (None,))[0], m.get(F, (None,))[0]
        R.check(ka == km and ka not in (None, "?"), "C12.R1", BL, mg.line, "merge", "field %s: add_pixel=%s merge=%s" % (F, ka, km),
                "field %s is %s when a pixel is added but %s when two peaks are merged: the merged peak's value is not that of the union of its pixels" % (
                    F, ka or "not updated", km or "not combined"))
    # merge: sums take b2's same field; max group copied from b2 under b2[mx_I] > b1[mx_I]
    b1, b2 = mg.params[0].name, mg.params[1].name
    for F, (kind, detail) in sorted(m.items()):
        if kind == "sum":
            R.check(detail == "%s[%s]" % (b2, _enumval(mg, F)) or detail.endswith("]") and F in _names_in(mg, detail), "C12.R1", BL, mg.line, "merge", "%s[%s] += %s" % (b1, F, detail),
                    "a sum field is combined with a different field of the other peak")
    sums_same = [st.e for st in swalk(mg.body) if st.k == "expr" and st.e.k == "asg" and st.e.op == "+="]
    for e in sums_same:
        Fd, Fs = field_of(e.a[0], b1), field_of(e.a[1], b2)
        R.check(Fd is not None and Fd == Fs, "C12.R1", BL, e.line, "merge", "%s" % estr_top(e), "sum of field %s takes field %s of the merged-away peak" % (Fd, Fs))
    grp = [v[1] for F, v in m.items() if v[0] == "maxgroup"]
    R.check(grp and set(grp[0]) == {"mx_I", "mx_I_f", "mx_I_s", "mx_I_o"} and set(v[1] for F, v in a.items() if v[0] == "maxgroup") == set(grp), "C12.R1", BL, mg.line, "merge",
            "max-pixel group %s moves together" % (list(grp[0]) if grp else None,), "position of the brightest pixel is not carried with its intensity")
    for st in swalk(mg.body):
        if st.k == "if" and field_of(st.cond.a[1], b1) == "mx_I" if (st.k == "if" and st.cond.k == "bin") else False:
            R.check(field_of(st.cond.a[0], b2) == "mx_I" and st.cond.op == ">", "C12.R1", BL, st.line, "merge", "max group taken when %s" % estr(st.cond), "max-pixel comparison changed")
            for s2 in swalk(st.then):
                if s2.k == "expr" and s2.e.k == "asg":
                    R.check(field_of(s2.e.a[0], b1) == field_of(s2.e.a[1], b2), "C12.R1", BL, s2.line, "merge", estr_top(s2.e), "max-pixel field copied from a different field")
    # merged-away peak is emptied
    z = [st for st in swalk(mg0.body) if st.k == "for"]
    ok = False
    for st in swalk(mg0.body):
        # memset(b2, 0, NPROPERTY * sizeof(double)) : all-bits-zero is 0.0
        if st.k == "expr" and st.e.k == "call" and st.e.name == "memset" and len(st.e.a) == 3:
            a0 = st.e.a[0]
            while a0.k == "cast":
                a0 = a0.a[0]
            nbytes = st.e.a[2]
            while nbytes.k == "cast":
                nbytes = nbytes.a[0]
            whole = nbytes.k == "bin" and nbytes.op == "*" and any(x_.k == "int" and x_.name == "NPROPERTY" for x_ in nbytes.a) \
                and any(x_.k == "sizeof" and "double" in (x_.name or "") for y_ in nbytes.a for x_ in ewalk(y_))
            if a0.k == "var" and a0.name == mg0.params[1].name and cfront.is_zero_lit(st.e.a[1]) and whole:
                ok = True
    for lp in z:
        from engine import omp
        h = omp.loop_header(lp)
        body = lp.body.body if lp.body.k == "block" else [lp.body]
        if h and estr(h[1]) == "0" and h[2].k == "int" and h[2].name == "NPROPERTY" and len(body) == 1 and estr_top(body[0].e) in ("%s[%s] = 0" % (b2, h[0]), "%s[%s] = 0.0" % (b2, h[0])):
            ok = True
    R.check(ok, "C12.R1", BL, mg.line, "merge", "merged-away row zeroed over all NPROPERTY fields", "the merged-away peak keeps its sums and would be output again")
    # blobproperties seeds
    bp = cfront.inlined_func(tus, "blobproperties", CP, keep=("add_pixel", "compute_moments", "merge"))   # an 'init one row' helper reads in place
    res = bp.params[-1].name
    seeds = {}
    bpdefs = cfront.scalar_defs(bp)  # row = &res[i * NPROPERTY]; row[F] = ..  reads as res[i * NPROPERTY + F] = ..
    seed_e = {}
    for st in swalk(bp.body):
        if st.k == "expr" and st.e.k == "asg" and st.e.op == "=" and st.e.a[0].k == "idx":
            # a = b = c = v : every target of the chain gets v
            targets, val_ = [], st.e
            while val_.k == "asg" and val_.op == "=":
                targets.append(val_.a[0])
                val_ = val_.a[1]
            while val_.k == "cast":
                val_ = val_.a[0] if not (val_.a[0].k == "asg") else val_.a[0]
                if val_.k == "asg" and val_.op == "=":
                    targets.append(val_.a[0])
                    val_ = val_.a[1]
            for tg in targets:
                lhs = cfront.esubst(tg, bpdefs) if tg.k == "idx" else tg
                if lhs.k != "idx" or estr(lhs.a[0]) != res:
                    continue
                names = [x.name for x in ewalk(lhs.a[1]) if x.k == "int" and x.name and x.name != "NPROPERTY"]
                if names:
                    seeds[names[0]] = estr(val_)
                    seed_e[names[0]] = val_
    mins = sorted(F for F, v in a.items() if v[0] == "min")
    maxs = sorted(F for F, v in a.items() if v[0] == "max")
    ns, nf, om = bp.params[5].name, bp.params[6].name, bp.params[3].name
    want = {"bb_mn_f": ("(%s + 1)" % nf,), "bb_mn_s": ("(%s + 1)" % ns,), "bb_mx_f": ("-1", "-1.0"), "bb_mx_s": ("-1", "-1.0"), "bb_mx_o": (om,), "bb_mn_o": (om,)}
    R.check(sorted(seeds) == sorted(mins + maxs), "C12.R1", CP, bp.line, "blobproperties", "seeded fields %s == min/max fields %s" % (sorted(seeds), sorted(mins + maxs)),
            "a bounding-box field starts at 0 (not an identity for min/max) or a sum field is seeded")
    # a running minimum starts at or above every coordinate it can meet (s < ns, f < nf), a running maximum below every coordinate
    # (>= 0), the omega pair at the frame's omega.  Decided on the linear form of the seed.
    dim = {"bb_mn_f": nf, "bb_mn_s": ns}
    for F, vals in want.items():
        e_ = seed_e.get(F)
        R.shape(e_ is not None, "C12.R1", CP, bp.name, "the seed of %s" % F)
        pl = crules.lin(e_)
        got = seeds.get(F, "").replace("(double)", "").replace("(float)", "")
        if F in dim:
            d_ = (pl - Poly.atom(dim[F])) if pl is not None else None
            R.shape(d_ is not None and (d_.is_const() or got in vals), "C12.R1", CP, bp.name, "the seed %s = %s as %s + constant" % (F, got, dim[F])) if not (
                pl is not None and not d_.is_const() and all(a_ in (ns, nf) for a_ in pl.atoms())) else None
            ok_ = d_ is not None and d_.is_const() and d_.const_value() >= 0
            R.check(ok_, "C12.R1", CP, bp.line, "blobproperties", "seed %s = %s >= %s" % (F, got, dim[F]),
                    "the running minimum of %s starts at %s, which is not above every coordinate it can meet (they go up to %s - 1): for an image "
                    "with %s > %s a blob lying entirely beyond that value keeps the seed as its minimum" % (F, got, dim[F], dim[F], got))
        elif F in ("bb_mx_f", "bb_mx_s"):
            try:
                fv = float(got.strip("()"))
            except ValueError:
                fv = None
            ok_ = (pl is not None and pl.is_const() and pl.const_value() < 0) or (fv is not None and fv < 0)
            R.shape(ok_ or (pl is not None and pl.is_const()) or fv is not None, "C12.R1", CP, bp.name, "the seed %s = %s as a constant" % (F, got))
            R.check(ok_, "C12.R1", CP, bp.line, "blobproperties", "seed %s = %s < 0" % (F, got), "the running maximum of %s does not start below every coordinate" % F)
        else:
            R.check(got in vals, "C12.R1", CP, bp.line, "blobproperties", "seed %s = %s" % (F, got), "the omega bounds of a new blob are not the omega of its frame (expected %s)" % vals[0])
    zero = [lp for lp in swalk(bp.body) if lp.k == "for" and any(estr_top(e) .endswith("= 0.0") for s2 in swalk(lp.body) for e in cfront.stmt_exprs(s2))]
    R.check(bool(zero), "C12.R1", CP, bp.line, "blobproperties", "all NPROPERTY fields zeroed before accumulation", "results are accumulated into uninitialised output")
    # compute_moments reads
    cm = cfront.find_func(tus, "compute_moments", BL)
    b = cm.params[0].name
    reads, writes = set(), set()
    for st, x in cfront.all_exprs(cm.body):
        pass
    cmdefs = {k: v for k, v in cfront.scalar_defs(cm).items() if any(x.k == "var" and x.name == b for x in ewalk(v))}
    # row pointers into the table (p = b; p += NPROPERTY in the loop header, or p = &b[off]): every pointer variable assigned from an
    # expression based on b, or on another such pointer, addresses the same table
    alias = {b}
    grew = True
    while grew:
        grew = False
        for st, x in cfront.all_exprs(cm.body):
            if x.k == "asg" and x.a[0].k == "var" and "*" in (x.a[0].ty or "") and x.a[0].name not in alias:
                bv = cfront.base_var(x.a[1]) if x.op == "=" else None
                if bv is not None and bv.name in alias:
                    alias.add(x.a[0].name)
                    grew = True
        for st in swalk(cm.body):
            if st.k == "decl" and st.var is not None and "*" in (st.var.ty or "") and st.init is not None and st.var.name not in alias:
                bv = cfront.base_var(st.init)
                if bv is not None and bv.name in alias:
                    alias.add(st.var.name)
                    grew = True
    for st in swalk(cm.body):
        for e in cfront.stmt_exprs(st):
            W, Rr = [], []
            cfront.writes_reads(cfront.esubst(e, cmdefs), W, Rr)
            for x in W:
                if x.k == "idx" and estr(x.a[0]) in alias:
                    writes.update(y.name for y in ewalk(x.a[1]) if y.k == "int" and y.name)
            for x in Rr:
                if x.k == "idx" and estr(x.a[0]) in alias:
                    reads.update(y.name for y in ewalk(x.a[1]) if y.k == "int" and y.name)
    acc = set(a)
    bad = sorted((reads - writes) - acc)
    R.check(not bad, "C12.R1", BL, cm.line, "compute_moments", "reads accumulated fields %s" % sorted(reads & acc), "compute_moments reads %s which nobody accumulates" % bad)
    derived = {"avg_i", "f_raw", "s_raw", "o_raw", "m_ss", "m_ff", "m_oo", "m_sf", "m_so", "m_fo"}
    R.check(derived <= writes, "C12.R1", BL, cm.line, "compute_moments", "derived fields written %s" % sorted(writes), "a derived field printed by labelimage is never computed: %s" % sorted(derived - writes))


def _enumval(f, name):
    return str(f.tu.enums.get(name))


def _names_in(f, text):
    return [n for n in f.tu.enums if re.search(r"\b%d\b" % f.tu.enums[n], text)]


# --------------------------------------------------------------------------------------------------
def class_string(cls, name):
    """evaluate 'titles' / 'format' class attribute built by = and += of string literals (with * ints)"""
    val = ""

    def ev(e):
        if isinstance(e, ast.Constant):
            return e.value
        if isinstance(e, ast.BinOp) and isinstance(e.op, ast.Add):
            return ev(e.left) + ev(e.right)
        if isinstance(e, ast.BinOp) and isinstance(e.op, ast.Mult):
            return ev(e.left) * ev(e.right)
        raise ValueError(src(e))
    for s in cls.body:
        if isinstance(s, ast.Assign) and src(s.targets[0]) == name:
            val = ev(s.value)
        elif isinstance(s, ast.AugAssign) and src(s.target) == name:
            val = val + ev(s.value)
    return val


def r2(R):
    R.rule("C12.R2", "labelimage: titles, format and the outputpeaks tuple are one 30-column table; each title prints the blob field of "
                     "its role; integer-valued columns use integer conversions and are in columnfile.INTS")
    m = pyfacts.module(R, LI)
    cls = m.cls("labelimage")
    try:
        titles = class_string(cls, "titles").replace("#", "").split()
        fmt = class_string(cls, "format")
    except ValueError as ex:
        R.fail("C12.R2: cannot evaluate labelimage.titles/format: %s" % ex)
    convs = re.findall(r"%[-+ #0]*\d*(?:\.\d+)?[dfeEgGs]", fmt)
    op = m.func("labelimage.outputpeaks")
    tup = [n for n in ast.walk(op) if isinstance(n, ast.BinOp) and isinstance(n.op, ast.Mod) and src(n.left) == "self.format"]
    R.shape(len(tup) == 1, "C12.R2", LI, "labelimage.outputpeaks", "the self.format % (...) tuple")

    def expand(node, depth=0):
        """the printed values, in order, as source texts: a tuple, tuple(...) / list(...) of one, a sum of them, a name built by
        '=' and '+=' statements, or a comprehension over a class-level tuple of field names"""
        if depth > 4:
            return None
        if isinstance(node, (ast.Tuple, ast.List)):
            return [src(e) for e in node.elts]
        if isinstance(node, ast.Call) and src(node.func) in ("tuple", "list") and len(node.args) == 1:
            return expand(node.args[0], depth + 1)
        if isinstance(node, ast.BinOp) and isinstance(node.op, ast.Add):
            a_, b_ = expand(node.left, depth + 1), expand(node.right, depth + 1)
            return None if a_ is None or b_ is None else a_ + b_
        if isinstance(node, ast.Name):
            parts = []
            for st in ast.walk(op):
                if isinstance(st, ast.Assign) and len(st.targets) == 1 and src(st.targets[0]) == node.id:
                    parts = [expand(st.value, depth + 1)]
                elif isinstance(st, ast.AugAssign) and isinstance(st.op, ast.Add) and src(st.target) == node.id:
                    parts.append(expand(st.value, depth + 1))
            if not parts or any(p_ is None for p_ in parts):
                return None
            return [x for p_ in parts for x in p_]
        if isinstance(node, (ast.ListComp, ast.GeneratorExp)) and len(node.generators) == 1 and not node.generators[0].ifs and isinstance(node.generators[0].target, ast.Name):
            it = node.generators[0].iter
            if isinstance(it, ast.Attribute) and src(it.value) in ("self", "labelimage"):
                seq = [a_.value for a_ in cls.body if isinstance(a_, ast.Assign) and src(a_.targets[0]) == it.attr]
                if len(seq) == 1 and isinstance(seq[0], (ast.Tuple, ast.List)) and all(isinstance(e, ast.Name) for e in seq[0].elts):
                    v = node.generators[0].target.id
                    return [re.sub(r"\b%s\b" % re.escape(v), e.id, src(node.elt)) for e in seq[0].elts]
        return None
    vals = expand(tup[0].right)
    R.shape(vals is not None, "C12.R2", LI, "labelimage.outputpeaks", "the values printed by self.format % (...) as an explicit sequence")
    rowvar = [src(l.target) for l in ast.walk(op) if isinstance(l, ast.For) and any(x is tup[0] for x in ast.walk(l))]
    rowvar = rowvar[-1] if rowvar else "i"
    vals = [re.sub(r"^%s\[" % re.escape(rowvar), "i[", v) for v in vals]
    R.check(len(titles) == len(convs) == len(vals) == len(ROLES), "C12.R2", LI, op.lineno, "labelimage", "columns: %d titles, %d conversions, %d values" % (len(titles), len(convs), len(vals)),
            "titles, format and printed values are not the same number of columns: every later column is shifted")
    cfm = pyfacts.module(R, CF)
    ints = set(ast.literal_eval(cfm.global_assign("INTS")))
    for n, (t, role) in enumerate(ROLES):
        if n >= len(titles) or n >= len(vals) or n >= len(convs):
            break
        R.check(titles[n] == t, "C12.R2", LI, op.lineno, "labelimage", "column %d title %s" % (n, titles[n]), "column %d is titled %s, expected %s" % (n, titles[n], t))
        want = "i[%s]" % role if not role.startswith("self.") else role
        R.check(vals[n] == want, "C12.R2", LI, op.lineno, "labelimage.outputpeaks", "column %s prints %s" % (t, vals[n]), "column '%s' prints %s instead of %s" % (t, vals[n], want))
        c = convs[n]
        if t in INT_TITLES:
            R.check(c.endswith("d") or c.endswith(".0f"), "C12.R2", LI, op.lineno, "labelimage", "integer column %s uses %s" % (t, c), "an integer column is printed with decimals or vice versa")
            R.check(t in ints, "C12.R2", CF, 1, "INTS", "%s in columnfile.INTS" % t, "integer column %s is not typed integer in columnfile (HDF5 would store it as float)" % t)
        else:
            R.check(not (c.endswith("d") or c.endswith(".0f")), "C12.R2", LI, op.lineno, "labelimage", "float column %s uses %s" % (t, c), "a real-valued column is printed as an integer: precision lost")
    R.check(fmt.endswith("\n") and class_string(cls, "titles").endswith("\n"), "C12.R2", LI, op.lineno, "labelimage", "rows and title line newline-terminated", "missing newline")
    skip = False
    for i_ in ast.walk(op):
        if not isinstance(i_, ast.If):
            continue
        cn = pyfacts.cmp_norm(i_.test)
        if cn == ("Lt", "%s[s_1]" % rowvar, "0.1") and any(isinstance(x, ast.Continue) for x in i_.body):
            skip = True          # if row[s_1] < 0.1: continue      ( also  0.1 > row[s_1] )
        if cn == ("LtE", "0.1", "%s[s_1]" % rowvar) and any(x is tup[0] for b_ in i_.body for x in ast.walk(b_)) and not i_.orelse:
            skip = True          # if row[s_1] >= 0.1: <write the row>
    R.check(skip, "C12.R2", LI, op.lineno, "labelimage.outputpeaks", "rows emptied by a merge are skipped", "merged-away (zeroed) rows would be printed as peaks")


# --------------------------------------------------------------------------------------------------
def r3(R):
    R.rule("C12.R3", "mergelast: on every path the two label images are swapped exactly once, lastnp := npk, lastres := res[:npk] or None; "
                     "bloboverlaps only when both counts are positive; closed peaks get blob_moments then outputpeaks; finalise flushes lastres")
    m = pyfacts.module(R, LI)
    fn = m.ifunc("labelimage.mergelast", keep=("outputpeaks",))  # extracted helpers (swap, close-peaks) read as if written here
    cfg = pyfacts.PyCFG(fn)
    swaps = [s for s in ast.walk(fn) if isinstance(s, ast.Assign) and isinstance(s.targets[0], ast.Tuple) and src(s.targets[0]) == "(self.lastbl, self.blim)"]
    # how many swap statements there are is a matter of layout (one per branch, or one at the end); what matters is decided on
    # the flow graph below: every path passes one, and none passes two
    R.shape(len(swaps) >= 1, "C12.R3", LI, "labelimage.mergelast", "a swap  self.lastbl, self.blim = self.blim, self.lastbl")
    R.check(all(src(s.value) == "(self.blim, self.lastbl)" for s in swaps), "C12.R3", LI, fn.lineno, "labelimage.mergelast", "image swap statements: %d" % len(swaps),
            "the current/previous label images are not exchanged")
    # each path to exit passes exactly one swap: swap nodes are on disjoint paths and one of them post-dominates entry-or-branch
    import networkx as nx
    sn = [cfg.node_of(s).id for s in swaps]
    g = cfg.g.copy()
    for n in sn:
        g.remove_node(n)
    R.check(not nx.has_path(g, cfg.entry.id, cfg.exit.id), "C12.R3", LI, fn.lineno, "labelimage.mergelast", "every path to the normal exit passes a swap",
            "a path through mergelast leaves the images unswapped: the next frame is merged against itself")
    twice = [(a_, b_) for a_ in sn for b_ in sn if a_ != b_ and nx.has_path(cfg.g, a_, b_)]
    R.check(not twice, "C12.R3", LI, fn.lineno, "labelimage.mergelast", "no path passes two swaps",
            "a path through mergelast swaps the label images twice, i.e. not at all")
    pass  # (the two-statement form of this test is subsumed by the pairwise path test above)
    for tgt, vals in (("self.lastnp", {"self.npk"}), ("self.lastres", {"self.res", "self.res[:self.npk]", "None"})):
        asg = [s for s in ast.walk(fn) if isinstance(s, ast.Assign) and src(s.targets[0]) == tgt]

        def alts(v):
            return alts(v.body) + alts(v.orelse) if isinstance(v, ast.IfExp) else [src(v)]
        R.check(asg and all(t_ in vals for s in asg for t_ in alts(s.value)), "C12.R3", LI, fn.lineno, "labelimage.mergelast", "%s := %s" % (tgt, sorted(set(src(s.value) for s in asg))),
                "the previous-frame state is not taken from the current frame")
        for s in asg:
            if isinstance(s.value, ast.IfExp) and tgt == "self.lastres":
                cn = pyfacts.cmp_norm(s.value.test)
                R.check((cn == ("Lt", "0", "self.npk") and src(s.value.orelse) == "None") or (cn == ("LtE", "self.npk", "0") and src(s.value.body) == "None"),
                        "C12.R3", LI, s.lineno, "labelimage.mergelast", "lastres is None exactly when the frame has no peaks", "the empty-frame case of lastres changed")
        g2 = cfg.g.copy()
        for s in asg:
            g2.remove_node(cfg.node_of(s).id)
        R.check(not nx.has_path(g2, cfg.entry.id, cfg.exit.id), "C12.R3", LI, fn.lineno, "labelimage.mergelast", "%s assigned on every path" % tgt,
                "%s keeps the value of the frame before last on some path" % tgt)
    ov = [c for c in ast.walk(fn) if isinstance(c, ast.Call) and pyfacts.dotted(c.func) == "cImageD11.bloboverlaps"]
    R.shape(len(ov) == 1, "C12.R3", LI, "labelimage.mergelast", "the bloboverlaps call")
    g_ = set()
    for t, p in cfg.guards(cfg.node_of(pyfacts.containing_stmt(ov[0]))):
        rt = pyfacts.resolved(fn, t, 2, keep=("self",))          # a named test ( havenew = self.npk > 0 ) reads as the test
        for a_ in (rt.values if isinstance(rt, ast.BoolOp) and isinstance(rt.op, ast.And) and p else [rt]):
            g_.add((src(a_).replace(" ", "").strip("()"), p))
    R.check(("self.npk>0", True) in g_ and ("self.lastnp>0", True) in g_, "C12.R3", LI, ov[0].lineno, "labelimage.mergelast",
            "bloboverlaps guarded by both counts > 0", "bloboverlaps is called with an empty frame (results array is None)")
    args = [src(a) for a in ov[0].args]
    R.check(args[:6] == ["self.lastbl", "self.lastnp", "self.lastres", "self.blim", "self.npk", "self.res"], "C12.R3", LI, ov[0].lineno, "labelimage.mergelast",
            "bloboverlaps(previous..., current...)", "previous and current frame arguments are mixed: %s" % args[:6])
    asg = pyfacts.containing_stmt(ov[0])
    R.check(isinstance(asg, ast.Assign) and src(asg.targets[0]) == "self.npk", "C12.R3", LI, ov[0].lineno, "labelimage.mergelast", "self.npk = bloboverlaps(...)",
            "the compacted peak count of the current frame is not kept")
    bm = [c for c in ast.walk(fn) if isinstance(c, ast.Call) and pyfacts.dotted(c.func) == "cImageD11.blob_moments"]
    opk = [c for c in ast.walk(fn) if isinstance(c, ast.Call) and pyfacts.dotted(c.func) == "self.outputpeaks"]
    _rs = lambda e_: pyfacts.resolved_src(fn, e_, 2, keep=("self",)).replace(" ", "")      # 'closed = self.lastres[:self.lastnp]' named once
    R.check(len(bm) == 1 and len(opk) == 1 and bm[0].lineno < opk[0].lineno and _rs(bm[0].args[0]) == _rs(opk[0].args[0]) == "self.lastres[:self.lastnp]"
            and bm[0].lineno > ov[0].lineno, "C12.R3", LI, fn.lineno, "labelimage.mergelast", "closed peaks: blob_moments then outputpeaks on lastres[:lastnp], after the merge",
            "peaks of the previous frame are written before they are merged/finished")
    fin = m.ifunc("labelimage.finalise", keep=("outputpeaks",))
    fcfg = pyfacts.PyCFG(fin)
    bmf = [c for c in ast.walk(fin) if isinstance(c, ast.Call) and pyfacts.dotted(c.func) == "cImageD11.blob_moments" and [src(a_) for a_ in c.args] == ["self.lastres"]]
    opf = [c for c in ast.walk(fin) if isinstance(c, ast.Call) and pyfacts.dotted(c.func) == "self.outputpeaks" and [src(a_) for a_ in c.args] == ["self.lastres"]]
    onl = [a_ for a_ in ast.walk(fin) if isinstance(a_, ast.Assign) and src(a_.targets[0]) == "self.onlast" and src(a_.value) == "1"]
    okf = len(bmf) == 1 and len(opf) == 1 and len(onl) == 1
    if okf:
        nb, no, nl = fcfg.node_of(pyfacts.containing_stmt(bmf[0])), fcfg.node_of(pyfacts.containing_stmt(opf[0])), fcfg.node_of(onl[0])
        okf = fcfg.dominates(nb, no) and fcfg.dominates(nl, no)
        # written exactly when there is something to write: every path with lastres not None reaches the two calls
        gs = [pyfacts.cmp_norm(t_) + (pol,) for t_, pol in fcfg.guards(no) if pyfacts.cmp_norm(t_) is not None]
        okf = okf and all((g_[0] == "IsNot" and g_[1:3] == ("self.lastres", "None") and g_[3]) or (g_[0] == "Is" and g_[1:3] == ("self.lastres", "None") and not g_[3]) for g_ in gs)
    R.check(okf, "C12.R3", LI, fin.lineno,
            "labelimage.finalise", "finalise flushes the last frame's peaks", "the peaks of the last frame are never written")


# --------------------------------------------------------------------------------------------------
def r4(R, tus):
    R.rule("C12.R4", "bloboverlaps: exactly three merge() call sites (res2<-res1 across frames, res1<-res1, res2<-res2), each under its own "
                     "disjoint case test; surviving rows are moved by a full-row copy-then-zero; relabelling follows; link table sized n1+n2+3")
    f = cfront.inlined_func(tus, "bloboverlaps", CP, keep=("merge", "dset_initialise", "dset_new", "dset_makeunion", "dset_find", "dset_compress", "dset_link"))
    pn = [p.name for p in f.params]
    b1, n1, res1, b2, n2, res2 = pn[0], pn[1], pn[2], pn[3], pn[4], pn[5]
    calls = [(st, x) for st, x in cfront.all_exprs(f.body) if x.k == "call" and x.name == "merge"]
    pairs = []
    for st, x in calls:
        d = cfront.base_var(x.a[0].a[0] if x.a[0].k == "un" else x.a[0])
        s_ = cfront.base_var(x.a[1].a[0] if x.a[1].k == "un" else x.a[1])
        pairs.append((d.name if d else None, s_.name if s_ else None, x.line))
    want = sorted([(res2, res1), (res1, res1), (res2, res2)])
    R.check(sorted((a, b) for a, b, l in pairs) == want, "C12.R4", CP, f.line, "bloboverlaps", "merge() call sites (dest <- source): %s" % [(a, b) for a, b, l in pairs],
            "merge() is used outside the three link cases (or one is missing): merging into a row that was emptied is not a move - a zeroed row is "
            "not the identity of the min/max bounding-box fields")
    cfg = f.cfg
    guards = []
    for st, x in calls:
        node = [n for n in cfg.nodes if n.e is not None and any(y is x for y in ewalk(n.e))]
        if node:
            guards.append(sorted(g for g in crules.guard_set(cfg, node[0].id) if n2 in g[1] + g[2] and ("i" in (g[1], g[2]) or "j" in (g[1], g[2]))))
    R.check(len(guards) == 3 and len(set(map(tuple, guards))) == 3, "C12.R4", CP, f.line, "bloboverlaps", "three distinct case guards %s" % guards, "two link cases overlap")
    # rows moved by copy
    moved = False
    for lp in swalk(f.body):
        if lp.k != "for":
            continue
        from engine import omp
        h = omp.loop_header(lp)
        if not h or h[2].k != "int" or h[2].name != "NPROPERTY":
            continue
        body = lp.body.body if lp.body.k == "block" else [lp.body]
        ex = [s.e for s in body if s.k == "expr"]
        outer = [o for o in swalk(f.body) if o.k == "for" and o is not lp and any(x_ is lp for x_ in swalk(o.body))]
        ldefs = cfront.scalar_defs(f, within=outer[-1]) if outer else {}      # dest = T[i]; src = link[i];  read through
        rs_ = lambda e_: estr(cfront.esubst(e_, ldefs))
        if len(ex) == 2 and ex[0].k == "asg" and ex[0].op == "=" and ex[1].k == "asg" and estr(ex[1].a[1]) in ("0", "0.0") and rs_(ex[0].a[1]) == rs_(ex[1].a[0]) \
                and cfront.base_var(ex[0].a[0]).name == res2 and "T[i]" in rs_(ex[0].a[0]) and "link[i]" in rs_(ex[0].a[1]):
            moved = True
    R.check(moved, "C12.R4", CP, f.line, "bloboverlaps", "compaction: res2[T[i]-1][:] = res2[link[i]-1][:]; source zeroed, over all NPROPERTY fields",
            "surviving peaks are not moved to their compacted slot by a plain full-row copy")
    ml = [s for s in swalk(f.body) if s.k == "expr" and s.e.k == "asg" and s.e.a[1].k == "cast" and any(x.k == "call" and x.name == "malloc" for x in ewalk(s.e))]
    need = [x for st, x in cfront.all_exprs(f.body) if x.k == "asg" and estr(x.a[0]) == "safelyneed"]
    R.check(len(need) == 1 and estr(need[0].a[1]) == "((%s + %s) + 3)" % (n1, n2), "C12.R4", CP, f.line, "bloboverlaps", "link table length n1 + n2 + 3", "disjoint-set table size changed: %s" % [estr(x.a[1]) for x in need])
    # relabel loop writes b2 through T and comes after the compaction
    rel = [x for st, x in cfront.all_exprs(f.body) if x.k == "asg" and x.a[0].k == "idx" and estr(x.a[0].a[0]) == b2]
    # the stored value is T[<the label that was in that cell>], whatever the temporaries are called (helpers are read in place and
    # their locals renamed)
    okrel = False
    if len(rel) == 1:
        asgs = [x for st, x in cfront.all_exprs(f.body) if x.k == "asg" and x.op == "=" and x.a[0].k == "var"]
        val = rel[0].a[1]
        while val.k == "cast":
            val = val.a[0]
        if val.k == "var":
            vdef = sorted([x for x in asgs if x.a[0].name == val.name and (x.line or 0) <= (rel[0].line or 0)], key=lambda x: x.line or 0)
            val = vdef[-1].a[1] if vdef else val        # the assignment just before the store (same block: ipk = T[p2]; if (ipk != p2) b2[..] = ipk)
            while val.k == "cast":
                val = val.a[0]
        if val.k == "idx" and val.a[0].k == "var":
            tname = val.a[0].name
            ix = val.a[1]
            while ix.k == "cast":
                ix = ix.a[0]
            from_b2 = ix.k == "idx" and estr(ix.a[0]) == b2
            if ix.k == "var":
                from_b2 = any(x.a[0].name == ix.name and any(y.k == "idx" and estr(y.a[0]) == b2 for y in ewalk(x.a[1])) for x in asgs)
            # T is the table the compaction loop filled
            okrel = from_b2 and any(x.k == "asg" and x.a[0].k == "idx" and estr(x.a[0].a[0]) == tname for st, x in cfront.all_exprs(f.body))
    R.check(okrel, "C12.R4", CP, f.line, "bloboverlaps",
            "current-frame labels rewritten through T", "labels of the current frame are not updated after peaks were joined through the previous frame")
    rets = [n for n in cfg.nodes if n.k == "return" and n.id in cfg.reachable()]
    final = [n for n in rets if n.e is not None and estr(n.e) == "npk"]
    R.check(len(final) == 1, "C12.R4", CP, f.line, "bloboverlaps", "returns the compacted count npk", "returned count is not the number of surviving peaks")
    # offsets of the two images in the link table
    mk = [x for st, x in cfront.all_exprs(f.body) if x.k == "call" and x.name == "dset_makeunion"]
    R.shape(len(mk) >= 1, "C12.R4", CP, "bloboverlaps", "the dset_makeunion(link, <label of frame 2>, <label of frame 1> + n2 + 1) call")
    R.check(len(mk) == 1 and [estr(a) for a in mk[0].a] == ["link", "p2", "((p1 + %s) + 1)" % n2], "C12.R4", CP, f.line, "bloboverlaps", "union(link, p2, p1 + n2 + 1)",
            "label spaces of the two frames overlap in the disjoint set")


# --------------------------------------------------------------------------------------------------
def r6(R):
    """frame-to-frame merging pairs the labels of the current frame with those of 'the previous frame' kept in the labelimage object
    (lastbl / lastres, swapped by mergelast).  That is the adjacent frame only if every labelimage object (one per threshold) is given
    every frame: peaksearcher.peaksearch runs labelim.peaksearch(...) and labelim.mergelast() for each threshold of each frame, on
    every path, and never leaves the loop over the thresholds early."""
    PS = "ImageD11/peaksearcher.py"
    R.rule("C12.R6", "peaksearcher.peaksearch: for every threshold of every frame, labims[threshold].peaksearch(...) and then .mergelast() run "
                     "on every path; the loop over the thresholds has no break / return / continue that skips a label image (a skipped frame "
                     "makes the next one merge with a frame that is not adjacent)")
    m = pyfacts.module(R, PS)
    fn = m.ifunc("peaksearch", depth=1)
    loops = []
    for l in ast.walk(fn):
        if isinstance(l, ast.For) and any(isinstance(c, ast.Call) and isinstance(c.func, ast.Attribute) and c.func.attr == "mergelast" for c in ast.walk(l)):
            loops.append(l)
    loops = [l for l in loops if not any(l2 is not l and any(x is l2 for x in ast.walk(l)) for l2 in loops)]
    R.shape(len(loops) == 1, "C12.R6", PS, "peaksearch", "the loop over the thresholds that calls mergelast()")
    loop = loops[0]
    thr = [a.arg for a in fn.args.args]
    R.shape(src(loop.iter) in thr or (isinstance(loop.iter, ast.Call) and src(loop.iter.func) in ("list", "sorted", "tuple") and src(loop.iter.args[0]) in thr),
            "C12.R6", PS, "peaksearch", "a loop over the 'thresholds' argument itself (found %s)" % src(loop.iter)[:50])
    # early exits that belong to this loop

    def exits(stmts, inner):
        out = []
        for st in stmts:
            if isinstance(st, (ast.Break, ast.Continue)) and not inner:
                out.append(st)
            elif isinstance(st, ast.Return):
                out.append(st)
            elif isinstance(st, (ast.For, ast.While)):
                out += exits(st.body, True) + exits(st.orelse, inner)
            elif isinstance(st, ast.If):
                out += exits(st.body, inner) + exits(st.orelse, inner)
            elif isinstance(st, (ast.With,)):
                out += exits(st.body, inner)
            elif isinstance(st, ast.Try):
                out += exits(st.body, inner) + exits(st.orelse, inner) + exits(st.finalbody, inner)
                for h in st.handlers:
                    out += exits(h.body, inner)
        return out
    ex = exits(loop.body, False)
    cfg = pyfacts.PyCFG(fn)
    head = cfg.of[id(loop)]
    calls = {}
    for nm in ("peaksearch", "mergelast"):
        cs = [c for st in loop.body for c in ast.walk(st) if isinstance(c, ast.Call) and isinstance(c.func, ast.Attribute) and c.func.attr == nm]
        R.shape(len(cs) == 1, "C12.R6", PS, "peaksearch", "one call of .%s() in the threshold loop" % nm)
        calls[nm] = cs[0]
    recv = set(pyfacts.resolved_src(fn, c.func.value, 2) for c in calls.values())
    R.check(len(recv) == 1, "C12.R6", PS, calls["mergelast"].lineno, "peaksearch", "peaksearch and mergelast on the same label image (%s)" % sorted(recv),
            "the frame is searched in one label image and merged in another")
    for e in ex:
        kind = type(e).__name__.lower()
        if isinstance(e, ast.Continue):
            # a continue after mergelast is harmless; before it a label image misses its swap
            after = cfg.node_of(e) is not None and cfg.node_of(pyfacts.containing_stmt(calls["mergelast"])) is not None and \
                cfg.dominates(cfg.node_of(pyfacts.containing_stmt(calls["mergelast"])), cfg.node_of(e))
            if after:
                continue
        g = cfg.guards(cfg.node_of(e)) if cfg.node_of(e) is not None else []
        R.check(False, "C12.R6", PS, e.lineno, "peaksearch", "%s in the loop over the thresholds%s" % (kind, (" when " + " and ".join(
            ("%s" if pol else "not (%s)") % src(t) for t, pol in g[-2:])) if g else ""),
            "the label images of the remaining thresholds are not given this frame: their 'previous frame' buffers (lastbl / lastres) keep an "
            "older frame, so the next frame is merged with a frame that is not adjacent to it (peaks joined across a gap, and the peaks of "
            "the skipped frame never merged or written at the right time)")
    # both calls on every path of an iteration: removing the call's node must cut every path from the loop head back to itself / out
    import networkx as nx
    for nm, c in calls.items():
        node = cfg.node_of(pyfacts.containing_stmt(c))
        R.shape(node is not None, "C12.R6", PS, "peaksearch", "the statement of the .%s() call" % nm)
        h = cfg.g.copy()
        h.remove_node(node.id)
        body_entry = [s_ for s_ in cfg.g.successors(head.id) if cfg.of.get(id(loop.body[0])) is not None and
                      (s_ == cfg.of[id(loop.body[0])].id or s_ in nx.ancestors(cfg.g, node.id))]
        skip = any(s_ in h and head.id in nx.descendants(h, s_) | {s_} for s_ in body_entry if s_ != node.id) and not any(
            isinstance(e, (ast.Break, ast.Return)) for e in ex)
        # paths through raise are not normal completion of the iteration
        R.check(not skip, "C12.R6", PS, c.lineno, "peaksearch", ".%s() on every path of an iteration" % nm,
                "an iteration can complete without calling %s: that label image does not see this frame" % nm)
    pn, mn = [cfg.node_of(pyfacts.containing_stmt(calls[k])) for k in ("peaksearch", "mergelast")]
    R.check(cfg.dominates(pn, mn), "C12.R6", PS, calls["mergelast"].lineno, "peaksearch", "peaksearch before mergelast",
            "mergelast() runs before the frame has been searched")
