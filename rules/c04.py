"""C04  UBI, UB, U, B, metric tensor and cell parameters are mutually consistent.

Decided: R1 cache discipline of grain (typestate: ubi only assigned in set_ubi which clears every cache; cached
properties hand out copies; nobody writes <grain>.ubi from outside; kernels that overwrite their first argument
never get a grain's ubi); R2 the five copies of the Busing-Levy B formula have one normal form as a function of
(a,b,c,alpha,beta,gamma); R3 the four cell-from-metric copies agree; R4 the three U copies agree ((B.ubi)^T);
R5 every guvectorize kernel of tensor_map tests its inputs for NaN first and writes NaN on that path.
Not decided: that B is the Cholesky-like factor of the reciprocal metric, rotation round trips, strains.
"""
import ast

import networkx as nx

import numpy as np

from engine import pyfacts, vn, vn_py
from engine.pyfacts import src
from engine.vn_py import sym

PID = "C04"
GRAIN = "ImageD11/grain.py"
UC = "ImageD11/unitcell.py"
IDX = "ImageD11/indexing.py"
TM = "ImageD11/sinograms/tensor_map.py"
PBP = "ImageD11/sinograms/point_by_point.py"


nan_policy = vn_py.no_nan_policy


def run(R):
    R.assume("real arithmetic; 3x3 inverses and SVD factors are uninterpreted functions of their argument's normal form")
    if R.want("C04.R1"):
        r1(R)
    if R.want("C04.R2") or R.want("C04.R3") or R.want("C04.R4"):
        r234(R)
    if R.want("C04.R5"):
        r5(R)
    if R.want("C04.R6"):
        r6(R)
    if R.want("C04.R7"):
        r7(R)
    if R.want("C04.R8"):
        r8(R)
    if R.want("C04.R9"):
        r9(R)
    if R.want("C04.R10"):
        r10(R)


# --------------------------------------------------------------------------------------------------
# words over matrix atoms: a factor is (name, transposed, inverted); products are lists.  cholesky(W) is an atom ("chol", W) with the
# axiom  chol(W) . chol(W)^T == W  (hence chol(W)^-T . chol(W)^-1 == W^-1)
def _w_T(w):
    return [(n_, not t_, i_) for n_, t_, i_ in reversed(w)]


def _w_inv(w):
    return [(n_, t_, not i_) for n_, t_, i_ in reversed(w)]


def _w_reduce(w):
    w = list(w)
    changed = True
    while changed:
        changed = False
        for k in range(len(w) - 1):
            a, b = w[k], w[k + 1]
            if isinstance(a[0], tuple) and a[0][0] == "chol" and a[0] == b[0]:
                arg = list(a[0][1])
                if (a[1], a[2], b[1], b[2]) == (False, False, True, False):       # C C^T = W
                    w[k:k + 2] = arg
                    changed = True
                    break
                if (a[1], a[2], b[1], b[2]) == (True, True, False, True):         # C^-T C^-1 = W^-1
                    w[k:k + 2] = _w_inv(arg)
                    changed = True
                    break
            if a[0] == b[0] and a[1] == b[1] and a[2] != b[2]:                      # X X^-1 = 1
                w[k:k + 2] = []
                changed = True
                break
    return w


def _w_of(fn, e):
    """matrix word of a numpy expression (dot / @, transpose / .T, inv, cholesky over the parameter and locals), or None"""
    e = pyfacts.resolved(fn, e, 4)
    if isinstance(e, ast.Name):
        return [(e.id, False, False)]
    if isinstance(e, ast.Attribute) and e.attr == "T":
        w = _w_of(fn, e.value)
        return None if w is None else _w_T(w)
    if isinstance(e, ast.BinOp) and isinstance(e.op, ast.MatMult):
        a, b = _w_of(fn, e.left), _w_of(fn, e.right)
        return None if a is None or b is None else a + b
    if isinstance(e, ast.Call):
        d = (pyfacts.dotted(e.func) or "").split(".")[-1]
        if isinstance(e.func, ast.Attribute) and e.func.attr in ("dot",) and not (pyfacts.dotted(e.func) or "").startswith(("np.", "numpy.")) and len(e.args) == 1:
            a, b = _w_of(fn, e.func.value), _w_of(fn, e.args[0])
            return None if a is None or b is None else a + b
        if d == "dot" and len(e.args) == 2:
            a, b = _w_of(fn, e.args[0]), _w_of(fn, e.args[1])
            return None if a is None or b is None else a + b
        if d == "transpose" and len(e.args) == 1:
            w = _w_of(fn, e.args[0])
            return None if w is None else _w_T(w)
        if d == "inv" and len(e.args) == 1:
            w = _w_of(fn, e.args[0])
            return None if w is None else _w_inv(w)
        if d == "cholesky" and len(e.args) == 1:
            w = _w_of(fn, e.args[0])
            return None if w is None else [(("chol", tuple(_w_reduce(w))), False, False)]
        if isinstance(e.func, ast.Attribute) and e.func.attr == "transpose" and not e.args:
            w = _w_of(fn, e.func.value)
            return None if w is None else _w_T(w)
    return None


def r8(R):
    """indexing.ubitoB(ubi) is offered as 'the B matrix from ubi'.  B is upper triangular with B^T.B = reciprocal metric tensor
    = inverse(ubi.ubi^T) (that is what unitcell.B, grain.B and unitcell_to_b return, R2).  The function is read as a word over
    ubi, transposes, inverses and a Cholesky factor (axiom chol(W).chol(W)^T == W); B^T.B must reduce to (ubi.ubi^T)^-1."""
    IDX = "ImageD11/indexing.py"
    R.rule("C04.R8", "indexing.ubitoB: with the axiom chol(W).chol(W)^T == W the returned matrix satisfies B^T.B == inverse(ubi.ubi^T), the "
                     "reciprocal metric tensor, like unitcell.B / grain.B (it is a transposed Cholesky factor, hence upper triangular)")
    m = pyfacts.module(R, IDX)
    fn = m.ifunc("ubitoB", depth=2)      # helpers (ubi -> metric tensor ...) read in place
    rets = [r for r in ast.walk(fn) if isinstance(r, ast.Return) and r.value is not None]
    R.shape(len(rets) == 1, "C04.R8", IDX, "ubitoB", "a single return")
    w = _w_of(fn, rets[0].value)
    R.shape(w is not None, "C04.R8", IDX, "ubitoB", "the returned expression as a product of ubi, transposes, inverses and a Cholesky factor (%s)" % src(rets[0].value)[:70])
    p = fn.args.args[0].arg
    btb = _w_reduce(_w_T(w) + w)
    want = _w_reduce(_w_inv([(p, False, False), (p, True, False)]))

    def show(word):
        def f(x):
            n_ = x[0] if not isinstance(x[0], tuple) else "chol(%s)" % ".".join(f(y) for y in x[0][1])
            return n_ + ("^-T" if x[1] and x[2] else "^T" if x[1] else "^-1" if x[2] else "")
        return ".".join(f(x) for x in word) or "1"
    R.check(btb == want, "C04.R8", IDX, rets[0].lineno, "ubitoB", "B^T.B = %s" % show(btb),
            "B^T.B reduces to %s, the reciprocal metric tensor is %s: the matrix returned is the transposed inverse Cholesky factor of the REAL "
            "space metric (B.B^T = reciprocal metric), which equals the Busing-Levy B only for orthogonal cells - for a hexagonal cell its "
            "diagonal is (0.339, 0.391, ..) where unitcell.B / grain.B have (0.391, 0.339, ..), and ubitoU(ubi).ubitoB(ubi) is not inverse(ubi)" % (show(btb), show(want)))
    # upper triangular: the outermost operation is the transpose of a (lower triangular) Cholesky factor, or the inverse of one transposed
    last = w[-1] if w else None
    tri = len(w) == 1 and isinstance(w[0][0], tuple) and w[0][1] is True
    R.check(tri, "C04.R8", IDX, rets[0].lineno, "ubitoB", "B = chol(.)^T or chol(.)^-T (upper triangular)", "the returned matrix is not an upper triangular factor")


# --------------------------------------------------------------------------------------------------
def r9(R):
    """unitcell.__init__ computes g, gi, the reciprocal cell and B once from the lattice parameters it is given and keeps the
    parameters in self.lattice_parameters (re-read later by TensorMap.dzero_unitcell, point_by_point, tostring ...).  The two describe
    the same lattice only while the stored parameters cannot change behind the object's back: they must be a copy of the argument."""
    R.rule("C04.R9", "unitcell.__init__ stores a COPY of the lattice parameters it derives g, gi and B from (np.array(x) / list(x) / x.copy()), "
                     "not the caller's array itself")
    m = pyfacts.module(R, UC)
    fn = m.func("unitcell.__init__")
    p = fn.args.args[1].arg
    st = [a for a in ast.walk(fn) if isinstance(a, ast.Assign) and any(src(t) == "self.lattice_parameters" for t in a.targets)]
    R.shape(len(st) >= 1, "C04.R9", UC, "unitcell.__init__", "the assignment of self.lattice_parameters")
    for a in st:
        v = pyfacts.resolved(fn, a.value, 2, keep=(p, "self"))
        k = pyfacts.copy_kind(v, p)
        if k is None and not any(isinstance(x, ast.Name) and x.id == p for x in ast.walk(v)):
            continue       # derived from something else (a later normalisation of the copy)
        R.shape(k is not None, "C04.R9", UC, "unitcell.__init__", "whether %s copies %s" % (src(a.value)[:50], p))
        R.check(k, "C04.R9", UC, a.lineno, "unitcell.__init__", src(a)[:70],
                "%s may be the caller's own array: when the caller later changes it in place, unitcell.lattice_parameters follows while g, gi "
                "and B (computed once here) do not - one object then describes two lattices, and everything that re-derives B from "
                "lattice_parameters (TensorMap.dzero_unitcell, point_by_point) disagrees with unitcell.B" % src(a.value)[:50])


# --------------------------------------------------------------------------------------------------
def r7(R):
    """numba does not check the layout a guvectorize signature declares: 'float64[:, ::1]' (or [::1]) promises a C-contiguous core
    block and the compiled kernel then reads consecutive memory whatever the real strides are.  The map functions are applied to
    views (point-by-point (3,3,N) stacks moved to (...,3,3), Fortran-ordered arrays, the 3x3 block of 4x4 matrices), so every array
    in a signature must be declared with free strides ([:], [:, :])."""
    R.rule("C04.R7", "tensor_map.py: every array in a numba.guvectorize type signature is declared with free strides (float64[:], "
                     "float64[:, :]) - a contiguous layout ('::1') is not enforced by numba and makes the kernel read the wrong numbers "
                     "for strided views")
    m = pyfacts.module(R, TM)
    n = 0
    for q, fn in sorted(m.funcs.items()):
        for d in fn.decorator_list:
            if not (isinstance(d, ast.Call) and (pyfacts.dotted(d.func) or "").split(".")[-1] in ("guvectorize", "vectorize", "njit", "jit") and d.args):
                continue
            specs = [x for x in ast.walk(d.args[0]) if isinstance(x, ast.Subscript)]
            for sp in specs:
                sl = sp.slice
                dims = list(sl.elts) if isinstance(sl, ast.Tuple) else [sl]
                if not all(isinstance(x, ast.Slice) for x in dims):
                    continue
                n += 1
                fixed = [x for x in dims if x.step is not None]
                R.check(not fixed, "C04.R7", TM, d.lineno, q, "signature array %s" % src(sp),
                        "the signature declares a contiguous layout (step %s): numba takes that on trust, so for an input whose core block is "
                        "strided (a transposed or Fortran-ordered stack, a slice of larger matrices) the kernel reads 9 consecutive doubles "
                        "instead of the 3x3 block - wrong UB / metric tensor / U and NaN masks in the wrong voxels, silently" % src(fixed[0].step) if fixed else "")
    R.floor("C04.R7", 30)


# --------------------------------------------------------------------------------------------------
def r6(R):
    """TensorMap caches the maps it derives from UBI (UB, mt, unitcell, B, U, euler) in self.maps and returns the cached map when the
    name is present.  They describe the same lattice as UBI only if every one of them is deleted when UBI is replaced: the set of
    derived names is computed from the property bodies (a property that stores add_map(<name>, f(...)) where f reads only UBI and other
    derived maps), and compared with the names clear_cache deletes; clear_cache must run in the UBI setter and in add_map('UBI')."""
    R.rule("C04.R6", "TensorMap: every map derived from UBI alone (computed from the property bodies: UB, mt, unitcell, B, U, euler) is "
                     "deleted by clear_cache, and clear_cache runs whenever UBI is replaced (setter, add_map('UBI', ...))")
    m = pyfacts.module(R, TM)
    props = {}
    for q, fn in m.funcs.items():
        if not q.startswith("TensorMap.") or q.count(".") != 1:
            continue
        if not any(src(d) == "property" for d in fn.decorator_list):
            continue
        names = [c.args[0].value for c in ast.walk(fn) if isinstance(c, ast.Call) and src(c.func) == "self.add_map" and c.args
                 and isinstance(c.args[0], ast.Constant)]
        if not names:
            continue
        reads = set()
        for a in ast.walk(fn):
            if isinstance(a, ast.Attribute) and src(a.value) == "self" and isinstance(a.ctx, ast.Load):
                reads.add(a.attr)
            if isinstance(a, ast.Subscript) and src(a.value) == "self.maps" and isinstance(a.slice, ast.Constant):
                reads.add(a.slice.value)
        props[q.split(".")[1]] = (set(names), reads - {"maps", "keys", "add_map", "shape"} - set(names))
    R.shape(len(props) >= 6, "C04.R6", TM, "TensorMap", "the cached properties (found %s)" % sorted(props))
    derived = set()
    changed = True
    while changed:
        changed = False
        for pname, (names, reads) in props.items():
            if pname not in derived and reads and reads <= ({"UBI"} | derived):
                derived.add(pname)
                changed = True
    stored = set(n for pname in derived for n in props[pname][0])
    R.shape({"UB", "mt", "unitcell", "B", "U"} <= stored, "C04.R6", TM, "TensorMap", "the maps derived from UBI alone (found %s)" % sorted(stored))
    cc = m.nfunc("TensorMap.clear_cache")
    deleted = set()
    understood = True
    for l in ast.walk(cc):
        it_ = l.iter if isinstance(l, ast.For) else None
        if isinstance(it_, ast.Name):
            glob = [n_.value for n_ in m.tree.body if isinstance(n_, ast.Assign) and any(isinstance(t_, ast.Name) and t_.id == it_.id for t_ in n_.targets)]
            # a module-level constant that no function rebinds or mutates
            if len(glob) == 1 and it_.id not in pyfacts.module_state(m):
                it_ = glob[0]
        if isinstance(l, ast.For) and isinstance(it_, (ast.Tuple, ast.List, ast.Set)) and all(isinstance(e, ast.Constant) for e in it_.elts):
            tgt = src(l.target)
            dels = [d for d in ast.walk(l) if (isinstance(d, ast.Delete) and any(src(t) == "self.maps[%s]" % tgt for t in d.targets))
                    or (isinstance(d, ast.Call) and src(d.func) == "self.maps.pop" and d.args and src(d.args[0]) == tgt)]
            if dels:
                deleted |= set(e.value for e in it_.elts)
        if isinstance(l, ast.Delete):
            for t in l.targets:
                if isinstance(t, ast.Subscript) and src(t.value) == "self.maps" and isinstance(t.slice, ast.Constant):
                    deleted.add(t.slice.value)
        if isinstance(l, ast.Call) and src(l.func) == "self.maps.pop" and l.args and isinstance(l.args[0], ast.Constant):
            deleted.add(l.args[0].value)
        if isinstance(l, ast.Call) and src(l.func) == "self.maps.clear":
            understood = False
    R.shape(understood and bool(deleted), "C04.R6", TM, "TensorMap.clear_cache", "the names it deletes from self.maps")
    for n in sorted(stored):
        R.check(n in deleted, "C04.R6", TM, cc.lineno, "TensorMap.clear_cache", "'%s' deleted when UBI is replaced" % n,
                "the cached map '%s' is computed from UBI (property %s) and returned from self.maps when present, but clear_cache does not delete it: "
                "after the UBI map is replaced it still describes the old lattice, and everything computed from it (%s) disagrees with UBI" % (
                    n, n, ", ".join(sorted(p_ for p_, (nm, rd) in props.items() if n in rd)) or "nothing else"))
    st = [f for q, f in m.funcs.items() if q == "TensorMap.UBI" or q.startswith("TensorMap.UBI")]
    setters = [f for f in ast.walk(m.cls("TensorMap")) if isinstance(f, ast.FunctionDef) and f.name == "UBI" and any(src(d) == "UBI.setter" for d in f.decorator_list)]
    R.shape(len(setters) == 1, "C04.R6", TM, "TensorMap.UBI", "the UBI setter")
    cfg = pyfacts.PyCFG(setters[0])
    calls = [s_ for s_ in ast.walk(setters[0]) if isinstance(s_, ast.Expr) and isinstance(s_.value, ast.Call) and src(s_.value.func) == "self.clear_cache"]
    ok = any(cfg.postdominates(cfg.node_of(c), cfg.entry) for c in calls)
    R.check(ok, "C04.R6", TM, setters[0].lineno, "TensorMap.UBI.setter", "clear_cache() on every path of the setter",
            "the derived maps are not cleared when UBI is assigned")
    am = m.nfunc("TensorMap.add_map")
    ua = ast.unparse(am)
    calls = [s_ for s_ in ast.walk(am) if isinstance(s_, ast.Expr) and isinstance(s_.value, ast.Call) and src(s_.value.func) == "self.clear_cache"]
    guards_ok = False
    if calls:
        cfa = pyfacts.PyCFG(am)
        g = cfa.guards(cfa.node_of(calls[0]))
        def covers(t, pol):
            t_ = src(t).replace('"', "'")
            if pol and t_ in ("name == 'UBI'", "'UBI' == name"):
                return True
            if pol and isinstance(t, ast.Compare) and len(t.ops) == 1 and isinstance(t.ops[0], ast.In) and src(t.left) == "name" \
                    and isinstance(t.comparators[0], (ast.Tuple, ast.List, ast.Set)) and any(isinstance(e, ast.Constant) and e.value == "UBI" for e in t.comparators[0].elts):
                return True
            return None
        res = [covers(t, pol) for t, pol in g]
        R.shape(all(r is not None for r in res), "C04.R6", TM, "TensorMap.add_map", "the condition under which add_map clears the cache (%s)" % "; ".join(src(t) for t, _ in g))
        guards_ok = True
    R.check(bool(calls) and guards_ok, "C04.R6", TM, am.lineno, "TensorMap.add_map", "clear_cache() when name == 'UBI'",
            "replacing the UBI map through add_map / tm['UBI'] = ... leaves the old derived maps in place")


# --------------------------------------------------------------------------------------------------
TOL_CALLS = ("allclose", "isclose", "array_equiv", "assert_allclose")


def tolerance_test(e):
    """the expression decides by a tolerance: np.allclose / np.isclose / math.isclose with their default (1e-5 / 1e-8 / 1e-9) or literal
    tolerances, or abs(x - c) < literal.  Returns a text, or None"""
    for n_ in ast.walk(e):
        if isinstance(n_, ast.Call) and (pyfacts.dotted(n_.func) or "").split(".")[-1] in TOL_CALLS:
            return src(n_)
        if isinstance(n_, ast.Compare) and len(n_.ops) == 1 and isinstance(n_.ops[0], (ast.Lt, ast.LtE)):
            l, r = n_.left, n_.comparators[0]
            has_abs = any(isinstance(c, ast.Call) and (pyfacts.dotted(c.func) or "").split(".")[-1] in ("abs", "fabs", "absolute") for c in ast.walk(l))
            if has_abs and isinstance(r, ast.Constant) and isinstance(r.value, float) and 0 < r.value < 1:
                return src(n_)
    return None


def r10(R):
    """The cached quantities of a grain (UB, B, U, mt, rmt, unitcell) are functions of ubi alone that must agree with one another and
    with unitcell / indexing to rounding.  A cached value stored under a *tolerance* test (np.allclose(cell[3:], 90) -> diagonal B) is
    the value of a neighbouring lattice for every ubi inside the tolerance that is not exactly the special case, i.e. wrong by up to
    the tolerance (1e-5 relative by default) - far above rounding, and U = (B.ubi)^T is then not orthogonal."""
    R.rule("C04.R10", "grain: no lazily cached quantity (self._UB, _B, _U, _mt, _rmt, _unitcell) is computed by a formula selected by a tolerance "
                      "test (np.allclose / np.isclose / abs(x - c) < eps): a special-case formula is exact only AT the special case")
    m = pyfacts.module(R, GRAIN)
    cls = m.cls("grain")
    n = 0
    for fn in cls.body:
        if not (isinstance(fn, ast.FunctionDef) and any(pyfacts.dotted(d) == "property" for d in fn.decorator_list)):
            continue
        ifn = m.ifunc("grain.%s" % fn.name)
        stores = [a for a in ast.walk(ifn) if isinstance(a, ast.Assign) and isinstance(a.targets[0], ast.Attribute)
                  and src(a.targets[0]) in ("self._UB", "self._B", "self._U", "self._mt", "self._rmt", "self._unitcell")]
        if not stores:
            continue
        cfg = pyfacts.PyCFG(ifn)
        for a in stores:
            nd = cfg.node_of(a)
            if nd is None:
                continue
            n += 1
            tol = []
            for t_, pol in cfg.guards(nd):
                while isinstance(t_, ast.UnaryOp) and isinstance(t_.op, ast.Not):
                    t_, pol = t_.operand, not pol
                tt = tolerance_test(t_)
                if tt is not None and pol:        # the branch taken when the values are 'close'
                    tol.append(tt)
            R.check(not tol, "C04.R10", GRAIN, a.lineno, "grain.%s" % fn.name, "%s = %s" % (src(a.targets[0]), src(a.value)[:60]),
                    "%s is stored from '%s' on a path selected by the tolerance test '%s': for a lattice inside the tolerance but not exactly at "
                    "the special case this is the matrix of a different lattice, so B no longer agrees with unitcell(grain.unitcell).B / "
                    "indexing.ubitoB, U = (B.ubi)^T is not orthogonal and U.B != UB beyond rounding"
                    % (src(a.targets[0]), src(a.value)[:50], (tol or [""])[0][:60]),
                    desc="%s:grain.%s %s is not selected by a tolerance test" % (GRAIN, fn.name, src(a.targets[0])))
    R.floor("C04.R10", 6)


# --------------------------------------------------------------------------------------------------
def r1(R):
    R.rule("C04.R1", "grain caches: every lazily filled self._X is reset by clear_cache; self.ubi is assigned only in set_ubi, which "
                     "clears the caches on every path; cached properties return copies; no outside code writes <obj>.ubi; kernels "
                     "that overwrite their first argument are never handed <obj>.ubi directly")
    m = pyfacts.module(R, GRAIN)
    cls = m.cls("grain")
    methods = {n.name: n for n in cls.body if isinstance(n, ast.FunctionDef)}
    cc = methods.get("clear_cache")
    R.shape(cc is not None, "C04.R1", GRAIN, "grain", "clear_cache")
    cleared, unread = pyfacts.attrs_reset(cc)
    R.shape(not unread, "C04.R1", GRAIN, "grain.clear_cache", "resets of the form self._x = None / setattr(self, <literal names>, None) (unread: %s)" % "; ".join(unread)[:120])
    lazy = {}
    for name, fn in methods.items():
        if not any(pyfacts.dotted(d) == "property" for d in fn.decorator_list):
            continue
        for a in ast.walk(fn):
            if isinstance(a, ast.Assign) and isinstance(a.targets[0], ast.Attribute) and src(a.targets[0]).startswith("self._"):
                lazy[src(a.targets[0])] = (name, a.lineno)
    R.shape(len(lazy) >= 6, "C04.R1", GRAIN, "grain", "the lazily cached properties (found %d)" % len(lazy))
    for attr, (prop, line) in sorted(lazy.items()):
        R.check(attr in cleared, "C04.R1", GRAIN, line, "grain.%s" % prop, "%s reset in clear_cache" % attr,
                "%s is cached by property %s but not reset by clear_cache(): after set_ubi the stale value keeps being returned" % (attr, prop))
        fn = methods[prop]
        rets = [r for r in ast.walk(fn) if isinstance(r, ast.Return) and r.value is not None]
        okc = all((isinstance(r.value, ast.Call) and isinstance(r.value.func, ast.Attribute) and r.value.func.attr == "copy") or attr not in src(r.value)
                  for r in rets)
        if prop in ("ref_unitcell", "orix_orien", "orix_phase"):
            continue   # objects, not arrays
        R.check(okc, "C04.R1", GRAIN, fn.lineno, "grain.%s" % prop, "returns %s" % [src(r.value) for r in rets],
                "the property hands out the cached array itself: a caller modifying the result corrupts the cache")
    # ubi assigned only in set_ubi, followed by clear_cache
    for name, fn in methods.items():
        for a in ast.walk(fn):
            if isinstance(a, (ast.Assign, ast.AugAssign)):
                tg = a.targets if isinstance(a, ast.Assign) else [a.target]
                for t in tg:
                    if src(t) == "self.ubi" or (isinstance(t, ast.Subscript) and src(t.value) == "self.ubi"):
                        R.check(name == "set_ubi", "C04.R1", GRAIN, a.lineno, "grain.%s" % name, "assignment to self.ubi",
                                "self.ubi is changed outside set_ubi: UB, U, B, metric and cell caches are not cleared")
    su = methods.get("set_ubi")
    R.shape(su is not None, "C04.R1", GRAIN, "grain", "set_ubi")
    cfg = pyfacts.PyCFG(su)
    asg = [a for a in ast.walk(su) if isinstance(a, ast.Assign) and src(a.targets[0]) == "self.ubi"]
    clr = [s for s in ast.walk(su) if isinstance(s, ast.Expr) and isinstance(s.value, ast.Call) and pyfacts.dotted(s.value.func) == "self.clear_cache"]
    ok = len(asg) == 1 and len(clr) >= 1 and cfg.postdominates(cfg.node_of(clr[-1]), cfg.node_of(asg[0]))
    R.check(ok, "C04.R1", GRAIN, su.lineno, "grain.set_ubi", "self.clear_cache() post-dominates the assignment of self.ubi",
            "set_ubi can return without clearing the caches")
    R.check(any(isinstance(c, ast.Call) and pyfacts.dotted(c.func) in ("np.array", "numpy.array") for c in ast.walk(asg[0].value)) if asg else False,
            "C04.R1", GRAIN, su.lineno, "grain.set_ubi", "self.ubi = np.array(ubi, float) (own copy)", "the grain aliases the caller's array")
    init = methods["__init__"]
    R.check(any(pyfacts.dotted(c.func) == "self.set_ubi" for c in ast.walk(init) if isinstance(c, ast.Call)), "C04.R1", GRAIN, init.lineno, "grain.__init__",
            "constructor goes through set_ubi", "constructor bypasses set_ubi")
    # who may write <expr>.ubi / <expr>.ubi[...] elsewhere
    OTHER_CLASSES = {"ImageD11/rsv_mapper.py": "rsv_mapper.ubi is an attribute of a different class (not a grain)"}
    for k, v in OTHER_CLASSES.items():
        R.exception("C04.R1", k, v)
    nfiles = 0
    KERNELS_OVERWRITING_ARG0 = ("score_and_refine", "refine_assigned", "quickorient")
    for rel in pyfacts.library_files(R.root, R.tier):
        mm = pyfacts.module(R, rel)
        if ".ubi" not in mm.text:
            continue
        nfiles += 1
        for a in ast.walk(mm.tree):
            tg = []
            if isinstance(a, ast.Assign):
                tg = a.targets
            elif isinstance(a, ast.AugAssign):
                tg = [a.target]
            for t in tg:
                tt = t.value if isinstance(t, ast.Subscript) else t
                if isinstance(tt, ast.Attribute) and tt.attr == "ubi":
                    if rel == GRAIN and src(tt) == "self.ubi":
                        continue
                    if rel in OTHER_CLASSES and src(tt) == "self.ubi":
                        continue
                    fn = mm.enclosing_function(a)
                    R.violation("C04.R1", rel, a.lineno, mm.qualname(fn) if fn else "<module>", "%s = ..." % src(t),
                                "an orientation is written into an object's .ubi from outside grain.set_ubi: a grain's cached "
                                "UB/U/B/metric/cell would go stale")
        for name, c in pyfacts.kernel_calls(mm.tree, names=KERNELS_OVERWRITING_ARG0):
            a0 = c.args[0] if c.args else None
            ok = not (isinstance(a0, ast.Attribute) and a0.attr == "ubi")
            fn = mm.enclosing_function(c)
            R.check(ok, "C04.R1", rel, c.lineno, mm.qualname(fn) if fn else "<module>", "%s(%s, ...)" % (name, src(a0) if a0 is not None else ""),
                    "the kernel overwrites its first argument in place: handing it <obj>.ubi changes a grain behind its caches")
    R.inst("C04.R1", "%d library files mentioning .ubi scanned for outside writers" % nfiles)
    # positive fixture: the rule's matcher does fire on a write
    fx = ast.parse("g.ubi = x\ng.ubi[0] = y\n")
    hits = sum(1 for a in ast.walk(fx) if isinstance(a, ast.Assign) for t in a.targets
               if isinstance(t.value if isinstance(t, ast.Subscript) else t, ast.Attribute))
    if hits != 2:
        R.fail("C04.R1 positive fixture did not match")


# --------------------------------------------------------------------------------------------------
def cell_syms():
    return [sym(x) for x in ("a", "b", "c", "al", "be", "ga")]


def r234(R):
    R.rule("C04.R2", "the Busing-Levy B matrix as a function of (a,b,c,alpha,beta,gamma) has one normal form in unitcell.__init__, "
                     "tensor_map.unitcell_to_b, tensor_map.ubi_and_unitcell_to_eps_sample/_crystal and point_by_point.ubi_and_ucell_to_u")
    R.rule("C04.R3", "cell parameters from the metric tensor ubi.ubi^T agree between grain.unitcell, indexing.ubitocellpars, "
                     "tensor_map.ubi_to_mt+mt_to_unitcell and point_by_point.ubi_to_unitcell")
    R.rule("C04.R4", "U = (B.ubi)^T in grain.U, tensor_map.ubi_and_b_to_u and point_by_point.ubi_and_ucell_to_u")
    mods = {"unitcell": pyfacts.module(R, UC), "tensor_map": pyfacts.module(R, TM), "point_by_point": pyfacts.module(R, PBP),
            "grain": pyfacts.module(R, GRAIN), "indexing": pyfacts.module(R, IDX)}
    vn_py.INV_MODE[0] = "atoms"
    try:
        cell = cell_syms()
        cellarr = np.array(cell, dtype=object)
        UBI = vn_py.symarray("ubi", (3, 3))
        # ---- R2
        Bs = {}
        I = vn_py.Interp(mods, policy=nan_policy)
        uc = I.instantiate(mods["unitcell"], mods["unitcell"].cls("unitcell"), [list(cell)], {"symmetry": "P"})
        Bs["unitcell.unitcell.__init__"] = (UC, mods["unitcell"].func("unitcell.__init__").lineno, uc._attrs["B"])
        res = vn_py.NP.zeros((3, 3))
        I.call("tensor_map", "unitcell_to_b", cellarr, vn_py.NP.eye(3), res)
        Bs["tensor_map.unitcell_to_b"] = (TM, mods["tensor_map"].func("unitcell_to_b").lineno, res)
        for q in ("ubi_and_unitcell_to_eps_sample", "ubi_and_unitcell_to_eps_crystal"):
            It = vn_py.Interp(mods, policy=nan_policy)
            It.call("tensor_map", q, UBI, cellarr, vn_py.NP.zeros((3, 3)))
            Bs["tensor_map.%s" % q] = (TM, mods["tensor_map"].func(q).lineno, It.envs[q].get("B"))
        Ip = vn_py.Interp(mods, policy=nan_policy)
        u_pbp = Ip.call("point_by_point", "ubi_and_ucell_to_u", UBI, cellarr)
        Bs["point_by_point.ubi_and_ucell_to_u"] = (PBP, mods["point_by_point"].func("ubi_and_ucell_to_u").lineno, Ip.envs["ubi_and_ucell_to_u"].get("B"))
        ref_name = "unitcell.unitcell.__init__"
        ref = Bs[ref_name][2]
        for name, (rel, line, B) in Bs.items():
            if B is None or isinstance(B, vn_py.Poison):
                R.fail("C04.R2: could not obtain B from %s" % name)
            if name == ref_name:
                # reference: upper triangular and B[2,2] = 1/c
                ok = all(vn.is_zero(vn_py.R(B[i, j])) for i, j in ((1, 0), (2, 0), (2, 1))) and vn.equal(vn_py.R(B[2, 2]), vn.const(1) / cell[2])
                R.check(ok, "C04.R2", rel, line, name, "B upper triangular with B[2,2] = 1/c", "the reference B is no longer upper triangular with 1/c")
                continue
            ok, why = vn_py.same(B, ref)
            R.check(ok, "C04.R2", rel, line, name, "B(cell) == unitcell.unitcell(cell).B, all nine entries",
                    "this copy of the Busing-Levy formula differs from ImageD11.unitcell's: element " + why)
        # ---- R3
        g = I.instantiate(mods["grain"], mods["grain"].cls("grain"), [UBI], {})
        cells = {}
        cells["grain.unitcell"] = (GRAIN, I.attribute_of(mods["grain"], g, "unitcell"))
        cells["indexing.ubitocellpars"] = (IDX, np.array(list(I.call("indexing", "ubitocellpars", UBI)), dtype=object))
        mt = vn_py.NP.zeros((3, 3))
        I.call("tensor_map", "ubi_to_mt", UBI, mt)
        r6 = vn_py.NP.zeros((6,))
        I.call("tensor_map", "mt_to_unitcell", mt, vn_py.NP.zeros((6,)), r6)
        cells["tensor_map.ubi_to_mt+mt_to_unitcell"] = (TM, r6)
        cells["point_by_point.ubi_to_unitcell"] = (PBP, I.call("point_by_point", "ubi_to_unitcell", UBI))
        want_mt = np.dot(UBI, UBI.T)
        okm, whym = vn_py.same(mt, want_mt)
        R.check(okm, "C04.R3", TM, mods["tensor_map"].func("ubi_to_mt").lineno, "ubi_to_mt", "mt == ubi . ubi^T", "metric tensor convention differs: " + whym)
        gm = I.attribute_of(mods["grain"], g, "mt")
        okm, whym = vn_py.same(gm, want_mt)
        R.check(okm, "C04.R3", GRAIN, 1, "grain.mt", "mt == ubi . ubi^T", "metric tensor convention differs: " + whym)
        refc = cells["grain.unitcell"][1]
        for name, (rel, c) in cells.items():
            if name == "grain.unitcell":
                continue
            ok, why = vn_py.same(np.array(list(c), dtype=object), np.array(list(refc), dtype=object))
            R.check(ok, "C04.R3", rel, 1, name, "(a,b,c,alpha,beta,gamma)(ubi) == grain(ubi).unitcell",
                    "cell parameters derived from the same ubi differ from the grain object's: " + why)
        # ---- R4
        Bsym = vn_py.symarray("B", (3, 3))
        g2 = I.instantiate(mods["grain"], mods["grain"].cls("grain"), [UBI], {})
        g2._attrs["B"] = Bsym
        Ug = I.attribute_of(mods["grain"], g2, "U")
        want = np.dot(Bsym, UBI).T
        ok, why = vn_py.same(Ug, want)
        R.check(ok, "C04.R4", GRAIN, 1, "grain.U", "U == (B . ubi)^T", "grain.U is not (B.ubi)^T: " + why)
        ru = vn_py.NP.zeros((3, 3))
        I.call("tensor_map", "ubi_and_b_to_u", UBI, Bsym, ru)
        ok, why = vn_py.same(ru, want)
        R.check(ok, "C04.R4", TM, mods["tensor_map"].func("ubi_and_b_to_u").lineno, "ubi_and_b_to_u", "U == (B . ubi)^T", "the vectorised U differs from grain.U: " + why)
        Bp = Ip.envs["ubi_and_ucell_to_u"].get("B")
        ok, why = vn_py.same(u_pbp, np.dot(Bp, UBI).T)
        R.check(ok, "C04.R4", PBP, mods["point_by_point"].func("ubi_and_ucell_to_u").lineno, "ubi_and_ucell_to_u", "u == (B . ubi)^T", "the numba U differs: " + why)
        # UB = inv(ubi)
        UB = I.attribute_of(mods["grain"], g, "UB")
        ok, why = vn_py.same(UB, vn_py.inv(UBI))
        R.check(ok, "C04.R4", GRAIN, 1, "grain.UB", "UB == inv(ubi)", why)
        # grain.B is B of the grain's own cell
        gB = mods["grain"].func("grain.B")
        gB_txt = " ".join(pyfacts.resolved_src(gB, a_.value, 3, keep=("self",)) for a_ in ast.walk(gB) if isinstance(a_, ast.Assign)) + " " + ast.unparse(gB)
        R.check("ImageD11.unitcell.unitcell(self.unitcell).B" in gB_txt.replace(" ", ""), "C04.R4", GRAIN, gB.lineno, "grain.B",
                "B = unitcell.unitcell(self.unitcell).B", "grain.B is no longer computed from the grain's own cell by ImageD11.unitcell")
    finally:
        vn_py.INV_MODE[0] = "explicit"


# --------------------------------------------------------------------------------------------------
def r5(R):
    R.rule("C04.R5", "every guvectorize kernel in tensor_map.py tests isnan on element 0 of each (non-dummy) array input before any "
                     "other use and writes res[...] = nan on that path")
    m = pyfacts.module(R, TM)
    EXC = {("strain_crystal_to_stress_crystal", "stiffness_tensor"): "material constant, never NaN-masked",
           ("strain_crystal_to_stress_crystal", "B0"): "guard commented out in the source with a TODO",
           ("strain_crystal_to_stress_crystal", "phase_mask"): "boolean mask selecting the phase, tested for truth instead",
           ("sig_to_vm", "*"): "pure NaN-propagating arithmetic without branches or linear-algebra calls"}
    for k, v in EXC.items():
        R.exception("C04.R5", "%s(%s)" % k, v)
    nk = 0
    for name, fn in m.funcs.items():
        if "." in name:
            continue
        if not any("guvectorize" in src(d) for d in fn.decorator_list):
            continue
        nk += 1
        args = [a.arg for a in fn.args.args]
        out = args[-1]
        ins = [a for a in args[:-1] if not a.startswith("dum")]
        if (name, "*") in EXC:
            # verify the claim: no branch, no np.linalg call
            ok = not any(isinstance(x, (ast.If, ast.While)) for x in ast.walk(fn)) and "linalg" not in ast.unparse(fn)
            R.check(ok, "C04.R5", TM, fn.lineno, name, "branch-free, no linear algebra (NaN propagates through arithmetic)",
                    "the kernel now branches or calls linear algebra: it needs an explicit NaN guard")
            continue
        # path formulation on the flow graph (the shape of the guard - if / elif chain, one combined test, negated test with the
        # branches swapped - is free):
        #   a. every use of an input outside an isnan() test is dominated by a branch that implies 'not isnan(input[..])'
        #   b. from the other side of such a branch every path to the exit passes  res[...] = nan  and no other store to res
        cfg = pyfacts.PyCFG(fn)

        def isnan_arg(c):
            if isinstance(c, ast.Call) and (pyfacts.dotted(c.func) or "").endswith("isnan") and len(c.args) == 1:
                a0 = c.args[0]
                base = a0.value if isinstance(a0, ast.Subscript) else a0
                if isinstance(base, ast.Name):
                    return base.id
            return None

        def not_nan(e, pol):
            """inputs known not to be NaN when condition e has truth value pol"""
            if isinstance(e, ast.UnaryOp) and isinstance(e.op, ast.Not):
                return not_nan(e.operand, not pol)
            if isinstance(e, ast.BoolOp):
                if (isinstance(e.op, ast.Or) and not pol) or (isinstance(e.op, ast.And) and pol):
                    out_ = set()
                    for x in e.values:
                        out_ |= not_nan(x, pol)
                    return out_
                return set()
            n_ = isnan_arg(e)
            return {n_} if (n_ is not None and not pol) else set()

        def may_nan(e, pol):
            """does truth value pol of e leave 'some input is NaN' possible - i.e. is this the masked side of a NaN test"""
            return bool(not_nan(e, not pol)) and not not_nan(e, pol)
        tested = set(isnan_arg(c) for c in ast.walk(fn) if isnan_arg(c) is not None)
        in_test = set(id(x) for c in ast.walk(fn) if isnan_arg(c) is not None for x in ast.walk(c))
        is_nan_store = lambda st: isinstance(st, ast.Assign) and isinstance(st.targets[0], ast.Subscript) and src(st.targets[0].value) == out and \
            src(st.value) in ("np.nan", "numpy.nan", "math.nan", "float('nan')", "nan")
        is_out_store = lambda st: isinstance(st, (ast.Assign, ast.AugAssign)) and any(
            isinstance(t, ast.Subscript) and src(t.value) == out for t in (st.targets if isinstance(st, ast.Assign) else [st.target]))
        for a in ins:
            if (name, a) in EXC:
                continue
            R.check(a in tested, "C04.R5", TM, fn.lineno, name, "input '%s' tested with isnan before use" % a,
                    "array input '%s' is used without a NaN test: numba linear algebra on NaN input raises or returns garbage for "
                    "that voxel" % a)
            if a not in tested:
                continue
            for x in ast.walk(fn):
                if isinstance(x, ast.Name) and x.id == a and isinstance(x.ctx, ast.Load) and id(x) not in in_test:
                    par = getattr(x, "_parent", None)
                    if isinstance(par, ast.Attribute) and par.value is x and par.attr in ("shape", "ndim", "dtype", "size", "strides", "itemsize"):
                        continue      # metadata of the array, not its values
                    if isinstance(par, ast.Call) and src(par.func) == "len" and par.args and par.args[0] is x:
                        continue
                    node = cfg.node_of(x)
                    if node is None:
                        continue
                    known = set()
                    for e, pol in cfg.guards(node):
                        known |= not_nan(e, pol)
                    R.check(a in known, "C04.R5", TM, x.lineno, name, "use of '%s' at line %d is behind 'not isnan(%s[..])'" % (a, x.lineno, a),
                            "array input '%s' is used on a path where it may be NaN: numba linear algebra on NaN input raises or returns "
                            "garbage for that voxel" % a)
        nmasked = 0
        for nd in cfg.nodes:
            if nd.k != "assume" or not may_nan(nd.node, nd.pol):
                continue
            nmasked += 1
            reach = set(nx.descendants(cfg.g, nd.id)) | {nd.id}
            stores = [cfg.nodes[i] for i in reach if cfg.nodes[i].k == "stmt" and is_out_store(cfg.nodes[i].node)]
            badst = [q for q in stores if not is_nan_store(q.node)]
            # a later test of another input may sit on this side (if / elif chain): stores behind it that need that input to be good are fine
            badst = [q for q in badst if not any(may_nan(e, not pol) for e, pol in cfg.guards(q) if not any(e is e2 for e2, p2 in cfg.guards(nd)) and e is not nd.node)]
            g2 = cfg.g.copy()
            for q in stores:
                if is_nan_store(q.node):
                    g2.remove_node(q.id)
            # the un-masked continuation of an elif chain leaves this side through a 'not isnan' assume: cut there
            for i in list(reach):
                q = cfg.nodes[i]
                if q.k == "assume" and i != nd.id and not_nan(q.node, q.pol) and i in g2:
                    g2.remove_node(i)
            leaks = nd.id in g2 and cfg.exit.id in g2 and nx.has_path(g2, nd.id, cfg.exit.id)
            R.check(not badst and not leaks, "C04.R5", TM, getattr(nd.node, "lineno", fn.lineno), name,
                    "NaN path of '%s' (%s) writes %s[...] = nan only" % (src(nd.node), "true" if nd.pol else "false", out),
                    "a masked voxel does not come out as NaN (or something else happens on the NaN path)")
        R.shape(nmasked >= 1 or not (set(ins) - set(k_[1] for k_ in EXC if k_[0] == name)), "C04.R5", TM, name, "a branch on isnan(<input>)")
    if nk < 12:
        R.fail("C04.R5 found %d guvectorize kernels, expected at least 12" % nk)
