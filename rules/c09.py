"""C09  Grain refinement recovers orientation, cell and position from simulated data.

End-to-end recovery is the outcome of a simplex search over floating point data: not decided.
Decided (structural necessary conditions on the makemap route loadparameters / loadfiltered / readubis /
generate_grains / refinepositions / refineubis / savegrains):
R1 translation typestate: the per-grain translation travels through the global parameter object; every geometry use
   inside a loop over grains is dominated, in the same iteration, by set_translation(<that grain>).
R2 translation slots: set_translation and the copy-back in refinepositions pair translation[0,1,2] with t_x,t_y,t_z; the
   simplex varies exactly those three for exactly that grain; the tolerance is restored after the loop.
R3 assignlabels: the kernel pair compute_gv / score_and_assign is fed the current grain's translation and ubi, one gv
   buffer, the label int(g) that the second loop selects on, and the label / drlv2 buffers that become the columns.
R4 savegrains: the nine written columns take row i of the matching array at g.ind; h,k,l = floor(hkl_real + 0.5) with
   hkl_real = ubi . gv^T of the g-vectors just recomputed for that grain.
R5 compute_gv (Python route): omega * omegasign at each use and wavelength, wedge, chi reach every transform call; the
   g-vectors stored are the last ones computed.
R6 gof / refine: the refined matrix is the one handed to score_and_refine, started from the matrix read in; gof
   weights by npks and guards the division.
"""
import ast

from engine import pyfacts
from engine.pyfacts import src, dotted
from rules import c01

PID = "C09"
REL = "ImageD11/refinegrains.py"
CLS = "refinegrains"


def nows(s):
    return "".join(s.split())


def flat(node):
    """source text without blanks and without the parentheses ast.unparse puts around tuples"""
    return nows(src(node)).replace("(", "").replace(")", "")


def r10(R, m):
    """An angle difference that is then limited symmetrically (numpy.clip(d, -s, s)) or tested with abs() has to be reduced to the
    interval around zero: d - 360*round(d/360) (or (d + 180) % 360 - 180).  fmod(d, 360) keeps the sign of d and Python's % / numpy.mod
    give [0, 360): an error of -0.1 degree seen as 359.9 (observed omega on the 0..360 branch, computed on -180..180) is clipped to
    +slop instead of -0.1.  Positive evidence only: a one-sided reduction by 360 reaches a symmetric clip."""
    R.rule("C09.R10", "refinegrains: an angle difference that feeds a symmetric clip (numpy.clip(d, -s, s)) is wrapped to (-180, 180] with "
                      "d - 360*round(d/360); fmod(d, 360) / d % 360 / numpy.mod leave differences near +-360 (0..360 scans against the "
                      "-180..180 branch of the computed omega) and the floated omega is then wrong by the clip width")
    n = 0

    def period(e):
        return isinstance(e, ast.Constant) and isinstance(e.value, (int, float)) and float(e.value) in (360.0, 180.0)
    for q, fn in sorted(m.funcs.items()):
        if not q.startswith("refinegrains."):
            continue
        cfg = None
        for c in ast.walk(fn):
            if not (isinstance(c, ast.Call) and (pyfacts.dotted(c.func) or "").split(".")[-1] == "clip" and len(c.args) == 3):
                continue
            lo, hi = c.args[1], c.args[2]
            if not (isinstance(lo, ast.UnaryOp) and isinstance(lo.op, ast.USub) and nows(src(lo.operand)) == nows(src(hi))):
                continue
            if not isinstance(c.args[0], ast.Name):
                continue
            cfg = cfg or pyfacts.PyCFG(fn)
            nd = cfg.node_of(c)
            if nd is None:
                continue
            for v, g in cfg.reaching(nd, c.args[0].id):
                if v is None or v == "unknown":
                    continue
                n += 1
                one_sided = None
                if isinstance(v, ast.Call) and (pyfacts.dotted(v.func) or "").split(".")[-1] in ("fmod", "mod", "remainder") and len(v.args) == 2 and period(v.args[1]):
                    one_sided = src(v)
                if isinstance(v, ast.BinOp) and isinstance(v.op, ast.Mod) and period(v.right):
                    one_sided = src(v)
                R.check(one_sided is None, "C09.R10", REL, v.lineno, q, "%s = %s" % (c.args[0].id, src(v)[:60]),
                        "the difference '%s' is reduced with a one-sided remainder (%s) and then clipped to +-%s: a small negative error that "
                        "appears as 360 - e (observed and computed omega on different branches) stays near 360 (fmod keeps the sign, %% gives "
                        "[0, 360)) and is clipped to +%s, so the floated omega and everything refined from it are off" % (c.args[0].id, (one_sided or "")[:40], src(hi), src(hi)),
                        desc="%s:%s %s is wrapped symmetrically before clip(-s, s)" % (REL, q, c.args[0].id))
    R.floor("C09.R10", 1)


def run(R):
    m = pyfacts.module(R, REL)
    if R.want("C09.R1"):
        r1(R, m)
    if R.want("C09.R2"):
        r2(R, m)
    if R.want("C09.R3"):
        r3(R, m)
    if R.want("C09.R4"):
        r4(R, m)
    if R.want("C09.R5"):
        R.rule("C09.R5", "refinegrains.compute_gv: omega * omegasign at each use; wavelength, wedge, chi reach every "
                         "compute_g_vectors / uncompute_g_vectors call in that order; self.gv is the last gv computed")
        c01.rg_compute_gv(R, "C09.R5")
        r5_tail(R, m)
    if R.want("C09.R6"):
        r6(R, m)
    if R.want("C09.R8"):
        r8(R, m)
    if R.want("C09.R9"):
        r9(R)
    if R.want("C09.R10"):
        r10(R, m)
    if R.want("C09.R7"):
        # the refinement's g-vectors come from two routes that must be one function: the C kernel used by assignlabels and the
        # Python chain used by compute_gv (omega passed already multiplied by omegasign, grain origin from t_x,t_y,t_z).
        # Shared with C01.R2 / C01.R4.
        mods = {"transform": pyfacts.module(R, c01.TR), "point_by_point": pyfacts.module(R, c01.PBP)}
        c01.r24(R, mods, r2n="C09.R7", r4n="C09.R7")


# --------------------------------------------------------------------------------------------------
def enclosing_loops(node):
    out = []
    n = getattr(node, "_parent", None)
    prev = node
    while n is not None and not isinstance(n, (ast.FunctionDef, ast.Lambda)):
        if isinstance(n, ast.For) and any(prev is s for s in n.body):
            out.append(n)
        prev = n
        n = getattr(n, "_parent", None)
    return out


def unique_def(fn, name, within=None):
    scope = within if within is not None else fn
    d = [a for a in ast.walk(scope) if isinstance(a, ast.Assign) and len(a.targets) == 1 and isinstance(a.targets[0], ast.Name)
         and a.targets[0].id == name]
    return d[0] if len(d) == 1 else None


def key_of(k):
    """canonical form of a key expression of self.grains[...]"""
    if isinstance(k, ast.Name):
        return ("K", k.id)
    if isinstance(k, ast.Tuple) and len(k.elts) == 2:
        return ("T", nows(src(k.elts[0])), nows(src(k.elts[1])))
    return None


def grain_of(expr, fn, loop):
    """which grain does expression `expr` (a Name, or self.grains[...]) denote inside `loop`?  -> key or None"""
    if isinstance(expr, ast.Subscript) and nows(src(expr.value)) == "self.grains":
        return key_of(expr.slice)
    if isinstance(expr, ast.Attribute):
        return grain_of(expr.value, fn, loop)
    if not isinstance(expr, ast.Name):
        return None
    d = unique_def(fn, expr.id, loop)
    if d is not None:
        return grain_of(d.value, fn, loop)
    # loop target element bound from a list comprehension of (self.grains[k], k)
    if loop is not None and isinstance(loop.target, ast.Tuple):
        names = [e.id if isinstance(e, ast.Name) else None for e in loop.target.elts]
        if expr.id in names and isinstance(loop.iter, ast.Name):
            ld = unique_def(fn, loop.iter.id)
            if ld is not None and isinstance(ld.value, ast.ListComp) and isinstance(ld.value.elt, ast.Tuple) \
                    and len(ld.value.elt.elts) == len(names) and len(ld.value.generators) == 1:
                elt = ld.value.elt.elts[names.index(expr.id)]
                g = ld.value.generators[0]
                if isinstance(elt, ast.Subscript) and nows(src(elt.value)) == "self.grains" and isinstance(elt.slice, ast.Name) \
                        and isinstance(g.target, ast.Name) and elt.slice.id == g.target.id:
                    # which loop name carries the comprehension variable itself?
                    for pos, e2 in enumerate(ld.value.elt.elts):
                        if isinstance(e2, ast.Name) and e2.id == g.target.id and names[pos]:
                            return ("K", names[pos])
    return None


def settrans_key(call, fn, loop):
    """set_translation(a, b) -> key it selects, or ("K0", base, second) when only the first component is syntactically the key's"""
    a = call.args
    if len(a) == 1 and isinstance(a[0], ast.Starred) and isinstance(a[0].value, ast.Name):
        return ("K", a[0].value.id)
    if len(a) != 2:
        return None

    def comp(e):
        if isinstance(e, ast.Subscript) and isinstance(e.value, ast.Name) and isinstance(e.slice, ast.Constant):
            return e.value.id, e.slice.value
        return None
    c0, c1 = comp(a[0]), comp(a[1])
    if c0 and c1 and c0[0] == c1[0] and (c0[1], c1[1]) == (0, 1):
        return ("K", c0[0])
    if c0 and c0[1] == 0:
        return ("K0", c0[0], a[1])
    return ("T", nows(src(a[0])), nows(src(a[1])))


def same_grain(sk, gk, fn, loop, grain_expr):
    if sk is None or gk is None:
        return None
    if sk[0] in ("K", "T") and sk == gk:
        return True
    if sk[0] == "K0" and gk == ("K", sk[1]):
        # second component must be the scan part of this very grain's name:  name, flt = g.name.split(":")
        b = sk[2]
        if isinstance(b, ast.Name):
            for a in ast.walk(loop):
                if isinstance(a, ast.Assign) and isinstance(a.targets[0], ast.Tuple) and len(a.targets[0].elts) == 2 \
                        and isinstance(a.targets[0].elts[1], ast.Name) and a.targets[0].elts[1].id == b.id \
                        and isinstance(a.value, ast.Call) and isinstance(a.value.func, ast.Attribute) and a.value.func.attr == "split" \
                        and isinstance(a.value.func.value, ast.Attribute) and a.value.func.value.attr == "name":
                    if grain_of(a.value.func.value.value, fn, loop) == gk:
                        return True
        return False
    return False


GEOM_SELF = ("self.compute_gv",)
GEOM_TRANSFORM = ("compute_tth_eta_from_xyz", "compute_tth_eta", "compute_xyz_lab_with_translation")
EXEMPT = {
    "gof": "the optimiser owns t_x, t_y, t_z here: applyargs(args) writes the trial translation before compute_gv",
    "fit": "global fit: per-grain translations are deliberately replaced by the fitted global value (documented in the code)",
    "estimate_steps": "helper of fit (global parameters)",
    "compute_gv": "callee: uses whatever translation its caller installed",
}


def r1(R, m):
    R.rule("C09.R1", "in every refinegrains method that loops over grains, each geometry use that reads t_x,t_y,t_z from the "
                     "parameter object (self.compute_gv, transform.compute_tth_eta_from_xyz(**parameters), Simplex(self.gof), "
                     "get_variable_values) is dominated, inside the same iteration, by set_translation(<the same grain>)")
    for k, v in EXEMPT.items():
        R.exception("C09.R1", "refinegrains.%s" % k, v)
    cls = m.cls(CLS)
    nuse = 0
    for fn in [n for n in cls.body if isinstance(n, ast.FunctionDef)]:
        if fn.name in EXEMPT:
            continue
        uses = []
        for c in ast.walk(fn):
            if not isinstance(c, ast.Call):
                continue
            d = dotted(c.func) or ""
            if d in GEOM_SELF and c.args:
                uses.append((c, c.args[0], "self.compute_gv(%s)" % src(c.args[0])))
            elif d.split(".")[-1] in GEOM_TRANSFORM and any(k.arg is None and "parameterobj.parameters" in src(k.value) for k in c.keywords):
                uses.append((c, c.args[0] if c.args else None, "%s(%s, **parameters)" % (d, src(c.args[0]) if c.args else "")))
            elif d.endswith("Simplex") and c.args and nows(src(c.args[0])) == "self.gof":
                uses.append((c, "TOREFINE", "Simplex(self.gof, ...)"))
        if not uses:
            continue
        cfg = pyfacts.PyCFG(fn)
        sets = [c for c in ast.walk(fn) if isinstance(c, ast.Call) and dotted(c.func) == "self.set_translation"]
        for c, gexpr, text in uses:
            loops = enclosing_loops(c)
            if not loops:
                # not inside a loop over grains: compute_xyz_lab etc. do not read the translation; a compute_gv here would
                R.check(False, "C09.R1", REL, c.lineno, "%s.%s" % (CLS, fn.name), text,
                        "a translation-dependent computation outside any loop over grains uses whichever grain was set last")
                continue
            nuse += 1
            loop = loops[0]
            un = cfg.node_of(pyfacts.containing_stmt(c))
            cands = [s for s in sets if loop in enclosing_loops(s) and cfg.dominates(cfg.node_of(pyfacts.containing_stmt(s)), un)
                     and pyfacts.containing_stmt(s) is not pyfacts.containing_stmt(c)]
            R.check(bool(cands), "C09.R1", REL, c.lineno, "%s.%s" % (CLS, fn.name), text,
                    "no set_translation(<this grain>) dominates this use inside the loop iteration: the geometry is computed "
                    "with the translation of whichever grain was installed last (the previous grain, or the last one of "
                    "assignlabels), so the fitted position / g-vectors belong to another grain",
                    desc="%s.%s: %s dominated by set_translation in the same iteration" % (CLS, fn.name, text))
            if not cands:
                continue
            # last dominating set_translation decides
            s = max(cands, key=lambda x: x.lineno)
            sk = settrans_key(s, fn, loop)
            if gexpr == "TOREFINE":
                d = [a for a in ast.walk(loop) if isinstance(a, ast.Assign) and nows(src(a.targets[0])) == "self.grains_to_refine"]
                gk = None
                if len(d) == 1 and isinstance(d[0].value, ast.List) and len(d[0].value.elts) == 1 \
                        and cfg.dominates(cfg.node_of(d[0]), un):
                    gk = key_of(d[0].value.elts[0])
                R.check(gk is not None, "C09.R1", REL, c.lineno, "%s.%s" % (CLS, fn.name), "self.grains_to_refine = [<key>] before the simplex",
                        "the simplex minimises gof over a grain list that is not restricted to the grain whose translation was installed")
            else:
                gk = grain_of(gexpr, fn, loop)
            verdict = same_grain(sk, gk, fn, loop, gexpr)
            R.shape(verdict is not None, "C09.R1", REL, "%s.%s" % (CLS, fn.name),
                    "grain identity of %s (%s) and of %s (%s)" % (text, gk, src(s), sk))
            R.check(verdict, "C09.R1", REL, c.lineno, "%s.%s" % (CLS, fn.name), "%s after %s" % (text, src(s)),
                    "the translation installed is that of another grain (%s) than the one being computed (%s)" % (sk, gk))
            # no later write of t_x.. between: a second set_translation for another grain between s and c would dominate too and be picked
    if nuse < 4:
        R.fail("C09.R1 recognised %d translation-dependent uses inside grain loops; 4 were confirmed by reading "
               "(refineubis, savegrains, refinepositions, assignlabels second loop)" % nuse)


# --------------------------------------------------------------------------------------------------
AX = {"t_x": 0, "t_y": 1, "t_z": 2}


def r2(R, m):
    R.rule("C09.R2", "set_translation writes parameters[t_x,t_y,t_z] from grains[(gr,sc)].translation[0,1,2]; refinepositions "
                     "copies them back in the same pairing after minimize, varies exactly t_x,t_y,t_z, restores self.tolerance")
    fn = m.func("%s.set_translation" % CLS)
    params = [a.arg for a in fn.args.args]
    seen = {}
    for a in fn.body:
        if isinstance(a, ast.Assign) and isinstance(a.targets[0], ast.Subscript) and nows(src(a.targets[0].value)) == "self.parameterobj.parameters" \
                and isinstance(a.targets[0].slice, ast.Constant):
            name = a.targets[0].slice.value
            v = a.value
            ok = isinstance(v, ast.Subscript) and isinstance(v.slice, ast.Constant) and v.slice.value == AX.get(name) \
                and flat(v.value) == "self.grains[%s,%s].translation" % (params[1], params[2])
            seen[name] = ok
            R.check(ok, "C09.R2", REL, a.lineno, "%s.set_translation" % CLS, src(a),
                    "parameter %s is not loaded from component %s of the selected grain's translation" % (name, AX.get(name)))
    R.check(set(seen) == set(AX), "C09.R2", REL, fn.lineno, "%s.set_translation" % CLS, "writes %s" % sorted(seen),
            "set_translation does not install all of t_x, t_y, t_z")
    rp = pyfacts.unroll_literal_loops(pyfacts.clone(m.func("%s.refinepositions" % CLS)))   # loops over ('t_x', 't_y', 't_z') read as their three bodies
    for n_ in ast.walk(rp):
        for c_ in ast.iter_child_nodes(n_):
            c_._parent = n_
    cfg = pyfacts.PyCFG(rp)
    mins = [c for c in ast.walk(rp) if isinstance(c, ast.Call) and isinstance(c.func, ast.Attribute) and c.func.attr == "minimize"]
    R.shape(len(mins) == 1, "C09.R2", REL, "%s.refinepositions" % CLS, "one call of <simplex>.minimize")
    mn = cfg.node_of(pyfacts.containing_stmt(mins[0]))
    loop = enclosing_loops(mins[0])[0]
    back = {}
    for a in ast.walk(loop):
        if isinstance(a, ast.Assign) and isinstance(a.targets[0], ast.Subscript) and nows(src(a.targets[0].value)).endswith(".translation") \
                and isinstance(a.targets[0].slice, ast.Constant):
            i = a.targets[0].slice.value
            v = a.value
            name = v.slice.value if isinstance(v, ast.Subscript) and isinstance(v.slice, ast.Constant) and \
                nows(src(v.value)) == "self.parameterobj.parameters" else None
            gk = grain_of(a.targets[0].value, rp, loop)
            back[i] = name
            R.check(name is not None and AX.get(name) == i, "C09.R2", REL, a.lineno, "%s.refinepositions" % CLS, src(a),
                    "the fitted parameter is copied into the wrong component of the grain's translation")
            R.check(cfg.dominates(mn, cfg.node_of(a)), "C09.R2", REL, a.lineno, "%s.refinepositions" % CLS, "%s after minimize" % src(a)[:40],
                    "the translation is copied back before the simplex has run")
            lk = key_of(loop.target) if isinstance(loop.target, ast.Name) else None
            R.check(gk is not None and gk == lk, "C09.R2", REL, a.lineno, "%s.refinepositions" % CLS, "%s is the loop's grain" % src(a.targets[0].value),
                    "the fitted translation is stored into another grain")
    R.check(sorted(back) == [0, 1, 2], "C09.R2", REL, rp.lineno, "%s.refinepositions" % CLS, "copy-back of components %s" % sorted(back),
            "not all three components of the fitted position are stored in the grain")
    vl = [a for a in ast.walk(loop) if isinstance(a, ast.Assign) and nows(src(a.targets[0])) == "self.parameterobj.varylist"]
    okv = len(vl) == 1 and isinstance(vl[0].value, ast.List) and [getattr(e, "value", None) for e in vl[0].value.elts] == ["t_x", "t_y", "t_z"]
    gv = [c for c in ast.walk(loop) if isinstance(c, ast.Call) and nows(src(c.func)) == "self.parameterobj.get_variable_values"]
    R.check(okv and gv and all(cfg.dominates(cfg.node_of(vl[0]), cfg.node_of(pyfacts.containing_stmt(c))) for c in gv), "C09.R2", REL,
            vl[0].lineno if vl else rp.lineno, "%s.refinepositions" % CLS, "varylist = ['t_x','t_y','t_z'] before get_variable_values",
            "the simplex does not vary exactly the three translation components (in t_x,t_y,t_z order, which the copy-back assumes)")
    # set_translation before get_variable_values (the start point is this grain's position)
    st = [c for c in ast.walk(loop) if isinstance(c, ast.Call) and dotted(c.func) == "self.set_translation"]
    R.check(st and gv and all(cfg.dominates(cfg.node_of(pyfacts.containing_stmt(st[0])), cfg.node_of(pyfacts.containing_stmt(c))) for c in gv),
            "C09.R2", REL, rp.lineno, "%s.refinepositions" % CLS, "set_translation before get_variable_values",
            "the simplex starts from another grain's position")
    # tolerance save / restore
    save = [a for a in rp.body if isinstance(a, ast.Assign) and nows(src(a.value)) == "self.tolerance" and isinstance(a.targets[0], ast.Name)]
    R.shape(len(save) == 1, "C09.R2", REL, "%s.refinepositions" % CLS, "<cache> = self.tolerance at the top level")
    cache = save[0].targets[0].id
    rest = [a for a in rp.body if isinstance(a, ast.Assign) and nows(src(a.targets[0])) == "self.tolerance" and nows(src(a.value)) == cache]
    R.check(len(rest) == 1 and rp.body.index(rest[0]) > rp.body.index(loop) and cfg.postdominates(cfg.node_of(rest[0]), cfg.node_of(save[0])),
            "C09.R2", REL, rp.lineno, "%s.refinepositions" % CLS, "self.tolerance = %s after the loop" % cache,
            "the widened tolerance (1.0) used while fitting positions is not restored: every later assignment accepts any peak")
    re_ = [a for a in ast.walk(rp) if isinstance(a, ast.Assign) and nows(src(a.targets[0])) == cache]
    R.check(len(re_) == 1, "C09.R2", REL, rp.lineno, "%s.refinepositions" % CLS, "%s assigned once" % cache, "the cached tolerance is overwritten")
    # assignments happen before tolerance is widened
    al = [c for c in ast.walk(rp) if isinstance(c, ast.Call) and dotted(c.func) == "self.assignlabels"]
    wid = [a for a in rp.body if isinstance(a, ast.Assign) and nows(src(a.targets[0])) == "self.tolerance" and a not in rest]
    R.check(al and wid and all(pyfacts.containing_stmt(c).lineno < wid[0].lineno for c in al), "C09.R2", REL, rp.lineno, "%s.refinepositions" % CLS,
            "assignlabels() before the tolerance is widened", "peaks are assigned with the widened tolerance")


# --------------------------------------------------------------------------------------------------
def r3(R, m):
    R.rule("C09.R3", "assignlabels first loop: compute_gv(peaks_xyz, omega, omegasign, wvln, wedge, chi, gr.translation, gv) and "
                     "score_and_assign(gr.ubi, gv, self.tolerance, drlv2, int_tmp, int(g)) with gr = self.grains[(g, s)]; the "
                     "buffers become the labels / drlv2 columns; the second loop selects int_tmp == g into gr.ind and the "
                     "per-grain arrays are taken with that ind")
    fn = m.func("%s.assignlabels" % CLS)
    kc = [c for c in ast.walk(fn) if isinstance(c, ast.Call) and (dotted(c.func) or "").endswith("cImageD11.compute_gv")]
    sa = [c for c in ast.walk(fn) if isinstance(c, ast.Call) and (dotted(c.func) or "").endswith("cImageD11.score_and_assign")]
    R.shape(len(kc) == 1 and len(sa) == 1, "C09.R3", REL, "%s.assignlabels" % CLS, "one compute_gv and one score_and_assign kernel call")
    kc, sa = kc[0], sa[0]
    l1 = enclosing_loops(kc)
    R.shape(l1 and l1[0] is enclosing_loops(sa)[0], "C09.R3", REL, "%s.assignlabels" % CLS, "both kernel calls in the same grain loop")
    loop = l1[0]
    outer = l1[1] if len(l1) > 1 else None
    R.shape(outer is not None and isinstance(outer.target, ast.Name), "C09.R3", REL, "%s.assignlabels" % CLS, "an outer loop over scans")
    s = outer.target.id
    # loop target: for ig, g in enumerate(self.grainnames)  /  for g in self.grainnames
    tg = loop.target
    gname = tg.elts[-1].id if isinstance(tg, ast.Tuple) else tg.id
    R.check("self.grainnames" in src(loop.iter), "C09.R3", REL, loop.lineno, "%s.assignlabels" % CLS, "first loop over %s" % src(loop.iter),
            "the assignment loop does not run over all grain names")
    a = kc.args
    R.shape(len(a) == 8 and len(sa.args) == 6, "C09.R3", REL, "%s.assignlabels" % CLS, "8 and 6 positional arguments")
    tr = a[6]
    gk = grain_of(tr, fn, loop)
    R.check(gk == ("T", gname, s) and isinstance(tr, ast.Attribute) and tr.attr == "translation", "C09.R3", REL, kc.lineno, "%s.assignlabels" % CLS,
            "compute_gv translation argument %s -> grain %s" % (src(tr), gk),
            "the g-vectors for grain (%s, %s) are computed with another grain's position" % (gname, s))
    roles = [c01.role_of(m, fn, x) for x in a[2:6]]
    R.check(roles == ["omegasign", "wavelength", "wedge", "chi"], "C09.R3", REL, kc.lineno, "%s.assignlabels" % CLS,
            "compute_gv slots 3..6 carry %s" % roles, "goniometer parameters are passed in the wrong slots")
    R.check(nows(src(a[0])) == "peaks_xyz" and "omega" in src(a[1]) and s in src(a[1]), "C09.R3", REL, kc.lineno, "%s.assignlabels" % CLS,
            "compute_gv(%s, %s, ...)" % (src(a[0]), src(a[1])), "peak positions / omega of this scan are not what is passed")
    gvbuf = nows(src(a[7]))
    b = sa.args
    ub = b[0]
    R.check(isinstance(ub, ast.Attribute) and ub.attr == "ubi" and grain_of(ub, fn, loop) == ("T", gname, s), "C09.R3", REL, sa.lineno,
            "%s.assignlabels" % CLS, "score_and_assign matrix %s" % src(ub), "peaks are scored against another grain's matrix")
    R.check(nows(src(b[1])) == gvbuf, "C09.R3", REL, sa.lineno, "%s.assignlabels" % CLS, "score_and_assign reads the buffer compute_gv wrote (%s)" % gvbuf,
            "scoring uses g-vectors other than the ones just computed for this grain")
    R.check(nows(src(b[2])) == "self.tolerance", "C09.R3", REL, sa.lineno, "%s.assignlabels" % CLS, "tolerance %s" % src(b[2]),
            "assignment does not use the requested tolerance")
    lab = b[5]
    labname = lab.args[0].id if isinstance(lab, ast.Call) and dotted(lab.func) == "int" and isinstance(lab.args[0], ast.Name) else (lab.id if isinstance(lab, ast.Name) else None)
    R.check(labname == gname, "C09.R3", REL, sa.lineno, "%s.assignlabels" % CLS, "label %s" % src(lab), "peaks are labelled with something other than the grain name")
    dr, lb = nows(src(b[3])), nows(src(b[4]))
    cfg = pyfacts.PyCFG(fn)
    kn, sn = cfg.node_of(pyfacts.containing_stmt(kc)), cfg.node_of(pyfacts.containing_stmt(sa))
    R.check(cfg.dominates(kn, sn), "C09.R3", REL, sa.lineno, "%s.assignlabels" % CLS, "compute_gv before score_and_assign", "scoring precedes the g-vector computation")
    # buffers initialised before the loop: drlv2 := ... + 1, labels := zeros - 1  (last assignment before the loop)
    for name, want, why in ((dr, "+1", "drlv2 must start at 1 (> tol^2) so that the first matching grain wins"),
                            (lb, "-1", "labels must start at -1 (unassigned)")):
        defs = [x for x in ast.walk(outer) if isinstance(x, ast.Assign) and nows(src(x.targets[0])) == name and x.lineno < loop.lineno]
        R.shape(bool(defs), "C09.R3", REL, "%s.assignlabels" % CLS, "initialisation of %s before the grain loop" % name)
        last = max(defs, key=lambda x: x.lineno)
        t = nows(src(last.value))
        R.check(want in t.replace(").astype(float)", "").replace("(", "").replace(")", "")[-4:] or t.endswith(want) or (want + ")") in t, "C09.R3", REL, last.lineno,
                "%s.assignlabels" % CLS, "%s := %s" % (name, src(last.value)), why)
    # the buffers become the columns
    adds = {}
    for c in ast.walk(outer):
        if isinstance(c, ast.Call) and isinstance(c.func, ast.Attribute) and c.func.attr == "addcolumn" and len(c.args) == 2 \
                and isinstance(c.args[1], ast.Constant):
            adds[c.args[1].value] = (nows(src(c.args[0])), c)
    R.check(adds.get("labels", ("",))[0] == lb and adds.get("drlv2", ("",))[0] == dr, "C09.R3", REL, outer.lineno, "%s.assignlabels" % CLS,
            "columns labels := %s, drlv2 := %s" % (adds.get("labels", ("?",))[0], adds.get("drlv2", ("?",))[0]),
            "the label / error buffers filled by the kernel are not what is stored in the peak table")
    for nm in ("labels", "drlv2"):
        if nm in adds:
            R.check(adds[nm][1].lineno > loop.end_lineno, "C09.R3", REL, adds[nm][1].lineno, "%s.assignlabels" % CLS, "column %s stored after the grain loop" % nm,
                    "the column is stored before all grains have competed for the peaks")
    # second loop
    def where_cond(v):
        """the boolean mask of 'row numbers where <mask>': compress(mask, arange(n)), flatnonzero(mask), nonzero/where(mask)[0],
        arange(n)[mask] (arange possibly through a local name)"""
        if isinstance(v, ast.Call):
            d_ = (dotted(v.func) or "").split(".")[-1]
            if d_ == "compress" and len(v.args) == 2 and "arange" in pyfacts.resolved_src(fn, v.args[1], 2):
                return v.args[0]
            if d_ == "flatnonzero" and len(v.args) == 1:
                return v.args[0]
        if isinstance(v, ast.Subscript):
            if isinstance(v.value, ast.Call) and (dotted(v.value.func) or "").split(".")[-1] in ("nonzero", "where") and len(v.value.args) == 1 and src(v.slice) == "0":
                return v.value.args[0]
            if "arange" in pyfacts.resolved_src(fn, v.value, 2) and isinstance(v.slice, ast.Compare):
                return v.slice
        return None
    sel = [a_ for a_ in ast.walk(outer) if isinstance(a_, ast.Assign) and where_cond(a_.value) is not None and lb in nows(src(a_.value))]
    R.shape(len(sel) == 1, "C09.R3", REL, "%s.assignlabels" % CLS, "ind = row numbers where %s == g (compress / flatnonzero / where / arange[...])" % lb)
    sel = sel[0]
    loop2 = enclosing_loops(sel)[0]
    g2 = loop2.target.id if isinstance(loop2.target, ast.Name) else None
    cmpx = where_cond(sel.value)
    okc = isinstance(cmpx, ast.Compare) and isinstance(cmpx.ops[0], ast.Eq) and {nows(src(cmpx.left)), nows(src(cmpx.comparators[0]))} == {lb, g2}
    R.check(okc and sel.lineno > loop.end_lineno and "self.grainnames" in src(loop2.iter), "C09.R3", REL, sel.lineno, "%s.assignlabels" % CLS, src(sel)[:70],
            "the peaks handed to a grain are not exactly those labelled with its name after all grains competed")
    indn = nows(src(sel.targets[0]))
    want_takes = {"peaks_xyz": "peaks_xyz", "sc": "sc", "fc": "fc", "om": "omega"}
    got = {}
    for a_ in ast.walk(loop2):
        if not (isinstance(a_, ast.Assign) and isinstance(a_.targets[0], ast.Attribute) and isinstance(a_.targets[0].value, ast.Name)):
            continue
        v = a_.value
        if isinstance(v, ast.Call) and (dotted(v.func) or "").endswith("take") and len(v.args) >= 2 and \
                all(k_.arg == "axis" and src(k_.value) == "0" for k_ in v.keywords):
            got[a_.targets[0].attr] = (nows(src(v.args[0])), nows(src(v.args[1])), a_)
        elif isinstance(v, ast.Subscript) and isinstance(v.slice, ast.Name):
            got[a_.targets[0].attr] = (nows(src(v.value)), v.slice.id, a_)      # X[ind] with an integer index array == take(X, ind, axis=0)
    for attr, srcname in want_takes.items():
        R.check(attr in got and got[attr][1] == indn and got[attr][0].split(".")[-1] == srcname, "C09.R3", REL,
                got[attr][2].lineno if attr in got else loop2.lineno, "%s.assignlabels" % CLS,
                "gr.%s := take(%s, %s)" % (attr, got.get(attr, ("?", "?"))[0], got.get(attr, ("?", "?"))[1]),
                "the grain's private copy of '%s' is not the scan's %s at the grain's own peak indices" % (attr, srcname))
    indset = [a_ for a_ in ast.walk(loop2) if isinstance(a_, ast.Assign) and nows(src(a_.targets[0])).endswith(".ind")]
    R.check(len(indset) == 1 and nows(src(indset[0].value)) == indn, "C09.R3", REL, loop2.lineno, "%s.assignlabels" % CLS, "gr.ind = %s" % indn,
            "gr.ind (used by savegrains to push hkl back) is not the selection just made")
    R.floor("C09.R3", 15, "instances")


# --------------------------------------------------------------------------------------------------
def r4(R, m):
    R.rule("C09.R4", "savegrains: per grain set_translation, compute_gv(g, update_columns=True); gx,gy,gz := gv[:,0..2]; "
                     "hr,kr,lr := (ubi . gv^T)[0..2,:]; h,k,l := floor(hkl_real + 0.5)[0..2,:]; all put at g.ind of the grain's scan")
    fn = m.func("%s.savegrains" % CLS)
    puts = [c for c in ast.walk(fn) if isinstance(c, ast.Call) and (dotted(c.func) or "").endswith(".put") and len(c.args) == 3]
    R.shape(len(puts) >= 9, "C09.R4", REL, "%s.savegrains" % CLS, "nine numpy.put calls")
    loop = enclosing_loops(puts[0])[0]
    cfg = pyfacts.PyCFG(fn)
    gname = loop.target.elts[0].id if isinstance(loop.target, ast.Tuple) else None
    R.shape(gname is not None, "C09.R4", REL, "%s.savegrains" % CLS, "for g, k in <list>")
    want = {"gx": ("self.gv", ":,0"), "gy": ("self.gv", ":,1"), "gz": ("self.gv", ":,2"),
            "hr": ("REAL", "0,:"), "kr": ("REAL", "1,:"), "lr": ("REAL", "2,:"),
            "h": ("INT", "0,:"), "k": ("INT", "1,:"), "l": ("INT", "2,:")}
    # hkl_real and hkl definitions
    real = intn = None
    for a in ast.walk(loop):
        if isinstance(a, ast.Assign) and isinstance(a.targets[0], ast.Name) and isinstance(a.value, ast.Call):
            d = (dotted(a.value.func) or "").split(".")[-1]
            if d == "dot" and len(a.value.args) == 2 and nows(src(a.value.args[1])) == "self.gv.T":
                real = a
            if d in ("floor", "round", "rint"):
                intn = a
    R.shape(real is not None and intn is not None, "C09.R4", REL, "%s.savegrains" % CLS, "hkl_real = dot(g.ubi, self.gv.T); hkl = floor(hkl_real + 0.5)")
    R.check(nows(src(real.value.args[0])) == "%s.ubi" % gname, "C09.R4", REL, real.lineno, "%s.savegrains" % CLS, src(real),
            "hkl are computed with a matrix other than this grain's refined ubi")
    rn, inn = real.targets[0].id, intn.targets[0].id
    iv = intn.value
    d = (dotted(iv.func) or "").split(".")[-1]
    arg = nows(src(iv.args[0]))
    okint = (d == "floor" and arg in ("%s+0.5" % rn, "0.5+%s" % rn)) or (d in ("round", "rint") and arg == rn)
    R.check(okint, "C09.R4", REL, intn.lineno, "%s.savegrains" % CLS, src(intn), "integer hkl are not the nearest integers of hkl_real")
    seen = {}
    cg = [c for c in ast.walk(loop) if isinstance(c, ast.Call) and dotted(c.func) == "self.compute_gv"]
    R.shape(len(cg) == 1, "C09.R4", REL, "%s.savegrains" % CLS, "one self.compute_gv call in the loop")
    cgn = cfg.node_of(pyfacts.containing_stmt(cg[0]))
    R.check(nows(src(cg[0].args[0])) == gname and any(k.arg == "update_columns" and nows(src(k.value)) == "True" for k in cg[0].keywords), "C09.R4", REL, cg[0].lineno,
            "%s.savegrains" % CLS, src(cg[0]), "g-vectors (and tth/eta per grain) are not recomputed for this grain before being written")
    for c in puts:
        tgt, ind, val = c.args
        if not (isinstance(tgt, ast.Attribute) and tgt.attr in want):
            continue
        col = tgt.attr
        seen[col] = c
        R.check(nows(src(ind)) == "%s.ind" % gname, "C09.R4", REL, c.lineno, "%s.savegrains" % CLS, "put(%s, %s, ...)" % (col, src(ind)),
                "values are written at rows other than this grain's peaks")
        base, sl = want[col]
        ok = isinstance(val, ast.Subscript) and flat(val.slice) == sl and \
            nows(src(val.value)) == {"self.gv": "self.gv", "REAL": rn, "INT": inn}[base]
        R.check(ok, "C09.R4", REL, c.lineno, "%s.savegrains" % CLS, "%s := %s" % (col, src(val)),
                "column %s receives %s instead of %s[%s]" % (col, src(val), {"self.gv": "self.gv", "REAL": rn, "INT": inn}[base], sl))
        R.check(cfg.dominates(cgn, cfg.node_of(pyfacts.containing_stmt(c))), "C09.R4", REL, c.lineno, "%s.savegrains" % CLS, "put(%s) after compute_gv" % col,
                "the column is written before this grain's g-vectors are recomputed (it gets the previous grain's)")
        scan = pyfacts.resolved(fn, tgt.value, 2, keep=("self",)) if isinstance(tgt.value, ast.Name) else tgt.value      # scan = self.scandata[fltname] named once
        R.check(isinstance(scan, ast.Subscript) and nows(src(scan.value)) == "self.scandata", "C09.R4", REL, c.lineno, "%s.savegrains" % CLS, src(tgt),
                "the column written does not belong to the scan table")
    R.check(set(seen) == set(want), "C09.R4", REL, fn.lineno, "%s.savegrains" % CLS, "columns written: %s" % sorted(seen),
            "columns %s are not written back" % sorted(set(want) - set(seen)))
    # real before int, both after compute_gv
    R.check(cfg.dominates(cgn, cfg.node_of(real)) and cfg.dominates(cfg.node_of(real), cfg.node_of(intn)), "C09.R4", REL, real.lineno, "%s.savegrains" % CLS,
            "compute_gv -> hkl_real -> hkl order", "hkl are computed from stale g-vectors")
    # the grains written are the loop's grains
    wr = [c for c in ast.walk(fn) if isinstance(c, ast.Call) and (dotted(c.func) or "").endswith("write_grain_file")]
    R.check(len(wr) == 1 and cfg.node_of(pyfacts.containing_stmt(wr[0])) is not None and pyfacts.containing_stmt(wr[0]).lineno > loop.end_lineno, "C09.R4", REL, fn.lineno,
            "%s.savegrains" % CLS, "write_grain_file after the loop", "grains are written before their columns / nuniq are updated")


# --------------------------------------------------------------------------------------------------
def r5_tail(R, m):
    fn = m.ifunc("%s.compute_gv" % CLS)
    cfg = pyfacts.PyCFG(fn)
    gvdefs = [a for a in ast.walk(fn) if isinstance(a, ast.Assign) and nows(src(a.targets[0])) == "gv"]
    R.shape(len(gvdefs) >= 1, "C09.R5", REL, "%s.compute_gv" % CLS, "gv = transform.compute_g_vectors(...)")
    for a in gvdefs:
        R.check(isinstance(a.value, ast.Call) and (dotted(a.value.func) or "").endswith("compute_g_vectors"), "C09.R5", REL, a.lineno, "%s.compute_gv" % CLS, src(a)[:60],
                "gv is rebound to something that is not a g-vector computation")
    st = [a for a in ast.walk(fn) if isinstance(a, ast.Assign) and nows(src(a.targets[0])) == "self.gv"]
    # every normal exit has passed a store  self.gv = <..gv.T..>  (must-pass-through; an early return that repeats the store is fine)
    good = [a for a in st if "gv.T" in nows(pyfacts.resolved_src(fn, a.value, 2, keep=("self", "gv")))]
    gg = cfg.g.copy()
    gg.remove_nodes_from([cfg.node_of(a).id for a in good if cfg.node_of(a) is not None])
    import networkx as _nx
    leak = cfg.exit.id in gg and _nx.has_path(gg, cfg.entry.id, cfg.exit.id)
    R.check(bool(good) and len(good) == len(st) and not leak, "C09.R5", REL, st[0].lineno if st else fn.lineno, "%s.compute_gv" % CLS,
            "self.gv = ascontiguousarray(gv.T) on every path", "self.gv is not refreshed from the g-vectors just computed on every path")
    # in the omega-float branch the second computation uses the fitted omega
    fl = [s for s in ast.walk(fn) if isinstance(s, ast.If) and nows(src(s.test)) == "self.OMEGA_FLOAT" and s.orelse]
    R.shape(len(fl) == 1, "C09.R5", REL, "%s.compute_gv" % CLS, "if self.OMEGA_FLOAT: ... else: ...")
    inner = [a for a in gvdefs if any(a is x for s in fl[0].body for x in ast.walk(s))]
    R.check(len(inner) == 1 and nows(src(inner[0].value.args[2])) == "omega_calc", "C09.R5", REL, fl[0].lineno, "%s.compute_gv" % CLS,
            "floated branch recomputes gv with omega_calc", "with omega floated the g-vectors are not recomputed from the fitted omega")
    # tth/eta are always computed with om*sign and **parameters (translation!)
    te = [c for c in ast.walk(fn) if isinstance(c, ast.Call) and (dotted(c.func) or "").endswith("compute_tth_eta_from_xyz")]
    for c in te:
        R.check(any(k.arg is None and nows(pyfacts.resolved_src(fn, k.value, 2, keep=("self",))) == "self.parameterobj.parameters" for k in c.keywords), "C09.R5", REL, c.lineno, "%s.compute_gv" % CLS,
                "compute_tth_eta_from_xyz(**self.parameterobj.parameters)", "tth/eta are computed without the parameter object's translation and tilts")
        R.check(nows(pyfacts.resolved_src(fn, c.args[0], 3, keep=("self", "thisgrain"))) == "thisgrain.peaks_xyz.T",
                "C09.R5", REL, c.lineno, "%s.compute_gv" % CLS, "peaks are thisgrain.peaks_xyz", "another grain's peaks are used")


# --------------------------------------------------------------------------------------------------
def r6(R, m):
    R.rule("C09.R6", "refine(): score_and_refine(mat, self.gv, self.tolerance) on a copy of the argument, result returned; "
                     "gof(): applyargs first, per grain compute_gv then set_ubi(refine(ubisread[grainname])), weighted by npks, "
                     "division guarded; refineubis stores refine(g.ubi) into the same grain")
    fn = m.func("%s.refine" % CLS)
    p = fn.args.args[1].arg
    # the working matrix: an assignment  <name> = f(<argument>)  in the body.  f copies (x.copy(), np.array(x), np.copy(x), x.astype(t),
    # copy.copy / deepcopy) or may return its argument itself (x, np.asarray / ascontiguousarray / asanyarray / require(x), x.view(),
    # x.reshape(..), x.ravel(), np.array(x, copy=False), x.astype(t, copy=False)): score_and_refine then overwrites the caller's matrix

    def copies(v):
        d = dotted(v.func) if isinstance(v, ast.Call) else None
        kw = {k.arg: k.value for k in v.keywords} if isinstance(v, ast.Call) else {}
        nocopy = "copy" in kw and isinstance(kw["copy"], ast.Constant) and kw["copy"].value is False
        if isinstance(v, ast.Name) and v.id == p:
            return False
        if isinstance(v, ast.Call) and isinstance(v.func, ast.Attribute) and src(v.func.value) == p:
            if v.func.attr == "copy":
                return True
            if v.func.attr == "astype":
                return not nocopy
            if v.func.attr in ("view", "reshape", "ravel", "squeeze", "transpose"):
                return False
        if d is not None and v.args and src(v.args[0]) == p:
            last = d.split(".")[-1]
            if last in ("array",):
                return not nocopy
            if last in ("copy", "deepcopy"):
                return True
            if last in ("asarray", "ascontiguousarray", "asanyarray", "require", "asfortranarray", "atleast_2d"):
                return False
        return None
    cands = [(a, copies(a.value)) for a in fn.body if isinstance(a, ast.Assign) and isinstance(a.targets[0], ast.Name)
             and any(isinstance(x, ast.Name) and x.id == p for x in ast.walk(a.value))]
    cands = [(a, c_) for a, c_ in cands if c_ is not None]
    R.shape(len(cands) == 1, "C09.R6", REL, "%s.refine" % CLS, "the working copy  mat = <copy of the argument>")
    cp = [cands[0][0]]
    mat = cp[0].targets[0].id
    R.check(cands[0][1] is True, "C09.R6", REL, cp[0].lineno, "%s.refine" % CLS, src(cp[0]),
            "score_and_refine overwrites its matrix argument and %s does not copy a C-contiguous float64 array: the caller's matrix "
            "(ubisread[grainname], the fixed start point of every gof trial; grain.ubi in a score-only pass) is refined in place" % src(cp[0].value)[:60])
    calls = [c for c in ast.walk(fn) if isinstance(c, ast.Call) and (dotted(c.func) or "").endswith("score_and_refine")]
    R.shape(len(calls) >= 1, "C09.R6", REL, "%s.refine" % CLS, "score_and_refine calls")
    for c in calls:
        a = [nows(src(x)) for x in c.args]
        R.check(a == [mat, "self.gv", "self.tolerance"], "C09.R6", REL, c.lineno, "%s.refine" % CLS, src(c),
                "refinement does not fit the working matrix to the current g-vectors at the current tolerance")
        par = pyfacts.containing_stmt(c)
        R.check(isinstance(par, ast.Assign) and flat(par.targets[0]) == "self.npks,self.avg_drlv2", "C09.R6", REL, c.lineno, "%s.refine" % CLS,
                src(par)[:60], "count and mean error are not stored as (self.npks, self.avg_drlv2)")
    rets = [r for r in ast.walk(fn) if isinstance(r, ast.Return)]
    # every return hands back the working matrix, and comes after the fit (an early 'if quiet: return mat' before the report is the same)
    cfg6 = pyfacts.PyCFG(fn)
    def anchor(c):
        """the statement that certainly runs when the fit runs: the call's statement, or the outermost loop around it that
        iterates over range(<constant >= 1>) (two passes written as 'for _ in range(2)')"""
        st_ = pyfacts.containing_stmt(c)
        up = getattr(st_, "_parent", None)
        best = st_
        while up is not None and not isinstance(up, (ast.FunctionDef, ast.Lambda)):
            if isinstance(up, ast.For) and isinstance(up.iter, ast.Call) and dotted(up.iter.func) == "range" and len(up.iter.args) == 1 \
                    and (pyfacts.const_int(up.iter.args[0]) or 0) >= 1 and not up.orelse and not any(isinstance(x, ast.Break) for x in ast.walk(up)):
                best = up
            elif isinstance(up, (ast.For, ast.While, ast.If, ast.Try)):
                break
            up = getattr(up, "_parent", None)
        return best
    after_fit = all(any(cfg6.node_of(anchor(c)) is not None and cfg6.dominates(cfg6.node_of(anchor(c)), cfg6.node_of(r)) for c in calls)
                    for r in rets if cfg6.node_of(r) is not None)
    R.check(len(rets) >= 1 and all(r.value is not None and nows(src(r.value)) == mat for r in rets) and after_fit, "C09.R6", REL, fn.lineno, "%s.refine" % CLS, "return %s" % mat,
            "the refined matrix is not what is returned")
    # the score is refreshed after the last symmetry projection? (second call after first projection) - count pattern
    g = m.func("%s.gof" % CLS)
    cfg = pyfacts.PyCFG(g)
    first = g.body[0] if not isinstance(g.body[0], ast.Expr) or not isinstance(g.body[0].value, ast.Constant) else g.body[1]
    R.check(isinstance(first, ast.Expr) and nows(src(first)) == "self.applyargs(%s)" % g.args.args[1].arg, "C09.R6", REL, first.lineno, "%s.gof" % CLS, src(first),
            "the trial parameters are not installed before the cost is evaluated")
    loops = [l for l in g.body if isinstance(l, ast.For)]
    R.shape(len(loops) == 1 and nows(src(loops[0].iter)) == "self.grains_to_refine", "C09.R6", REL, "%s.gof" % CLS, "for key in self.grains_to_refine")
    loop = loops[0]
    cg = [c for c in ast.walk(loop) if isinstance(c, ast.Call) and dotted(c.func) == "self.compute_gv"]
    su = [c for c in ast.walk(loop) if isinstance(c, ast.Call) and isinstance(c.func, ast.Attribute) and c.func.attr == "set_ubi"]
    R.shape(len(cg) == 1 and len(su) == 1, "C09.R6", REL, "%s.gof" % CLS, "compute_gv and set_ubi in the loop")
    kname = loop.target.id
    R.check(grain_of(cg[0].args[0], g, loop) == ("K", kname) and grain_of(su[0].func.value, g, loop) == ("K", kname), "C09.R6", REL, cg[0].lineno, "%s.gof" % CLS,
            "compute_gv(%s) / %s.set_ubi for the loop's grain" % (src(cg[0].args[0]), src(su[0].func.value)), "cost is evaluated on another grain")
    R.check(cfg.dominates(cfg.node_of(pyfacts.containing_stmt(cg[0])), cfg.node_of(pyfacts.containing_stmt(su[0]))), "C09.R6", REL, su[0].lineno, "%s.gof" % CLS,
            "compute_gv before refine", "the matrix is refined against the previous grain's g-vectors")
    inner = su[0].args[0]
    okstart = isinstance(inner, ast.Call) and dotted(inner.func) == "self.refine" and nows(src(inner.args[0])).startswith("self.ubisread[")
    R.check(okstart, "C09.R6", REL, su[0].lineno, "%s.gof" % CLS, src(su[0])[:70], "gof does not refine from the matrix read in (start point drifts between trials)")
    if okstart:
        gn = inner.args[0].slice
        d = unique_def(g, gn.id, loop) if isinstance(gn, ast.Name) else None
        R.check(d is not None and nows(src(d.value)) == "%s[0]" % kname, "C09.R6", REL, su[0].lineno, "%s.gof" % CLS, "ubisread[%s] with %s" % (src(gn), src(d) if d else "?"),
                "the start matrix belongs to another grain")
    acc = {nows(src(a.target)): nows(src(a.value)) for a in ast.walk(loop) if isinstance(a, ast.AugAssign) and isinstance(a.op, ast.Add)}
    R.check(acc.get("diffs") in ("self.npks*self.avg_drlv2", "self.avg_drlv2*self.npks") and acc.get("contribs") == "self.npks", "C09.R6", REL, loop.lineno, "%s.gof" % CLS,
            "diffs += npks*avg_drlv2; contribs += npks (%s)" % acc, "the cost is not the peak-weighted mean error")
    rets = [r for r in ast.walk(g) if isinstance(r, ast.Return)]
    for r in rets:
        if "/" in src(r.value):
            n = cfg.node_of(r)
            facts = pyfacts.guard_atoms(cfg.guards(n))      # 'if not contribs > 0: ...; return' before it counts as contribs > 0
            R.check((("contribs>0", True) in facts or ("contribs<=0", False) in facts or ("0<contribs", True) in facts or ("contribs>=1", True) in facts)
                    and nows(src(r.value)).endswith("diffs/contribs"), "C09.R6", REL, r.lineno, "%s.gof" % CLS, src(r),
                    "division by the number of contributing peaks is not guarded / not diffs/contribs")
    # refineubis
    ru = m.func("%s.refineubis" % CLS)
    loops = [l for l in ru.body if isinstance(l, ast.For)]
    R.shape(len(loops) == 1, "C09.R6", REL, "%s.refineubis" % CLS, "one loop over grains")
    loop = loops[0]
    rf = [c for c in ast.walk(loop) if isinstance(c, ast.Call) and dotted(c.func) == "self.refine"]
    su = [c for c in ast.walk(loop) if isinstance(c, ast.Call) and isinstance(c.func, ast.Attribute) and c.func.attr == "set_ubi"]
    R.shape(len(rf) == 1 and len(su) == 1, "C09.R6", REL, "%s.refineubis" % CLS, "refine and set_ubi")
    kk = ("K", loop.target.id)
    res = pyfacts.containing_stmt(rf[0])
    R.check(grain_of(rf[0].args[0], ru, loop) == kk and grain_of(su[0].func.value, ru, loop) == kk and isinstance(res, ast.Assign)
            and nows(src(su[0].args[0])) == nows(src(res.targets[0])), "C09.R6", REL, rf[0].lineno, "%s.refineubis" % CLS,
            "%s; %s" % (src(res)[:50], src(su[0])), "the refined matrix is stored into another grain or is not the result of refine(g.ubi)")
    facts = [(nows(src(e)), pol) for e, pol in pyfacts.PyCFG(ru).guards(pyfacts.PyCFG(ru).node_of(pyfacts.containing_stmt(su[0])))] if False else None
    par = getattr(pyfacts.containing_stmt(su[0]), "_parent", None)
    R.check(isinstance(par, ast.If) and nows(src(par.test)) in ("notscoreonly", "scoreonly==False", "scoreonlyisFalse"), "C09.R6", REL, su[0].lineno, "%s.refineubis" % CLS,
            "set_ubi under 'if not scoreonly'", "scoreonly no longer protects the grains from being modified")


# --------------------------------------------------------------------------------------------------
def r8(R, m):
    R.rule("C09.R8", "every grain owns its translation vector: refinegrains stores refined positions in place ( gr.translation[k] = ... ), so "
                     "grain.__init__ must copy the array it is given (np.array / .copy()); a view or the caller's own array (np.asarray, "
                     "copy=False, plain assignment) makes all grains created from one start vector end at the position refined last")
    inplace = [a for a in ast.walk(m.tree) if isinstance(a, (ast.Assign, ast.AugAssign))
               for t in (a.targets if isinstance(a, ast.Assign) else [a.target])
               if isinstance(t, ast.Subscript) and isinstance(t.value, ast.Attribute) and t.value.attr == "translation"]
    if not inplace:
        R.inst("C09.R8", "refinegrains no longer stores into <grain>.translation[...] in place: ownership is not needed")
        return
    gm = pyfacts.module(R, "ImageD11/grain.py")
    init = gm.func("grain.__init__")
    sets = [a for a in ast.walk(init) if isinstance(a, ast.Assign) and any(src(t) == "self.translation" for t in a.targets) and src(a.value) != "None"]
    R.shape(len(sets) >= 1, "C09.R8", "ImageD11/grain.py", "grain.__init__", "the assignment of self.translation")
    # a conditional expression is read as its branches (None if translation is None else np.array(translation, float))
    flat = []
    for a in sets:
        stack = [a.value]
        while stack:
            v_ = stack.pop()
            if isinstance(v_, ast.IfExp):
                stack += [v_.body, v_.orelse]
            elif not (isinstance(v_, ast.Constant) and v_.value is None):
                flat.append((a, v_))
    for a, v in flat:
        d = (dotted(v.func) or "") if isinstance(v, ast.Call) else ""
        fresh = False
        if isinstance(v, ast.Call) and d.split(".")[-1] == "array" and not any(k.arg == "copy" and src(k.value) in ("False", "None", "0") for k in v.keywords):
            fresh = True
        if isinstance(v, ast.Call) and isinstance(v.func, ast.Attribute) and v.func.attr == "copy":
            fresh = True
        if isinstance(v, ast.Call) and d.split(".")[-1] in ("list", "tuple") and d == d.split(".")[-1]:
            fresh = True
        if isinstance(v, (ast.List, ast.ListComp)):
            fresh = True
        R.check(fresh, "C09.R8", "ImageD11/grain.py", a.lineno, "grain.__init__", "self.translation = %s (a fresh array)" % src(v)[:50],
                "the grain keeps a reference to the caller's array: grains generated from one start vector share it, and the in-place "
                "stores of refinepositions (refinegrains.py:%d) move all of them" % inplace[0].lineno)


# --------------------------------------------------------------------------------------------------
def r9(R):
    """scripts/makemap.py: savegrains() fills the per-peak result columns (h, k, l, hr, kr, lr, gx.., omegacalc_per_grain) grain by grain;
    assignlabels() re-creates them as zeros (and leaves the g-vectors of the last grain) and only savegrains() fills them again.  The
    peak file '<flt>.new' therefore has to be written after savegrains() with no assignlabels() in between."""
    MK = "scripts/makemap.py"
    R.rule("C09.R9", "scripts/makemap.py: '<fltfile>.new' is written after savegrains() and before any later assignlabels() (which resets "
                     "the per-peak hkl / g-vector columns that only savegrains fills)")
    import networkx as nx
    m = pyfacts.module(R, MK)
    fn = m.func("makemap")
    cfg = pyfacts.PyCFG(fn)

    def calls(attr):
        return [c for c in ast.walk(fn) if isinstance(c, ast.Call) and isinstance(c.func, ast.Attribute) and c.func.attr == attr]
    sg = calls("savegrains")
    wf = [c for c in calls("writefile") if c.args and any(isinstance(x, ast.Constant) and x.value == ".new" for x in ast.walk(pyfacts.resolved(fn, c.args[0], 2)))]
    al = calls("assignlabels")
    R.shape(len(sg) == 1 and len(wf) == 1, "C09.R9", MK, "makemap", "one savegrains() call and one scandata[...].writefile(<flt> + '.new') call")
    nsg, nwf = cfg.node_of(pyfacts.containing_stmt(sg[0])), cfg.node_of(pyfacts.containing_stmt(wf[0]))
    R.check(cfg.dominates(nsg, nwf), "C09.R9", MK, wf[0].lineno, "makemap", "savegrains() dominates the writing of <flt>.new",
            "the peak file is written on a path where the per-peak columns have not been filled by savegrains()")
    between = nx.descendants(cfg.g, nsg.id) & nx.ancestors(cfg.g, nwf.id)
    bad = [c for c in al if cfg.node_of(pyfacts.containing_stmt(c)) is not None and cfg.node_of(pyfacts.containing_stmt(c)).id in between]
    R.check(not bad, "C09.R9", MK, wf[0].lineno, "makemap", "no assignlabels() between savegrains() and the writing of <flt>.new",
            "assignlabels() (line %s) runs between savegrains() and the writing of '<flt>.new': it re-creates h, k, l, hr, kr, lr and "
            "omegacalc_per_grain as zeros and overwrites gx, gy, gz with the last grain's origin, so the saved peak file carries hkl = 0 "
            "for every peak (only when the unindexed-peaks option is used)" % (bad[0].lineno if bad else ""))
