"""C13  Local-maximum labelling follows steepest ascent for every thread count.

Decided: R1 OpenMP discipline of the three parallel constructs (schedule clause); R2 the direction-code
table written by neighbormax and read back through o[] in localmaxlabel describe the same neighbour;
R3 work/label buffers are defined before they are read (independence from previous buffer content);
R4 the sparse variants are single threaded; R6 sparse_smooth adds exactly the 3x3 neighbourhood with the documented weights
(finite case analysis of its guards over the row / column distance).
Not decided: steepest-ascent semantics of the pick order, equality of dense and sparse partitions.
"""
from engine import cfront, cover, crules, definit, omp
from engine.cfront import estr, estr_top, ewalk, swalk
from engine.poly import Poly

PID = "C13"
FILE = "src/localmaxlabel.c"


def run(R):
    R.assume("OpenMP semantics as specified; aligned 1-byte / 4-byte stores are not torn")
    R.assume("image shape >= 3x3 (the property's stated domain): dim0 >= 3, dim1 >= 3")
    tus = cfront.load(R.root, files=["localmaxlabel.c", "sparse_image.c"])
    nm = cfront.find_func(tus, "neighbormax", FILE)
    lm = cfront.find_func(tus, "localmaxlabel", FILE)
    if R.want("C13.R1"):
        R.rule("C13.R1", "every OpenMP construct of localmaxlabel.c: scalars private/reduced; shared writes at "
                         "injective affine indices of the work-shared variable or inside the thread's own [lo,hi) "
                         "partition; no read of a cell another thread may write (E2 S1-S6)")
        omp.report(R, "C13.R1", tus, select=lambda f: f.file == FILE, floor=3)
        for f in (nm, lm):
            an, reps = definit.analyse(f, tus)
            seen = set()
            for name, idx, line, what in reps:
                if (name, idx) in seen:
                    continue
                seen.add((name, idx))
                R.violation("C13.R1/E3", f.file, line, f.name, "%s%s" % (name, idx),
                            "local '%s' may be read before it is assigned (private copies start undefined)" % name)
            R.inst("C13.R1", "%s:%s definite initialisation of locals (%d reads)" % (f.file, f.name, an.n_reads), ok=not reps)
    if R.want("C13.R2"):
        r2(R, nm, lm)
    if R.want("C13.R3"):
        r3(R, tus, nm, lm)
    if R.want("C13.R4"):
        r4(R, tus)
    if R.want("C13.R6"):
        r6(R, tus)
    if R.want("C13.R7"):
        r7(R)
    if R.want("C13.R8"):
        r8(R, tus)
    if R.want("C13.R9"):
        r9(R, tus)
    if R.want("C13.R5"):
        R.rule("C13.R5", "neighbour windows are computed in int: no difference (column - 1, row - 1, ...) is stored into an unsigned "
                         "variable in localmaxlabel.c or sparse_localmaxlabel / sparse_smooth (a pixel in column 0 or row 0 would see "
                         "a window starting at 65535)")
        n = 0
        for f in cfront.all_funcs(tus):
            if f.file == FILE or f.name in ("sparse_localmaxlabel", "sparse_smooth", "sparse_connectedpixels"):
                n += 1
                for line, ty, name, rhs in crules.unsigned_differences(f):
                    R.violation("C13.R5", f.file, line, f.name, "%s %s = %s" % (ty, name, rhs),
                                "the window start is evaluated in int and converted to %s: for a pixel in the first column / row it wraps, "
                                "the cursor runs past the row above and the pixel (and the rest of its row) loses its links upwards" % ty)
                R.inst("C13.R5", "%s:%s no unsigned store of a difference" % (f.file, f.name))
        if n < 4:
            R.fail("C13.R5 examined %d functions, expected at least 4" % n)


# --------------------------------------------------------------------------------------------------
def r2(R, nm, lm):
    R.rule("C13.R2", "direction codes: every (neighbour offset, code) pair that neighbormax can store in l[] satisfies "
                     "o[code] == offset in localmaxlabel; the column-reuse shift is -3 and o[c] == o[c-3]+1; code 5 is "
                     "'self' in both stages")
    # o[] table
    otab = None
    for s in swalk(lm.body):
        if s.k == "decl" and s.var.name == "o" and s.init is not None and s.init.k == "init":
            otab = s
    if otab is None:
        R.fail("localmaxlabel: offset table o[] not found")
    im_p, lout_p, l_p, d0, d1 = [p.name for p in lm.params[:5]]
    reg = omp.Region(lm, cfront.S("omp", name="none", clauses=[], body=lm.body), None)
    oform = [reg.form(x, {}) for x in otab.init.a]
    R.check(len(oform) == 10, "C13.R2", FILE, otab.line, lm.name, "o[10] initialiser", "offset table must have 10 entries")
    if len(oform) != 10:
        return
    # neighbormax pairs.  Walk statements in order keeping p's symbolic value relative to the pixel.
    n_im, n_lout, n_l, n_d0, n_d1 = [p.name for p in nm.params[:5]]
    rename = {n_d1: Poly.atom(d1), n_d0: Poly.atom(d0)}
    pairs = []     # (mx var, code var, offset poly relative to p, code int, line)
    shifts = []
    regn = omp.collect_accesses(nm, None)
    # find: MX = im[expr]; K = c;   and   if (im[expr] > MX) { MX = im[expr]; K = c; }
    stmts = [s for s in swalk(nm.body)]

    def off_of(e):
        """im[p + off] -> off polynomial (p is the variable named 'p')"""
        if e.k != "idx" or estr(e.a[0]) != n_im:
            return None
        f = reg.form(e.a[1], {})
        if f is None or f.degree_in("p") != 1 or f.coeff("p", 1) != Poly.const(1):
            return None
        return f.without("p").subs(rename)
    blocks = [s for s in stmts if s.k == "block"]
    for b in blocks:
        body = b.body
        for n, s in enumerate(body):
            if s.k == "expr" and s.e.k == "asg" and s.e.op == "=" and s.e.a[0].k == "var":
                o = off_of(s.e.a[1])
                if o is not None:
                    mx = s.e.a[0].name
                    # the code assignment is the neighbouring statement
                    for t in (body[n + 1] if n + 1 < len(body) else None, body[n - 1] if n > 0 else None):
                        if t is not None and t.k == "expr" and t.e.k == "asg" and t.e.op == "=" and t.e.a[0].k == "var" \
                                and t.e.a[1].k == "int" and t.e.a[0].name.startswith("k"):
                            pairs.append((mx, t.e.a[0].name, o, t.e.a[1].val, s.line))
                            break
            if s.k == "expr" and s.e.k == "asg" and s.e.op == "=" and s.e.a[0].k == "var" and s.e.a[1].k == "bin" \
                    and s.e.a[1].op == "-" and s.e.a[1].a[0].k == "var" and s.e.a[1].a[1].k == "int" \
                    and s.e.a[0].name.startswith("k") and s.e.a[1].a[0].name.startswith("k"):
                shifts.append((s.e.a[0].name, s.e.a[1].a[0].name, s.e.a[1].a[1].val, s.line))
    merges = []
    for s in stmts:
        if s.k == "if" and s.cond.k == "bin" and s.cond.op == ">" and s.els is None:
            tb = s.then.body if s.then.k == "block" else [s.then]
            if len(tb) == 2 and all(t.k == "expr" and t.e.k == "asg" and t.e.op == "=" for t in tb):
                o = off_of(s.cond.a[0])
                vals = {t.e.a[0].name if t.e.a[0].k == "var" else None: t.e.a[1] for t in tb}
                mxv = s.cond.a[1].name if s.cond.a[1].k == "var" else None
                if o is not None and mxv in vals and estr(vals[mxv]) == estr(s.cond.a[0]):
                    codes = [(k, v) for k, v in vals.items() if k != mxv]
                    if len(codes) == 1 and codes[0][1].k == "int":
                        pairs.append((mxv, codes[0][0], o, codes[0][1].val, s.line))
                elif o is None and s.cond.a[0].k == "var" and mxv in vals and estr(vals[mxv]) == estr(s.cond.a[0]):
                    # pick(mx1, mx0, k0, k1): merging columns, code copied from another code variable
                    codes = [(k, v) for k, v in vals.items() if k != mxv]
                    if len(codes) == 1 and codes[0][1].k == "var":
                        merges.append((s.cond.a[0].name, mxv, codes[0][0], codes[0][1].name, s.line))
    if len(pairs) < 9:
        R.fail("neighbormax: found only %d (offset, code) assignments, expected 9 (3x3 neighbourhood)" % len(pairs))
    codes_seen = set()
    for mx, kv, off, code, line in pairs:
        ok = 1 <= code <= 9 and oform[code] == off
        codes_seen.add(code)
        R.check(ok, "C13.R2", FILE, line, nm.name, "neighbour im[p + (%r)] stores code %d" % (off, code),
                "code %d is stored for the neighbour at offset %r but localmaxlabel's o[%d] is %r: the ascent walks to a "
                "different pixel" % (code, off, code, oform[code] if 0 <= code < 10 else None))
    R.check(codes_seen == set(range(1, 10)), "C13.R2", FILE, nm.line, nm.name, "codes %s" % sorted(codes_seen),
            "the nine neighbour codes 1..9 are not all produced")
    # column reuse: k0 = k1 - 3 ; k1 = k2 - 3 and o[c] == o[c-3] + 1
    R.check(len(shifts) == 2 and all(sh[2] == 3 for sh in shifts), "C13.R2", FILE, nm.line, nm.name,
            "column-reuse shifts %s" % [(a, b, c) for a, b, c, l in shifts],
            "the codes carried over to the next pixel must be shifted by exactly 3 (one column)")
    for c in range(4, 10):
        R.check(oform[c] - oform[c - 3] == Poly.const(1), "C13.R2", FILE, otab.line, lm.name, "o[%d] - o[%d]" % (c, c - 3),
                "o[c] must equal o[c-3] + 1 for the -3 column shift to denote the same pixel")
    R.check(oform[5].is_zero() and oform[0].is_zero(), "C13.R2", FILE, otab.line, lm.name, "o[5] == 0", "code 5 must be 'self'")
    # code 5 tests in both stages
    t1 = [s for s in swalk(nm.body) if s.k == "if" and s.cond.k == "bin" and s.cond.op == "==" and s.cond.a[1].k == "int"
          and s.cond.a[1].val == 5 and s.cond.a[0].k == "var"]
    t2 = [s for s in swalk(lm.body) if s.k == "if" and s.cond.k == "bin" and s.cond.op == "==" and s.cond.a[1].k == "int"
          and s.cond.a[1].val == 5 and "%s[" % l_p in estr(s.cond.a[0])]
    R.check(len(t1) == 1, "C13.R2", FILE, nm.line, nm.name, "count maxima: if (k0 == 5)", "stage 1 must count code 5 (self) as a maximum")
    R.check(len(t2) == 1, "C13.R2", FILE, lm.line, lm.name, "label maxima: if (l[p] == 5)", "stage 2 must label code 5 (self) as a maximum")
    # the code stored to l[p] is the merged winner
    st = [x for s, x in cfront.all_exprs(nm.body) if x.k == "asg" and x.op == "=" and estr(x.a[0]) == "%s[p]" % n_l]
    R.check(len(st) == 1 and st[0].a[1].k in ("var", "cast") and len(merges) == 2, "C13.R2", FILE, nm.line, nm.name,
            "l[p] = winner of the two column merges (%d merges)" % len(merges),
            "l[p] must receive the code selected by merging the three column maxima")
    if len(st) == 1 and len(merges) == 2:
        win = [x.name for x in ewalk(st[0].a[1]) if x.k == "var"]
        R.check(win and all(m[2] == win[0] for m in merges) and t1 and estr(t1[0].cond.a[0]) == win[0], "C13.R2", FILE,
                st[0].line, nm.name, "l[p] = %s" % win, "stored code variable, merge target and the ==5 test must be the same variable")


# --------------------------------------------------------------------------------------------------
def r3(R, tus, nm, lm):
    R.rule("C13.R3", "independence from previous buffer content: l[] is completely overwritten by unconditional stage-1 "
                     "stores before any read; l[x]=0 is always paired with a store to lout[x]; lout is read at a "
                     "data-dependent index only where l[index]==0")
    im_p, lout_p, l_p, d0, d1 = [p.name for p in nm.params[:5]]
    facts = [Poly.atom(d1) - 3, Poly.atom(d0) - 3]
    cov = cover.covered(nm, tus, l_p, facts=facts)
    full = cov is not None and len(cov) == 1 and cov[0][0].is_zero() and cov[0][1] == Poly.atom(d0) * Poly.atom(d1) - 1
    R.check(full, "C13.R3", FILE, nm.line, nm.name, "unconditional writes to %s cover %s" % (l_p, cov),
            "the work array is not completely overwritten in stage 1: cells outside %s keep the caller's previous "
            "content and are later followed as direction codes" % (cov,))
    # no read of l in neighbormax
    regn = omp.collect_accesses(nm, tus)
    rd = [a for a in regn.acc if a.arr == l_p and a.rw == "r"]
    R.check(not rd, "C13.R3", FILE, nm.line, nm.name, "reads of %s in stage 1: %d" % (l_p, len(rd)),
            "stage 1 reads the work array before it has been fully written")
    # in localmaxlabel: call of neighbormax dominates every access of l / lout
    cfg = lm.cfg
    calln = [n for n in cfg.nodes if n.e is not None and any(x.k == "call" and x.name == "neighbormax" for x in ewalk(n.e))]
    R.check(len(calln) == 1, "C13.R3", FILE, lm.line, lm.name, "call neighbormax(...)", "stage 1 call not found exactly once")
    if len(calln) == 1:
        lp, loutp = lm.params[2].name, lm.params[1].name
        bad = []
        reach = cfg.reachable()
        for n in cfg.nodes:
            if n.id not in reach or n.e is None or n is calln[0]:
                continue
            if any(x.k == "idx" and x.a[0].k == "var" and x.a[0].name in (lp, loutp) for x in ewalk(n.e)):
                if calln[0].id not in cfg.dominators(n.id):
                    bad.append(n)
        R.check(not bad, "C13.R3", FILE, lm.line, lm.name, "stage 1 dominates every access of l/lout",
                "an access of the label/work arrays is reachable without running stage 1: %s" % bad[:2])
        # argument order of the call
        c = [x for x in ewalk(calln[0].e) if x.k == "call" and x.name == "neighbormax"][0]
        R.check([estr(a) for a in c.a] == [p.name for p in lm.params[:5]], "C13.R3", FILE, c.line, lm.name,
                "neighbormax(%s)" % ", ".join(estr(a) for a in c.a), "stage 1 must receive (im, lout, l, dim0, dim1) in that order")
    # pairing: every store l[x] = 0 has a store to lout[x] in the same block
    npair = 0
    for f in (nm, lm):
        lp, loutp = f.params[2].name, f.params[1].name
        for b in swalk(f.body):
            if b.k != "block":
                continue
            for s in b.body:
                if s.k == "expr" and s.e.k == "asg" and s.e.op == "=" and s.e.a[0].k == "idx" and estr(s.e.a[0].a[0]) == lp \
                        and ((s.e.a[1].k == "int" and s.e.a[1].val == 0) or (s.e.a[1].k == "cast" and s.e.a[1].a[0].k == "int" and s.e.a[1].a[0].val == 0)):
                    x = estr(s.e.a[0].a[1])
                    sib = [t for t in b.body if t.k == "expr" and t.e.k == "asg" and t.e.op == "=" and t.e.a[0].k == "idx"
                           and estr(t.e.a[0].a[0]) == loutp and estr(t.e.a[0].a[1]) == x]
                    npair += 1
                    R.check(bool(sib), "C13.R3", f.file, s.line, f.name, "%s paired with a store to %s[%s]" % (estr_top(s.e), loutp, x),
                            "a cell is marked done (l=0) without its label being written in the same block: a later walk "
                            "that stops there copies the previous content of the output buffer")
    if npair < 3:
        R.fail("C13.R3 found %d 'l[x] = 0' stores, expected at least 3" % npair)
    # data-dependent reads of lout only where l[idx] == 0
    cfg = lm.cfg
    lp, loutp = lm.params[2].name, lm.params[1].name
    reg = omp.collect_accesses(lm, tus)
    nchk = 0
    for n in cfg.nodes:
        if n.e is None or n.id not in cfg.reachable():
            continue
        W, Rr = [], []
        cfront.writes_reads(n.e, W, Rr)
        for x in Rr:
            if x.k == "idx" and x.a[0].k == "var" and x.a[0].name == loutp:
                it = estr(x.a[1])
                # affine reads (row starts) are stage-1 defined cells; data-dependent ones need the l[idx]==0 guard
                acc = [a for a in reg.acc if a.text == estr(x) and a.rw == "r"]
                dd = any(a.idx is None or omp.is_datadep(a.idx) for a in acc)
                if not dd:
                    continue
                nchk += 1
                # l[idx] == 0 in any spelling: 'while (l[q])' left, '!(l[q] != 0)', 'l[q] == 0' taken
                facts = crules.rel_facts(cfg, n.id)
                want_ = crules.lin(x.a[1])
                from engine.poly import Poly as _P
                ok = want_ is not None and crules.fact("==", _P.atom(("load", "%s[%s]" % (lp, repr(want_))))) in facts
                R.check(ok, "C13.R3", FILE, x.line, lm.name, "read %s guarded by %s[%s] == 0" % (estr(x), lp, it),
                        "a label is copied from a pixel that is not known to be finished (l != 0): its lout value may be "
                        "the previous content of the output buffer")
    if nchk < 1:
        R.fail("C13.R3: no data-dependent read of lout found (anchor moved)")
    # the walk stage (the last parallel region) is the only writer of the interior of lout for non-maximum pixels: a return that is
    # not dominated by it hands back whatever the buffer held before the call for those pixels
    cfg = lm.cfg
    regions = [n_ for n_ in cfg.find_nodes(lambda n_: n_.k == "omp_end")]
    rets = [n_ for n_ in cfg.find_nodes(lambda n_: n_.k == "return")]
    R.shape(bool(regions) and bool(rets), "C13.R3", FILE, "localmaxlabel", "the parallel regions and the return statements")
    last = max(regions, key=lambda n_: n_.line or 0)
    dims = [p_.name for p_ in lm.params if (p_.ty or "").strip() == "int"]
    for rn in rets:
        dominated = last.id in cfg.dominators(rn.id)
        if not dominated and len(dims) == 2:
            # an exit for images that have no interior pixel at all (fewer than 3 rows or columns) skips stages that would not write
            # anything: decided by evaluating the conditions on the way to the return for all shapes 0..6 x 0..6 - they must mention
            # nothing but the two dimensions, and hold only where one of them is below 3
            # the conditions on the way to the return: the tests of the enclosing if statements (a short-circuit '||' has no single
            # dominating branch in the flow graph, so the statement structure is used)
            conds = []

            def find(st_, chain):
                if st_ is rn.s:
                    conds.extend(chain)
                    return True
                if st_ is None:
                    return False
                if st_.k == "if":
                    return find(st_.then, chain + [(st_.cond, True)]) or find(getattr(st_, "els", None), chain + [(st_.cond, False)])
                if st_.k == "block":
                    return any(find(x_, chain) for x_ in st_.body)
                return False
            top_level = find(lm.body, [])
            try:
                if not top_level:
                    raise crules.NotEvaluable("return inside a loop or other construct")
                holds_at = []
                for a_ in range(7):
                    for b_ in range(7):
                        env = {dims[0]: a_, dims[1]: b_}
                        if all(bool(crules.ceval(e_, env)) == pol_ for e_, pol_ in conds):
                            holds_at.append((a_, b_))
                if conds and all(a_ < 3 or b_ < 3 for a_, b_ in holds_at):
                    R.inst("C13.R3", "%s:localmaxlabel return at a shape test that holds only without interior pixels (%s)" % (
                        FILE, " && ".join(("" if pol_ else "!") + "(" + estr(e_) + ")" for e_, pol_ in conds)))
                    continue
            except crules.NotEvaluable:
                pass
        R.check(dominated, "C13.R3", FILE, rn.line, "localmaxlabel", "return %s after the walk stage" % (estr(rn.e) if rn.e is not None else ""),
                "this return is reached without running the walk stage, the only place where the interior labels of non-maximum pixels are "
                "written: for such a frame (e.g. no interior maximum) the output keeps the labels of whatever was in the buffer before")


# --------------------------------------------------------------------------------------------------
def r4(R, tus):
    R.rule("C13.R4", "sparse_localmaxlabel and sparse_smooth contain no OpenMP construct (documented single threaded)")
    for name in ("sparse_localmaxlabel", "sparse_smooth"):
        f = cfront.find_func(tus, name, "src/sparse_image.c")
        d = [s for s in swalk(f.body) if s.k == "omp"]
        R.check(not d, "C13.R4", f.file, f.line, name, "OpenMP directives: %d" % len(d),
                "the sparse kernel walks shared pointers sequentially; a parallel construct here needs its own analysis")


# --------------------------------------------------------------------------------------------------
NotEvaluable = crules.NotEvaluable
ceval = crules.ceval


def r9(R, tus):
    """sparse_localmaxlabel links the current pixel k with an earlier stored pixel p (iMV[p] = k or iMV[k] = p) only when p is one of
    its 8-neighbours.  The input is sorted row-major, so p < k means (row distance di = i[p] - i[k] < 0) or (di == 0 and column
    distance dj = j[p] - j[k] < 0).  The conditions that dominate each link (if / loop conditions, scalars such as ir = i[k] - 1
    substituted) are evaluated for every admissible (di, dj) in [-3, 0] x [-3, 3]: a link that executes for a pixel two or more rows
    up, or on the same row but not in the previous column, or on the row above more than one column to the right, joins pixels that
    are not neighbours.  (The left limit on the row above comes from the cursor that the scan advances, not from a condition, and is
    not part of this rule.)"""
    R.rule("C13.R9", "sparse_localmaxlabel: the conditions dominating every uphill link between pixel k and an earlier pixel p admit p only on "
                     "the row above (column distance <= 1) or in the previous column of the same row - finite case analysis over row / column "
                     "distances in [-3, 0] x [-3, 3] for sorted input")
    f = cfront.find_func(tus, "sparse_localmaxlabel", "src/sparse_image.c")
    cfg = f.cfg
    defs0 = cfront.scalar_defs(f)
    pn = [p.name for p in f.params]
    R.shape(len(pn) >= 6, "C13.R9", f.file, f.name, "the parameters v, i, j, nnz, MV, iMV, ...")
    V, I, J = pn[0], pn[1], pn[2]
    IMV = pn[5]
    links = []
    for n in cfg.find_nodes(lambda n: n.k == "expr" and n.e is not None and n.e.k == "asg" and n.e.op == "="):
        lhs, rhs = n.e.a[0], n.e.a[1]
        if lhs.k == "idx" and estr(lhs.a[0]) == IMV:
            a, b = estr(lhs.a[1]).replace(" ", "").strip("()"), estr(rhs).replace(" ", "").strip("()")
            if a != b and rhs.k in ("var", "paren", "cast") and not b.isdigit():
                links.append((n, a, b))
    R.shape(len(links) >= 4, "C13.R9", f.file, f.name, "the link stores iMV[p] = k / iMV[k] = p (found %d)" % len(links))
    # the current pixel is the index of the outer loop: the name that occurs in every link
    names = [set((a, b)) for _, a, b in links]
    common = set.intersection(*names)
    K = None
    for n in cfg.find_nodes(lambda n: n.k in ("expr", "decl") and n.e is not None and n.e.k == "asg" and n.e.op == "="):
        l_, r_ = estr(n.e.a[0]).replace(" ", ""), estr(n.e.a[1]).replace(" ", "").strip("()")
        for x in common:
            if l_ in common and l_ != x and r_ == "%s-1" % x:      # p = k - 1 : the previous stored pixel of the current pixel k
                K = x
    R.shape(K is not None and len(common) == 2, "C13.R9", f.file, f.name, "the current pixel index k (from 'p = k - 1') among %s" % sorted(common))
    for n, a, b in links:
        P = b if a == K else a
        defs = dict(defs0)
        defs.update(crules.local_defs(cfg, n.id))
        guards = []
        PS = (P, "%s-1" % K)        # the scalar definitions substitute p = k - 1
        mine = {"%s[%s]" % (x, y) for x in (I, J) for y in (K,) + PS}
        for e, pol in cfg.guards(n.id):
            e2 = cfront.esubst(e, defs, 4)
            cells = set(estr(x).replace(" ", "") for x in ewalk(e2) if x.k == "idx")
            if cells and cells <= mine:
                guards.append((e2, pol))
        bad = None
        try:
            for di in range(-3, 1):
                for dj in range(-3, 4):
                    if di == 0 and dj >= 0:
                        continue
                    env = {"%s[%s]" % (I, K): 5, "%s[%s]" % (J, K): 5, "__int32__": True}
                    for y in PS:
                        env["%s[%s]" % (I, y)] = 5 + di
                        env["%s[%s]" % (J, y)] = 5 + dj
                    if all(bool(ceval(e2, env)) == pol for e2, pol in guards):
                        neighbour = (di == -1 and dj <= 1) or (di == 0 and dj == -1)
                        if not neighbour and bad is None:
                            bad = (di, dj)
        except NotEvaluable as ex:
            R.shape(False, "C13.R9", f.file, f.name, "the conditions of the link at line %s as a function of the row / column distance (%s)" % (n.line, ex))
        R.check(bad is None, "C13.R9", f.file, n.line, f.name, "link %s[%s] = %s under %s" % (IMV, a, b, " && ".join(("" if pol else "!") + estr(e2) for e2, pol in guards)[:120]),
                "the link executes for an earlier pixel at row distance %s, column distance %s (admissible for sorted input, e.g. the last pixel of a "
                "row two or more rows up when the rows between are empty): two pixels that are not neighbours are joined, the lower peak "
                "is merged into the higher one and the number of labels no longer equals the number of local maxima"
                % (bad if bad else ("-", "-")),
                desc="%s:%s link %s[%s] = %s only between 8-neighbours" % (f.file, f.name, IMV, a, b))
    R.floor("C13.R9", 4)


def r6(R, tus):
    """sparse_smooth(v, i, j, s): s[k] = sum over stored pixels p with |i[p]-i[k]| <= 1 and |j[p]-j[k]| <= 1 of w(di, dj) v[p], with
    w = 4/16 at the centre, 2/16 for edge neighbours and 1/16 for corners (source comment: 1 2 1 / 2 3 2 / 1 2 1 plus the copy).  The
    conditions under which the accumulation executes are evaluated for every (di, dj) in [-3, 3]^2: guards of the statement
    (if / while conditions, scalar definitions substituted), plus the lower bound di >= -1 when the cursor starts at a position
    that a dominating advancing loop has moved to the first pixel of row i[k] - 1 and only moves forward (sorted input)."""
    R.rule("C13.R6", "sparse_smooth: the accumulation into s[k] executes for exactly the pixels with |di| <= 1 and |dj| <= 1 and with the "
                     "weights 4/16 (centre, copy included), 2/16 (edge), 1/16 (corner) - finite case analysis over (di, dj) in [-3, 3]^2 and the far distances +-46340, +-46341, +-65535 with C int arithmetic")
    from fractions import Fraction
    f = cfront.find_func(tus, "sparse_smooth", "src/sparse_image.c")
    cfg = f.cfg
    defs0 = cfront.scalar_defs(f)
    pn = [p.name for p in f.params]
    R.shape(len(pn) == 5, "C13.R6", f.file, f.name, "the five parameters v, i, j, nnz, s")
    V, I, J, NNZ, S_ = pn
    accs = []
    copies = []
    for n in cfg.find_nodes(lambda n: n.k == "expr" and n.e is not None and n.e.k == "asg"):
        lhs = n.e.a[0]
        if lhs.k == "idx" and estr(lhs.a[0]) == S_:
            (accs if n.e.op == "+=" else copies).append(n)
    R.shape(len(accs) == 1 and len(copies) == 1 and copies[0].e.op == "=", "C13.R6", f.file, f.name,
            "one initial copy s[k] = ... and one accumulation s[k] += ... (found %d / %d)" % (len(copies), len(accs)))
    acc = accs[0]
    defs = dict(defs0)
    defs.update(crules.local_defs(cfg, acc.id))
    kidx = estr(acc.e.a[0].a[1]).replace(" ", "")
    rhs = cfront.esubst(acc.e.a[1], defs, 4)
    loads = [x for x in ewalk(rhs) if x.k == "idx" and estr(x.a[0]) == V]
    R.shape(len(loads) == 1, "C13.R6", f.file, f.name, "the single load of v[] in the accumulated term")
    pidx = estr(loads[0].a[1]).replace(" ", "")
    R.shape(pidx != kidx, "C13.R6", f.file, f.name, "a neighbour index different from the pixel index")
    m_def = defs.get("m")

    def env_for(di, dj):
        ik, jk = max(0, -di), max(0, -dj)      # coordinates are uint16: 0 .. 65535
        env = {"%s[%s]" % (I, kidx): ik, "%s[%s]" % (J, kidx): jk, "%s[%s]" % (I, pidx): ik + di, "%s[%s]" % (J, pidx): jk + dj,
               "%s[%s]" % (V, pidx): Fraction(1), "__int32__": True}
        return env
    far = [-65535, -46341, -46340, 46340, 46341, 65535]    # |d| * |d| passes 2^31 at 46341
    # guards of the accumulation that mention the coordinate arrays
    guards = []
    for e, pol in cfg.guards(acc.id):
        e2 = cfront.esubst(e, defs, 4)
        cells = set(estr(x).replace(" ", "") for x in ewalk(e2) if x.k == "idx")
        mine = {"%s[%s]" % (a, b) for a in (I, J) for b in (kidx, pidx)}
        if cells and cells <= mine:
            guards.append((e2, pol, e))
    # lower bound from the advancing loop: the cursor variable is initialised from a variable c0 at a node where the fact
    # !(i[c0] < i[k] - 1) holds (exit of 'while (i[c0] < i[k] - 1) c0++'), and is otherwise only incremented
    lower = False
    cur = loads[0].a[1]
    if cur.k == "var":
        writes = [n for n in cfg.find_nodes(lambda n: n.k in ("expr", "decl") and n.e is not None) if
                  (n.e.k == "asg" and estr(n.e.a[0]) == cur.name) or (n.e.k == "incdec" and estr(n.e.a[0]) == cur.name)]
        inits = [n for n in writes if n.e.k == "asg" and n.e.op == "="]
        others = [n for n in writes if n not in inits]
        fwd = all((n.e.k == "incdec" and n.e.op == "++") or (n.e.k == "asg" and n.e.op == "+=" and estr(n.e.a[1]) == "1") for n in others)
        if len(inits) == 1 and fwd and inits[0].e.a[1].k == "var" and cfg.dominators(acc.id).count(inits[0].id):
            c0 = inits[0].e.a[1].name
            for e, pol in cfg.guards(inits[0].id):
                r = crules.rel_lin(e, pol, defs)
                if r is None:
                    continue
                want = crules.rel_lin_text("%s[%s] >= %s[%s] - 1" % (I, c0, I, kidx)) if hasattr(crules, "rel_lin_text") else None
                txt = estr(cfront.esubst(e, defs, 4)).replace(" ", "").replace("(int)", "")
                if not pol and txt in ("(%s[%s]<(%s[%s]-1))" % (I, c0, I, kidx), "((%s[%s]+1)<%s[%s])" % (I, c0, I, kidx)):
                    lower = True
                if pol and txt in ("(%s[%s]>=(%s[%s]-1))" % (I, c0, I, kidx), "((%s[%s]+1)>=%s[%s])" % (I, c0, I, kidx)):
                    lower = True
            # c0 itself only moves forward
            w0 = [n for n in cfg.find_nodes(lambda n: n.k == "expr" and n.e is not None) if
                  (n.e.k == "asg" and estr(n.e.a[0]) == c0) or (n.e.k == "incdec" and estr(n.e.a[0]) == c0)]
            if not all((n.e.k == "incdec" and n.e.op == "++") or (n.e.k == "asg" and (n.e.op == "+=" or (n.e.op == "=" and estr(n.e.a[1]) == "0"))) for n in w0):
                lower = False
    executed = {}
    try:
        for di in list(range(-3, 4)) + far:
            for dj in list(range(-3, 4)) + far:
                env = env_for(di, dj)
                if lower and di < -1:
                    continue
                ok = all(bool(ceval(e2, env)) == pol for e2, pol, _ in guards)
                if ok:
                    env2 = dict(env)
                    if m_def is not None:
                        env2["m"] = Fraction(ceval(m_def, {})) if True else None
                    w = Fraction(ceval(rhs, env2))
                    executed[(di, dj)] = w
    except NotEvaluable as ex:
        R.shape(False, "C13.R6", f.file, f.name, "a guard / weight of the accumulation as a function of the row and column distance (%s)" % ex)
    # the copy
    crhs = cfront.esubst(copies[0].e.a[1], defs0, 4)
    cidx = estr(copies[0].e.a[0].a[1]).replace(" ", "")
    try:
        cw = Fraction(ceval(crhs, {"%s[%s]" % (V, cidx): Fraction(1), "m": Fraction(ceval(m_def, {})) if m_def is not None else 0}))
    except NotEvaluable as ex:
        R.shape(False, "C13.R6", f.file, f.name, "the weight of the initial copy (%s)" % ex)
    window = [(a, b) for a in (-1, 0, 1) for b in (-1, 0, 1)]
    extra = sorted(c for c in executed if c not in window)
    missing = sorted(c for c in window if c not in executed)
    R.check(not extra, "C13.R6", f.file, acc.line, f.name, "accumulation executes only inside the 3x3 window (guards: %s%s)" % (
        " && ".join(("%s" if pol else "!(%s)") % estr(o) for _, pol, o in guards), "; cursor starts at the first pixel of row i[k]-1" if lower else ""),
        "a stored pixel at (row, column) distance %s from pixel k is added into s[k]: nothing on the path bounds that distance%s" % (
            extra[:4], " (with an empty row between two populated rows the cursor still points into the earlier row)" if any(abs(c[0]) < 10 and abs(c[1]) < 10 for c in extra)
            else " - the distance test is evaluated in int and wraps around for coordinates 46341 or more apart (46341^2 > 2^31 - 1), so a far "
                 "away pixel passes it and is added with a huge weight"))
    R.check(not missing, "C13.R6", f.file, acc.line, f.name, "every cell of the 3x3 window is added",
            "the neighbour at (row, column) distance %s is never added" % (missing[:4],))
    want = {(a, b): Fraction(3 - a * a - b * b, 16) for a, b in window}
    bad = [(c, executed[c]) for c in window if c in executed and executed[c] + (cw if c == (0, 0) else 0) != want[c] + (Fraction(1, 16) if c == (0, 0) else 0)]
    R.check(not bad, "C13.R6", f.file, acc.line, f.name, "weights (3 - di^2 - dj^2)/16, centre 4/16 with the copy",
            "the weight of the neighbour at distance %s is %s, expected %s" % (bad[0][0] if bad else "", bad[0][1] if bad else "", want[bad[0][0]] if bad else ""))


# --------------------------------------------------------------------------------------------------
def r7(R):
    """'... for any previous content of the output and work buffers' at the Python entry points: the label / signal array that
    sparseframe.sparse_localmax, sparse_connected_pixels and sparse_smooth hand over (frame.set_pixels(name, array, ...) or return) is
    made in that call.  An array kept in module-level state and handed out again belongs to two frames at once: the second call
    overwrites the labelling stored by the first.  (Work arrays that the kernel fully rewrites may be shared.)"""
    import ast
    from engine import pyfacts
    from engine.pyfacts import src
    SPF = "ImageD11/sparseframe.py"
    R.rule("C13.R7", "sparseframe.sparse_localmax / sparse_connected_pixels / sparse_smooth: the array handed to frame.set_pixels() or returned "
                     "does not come out of module-level state that the module keeps between calls")
    m = pyfacts.module(R, SPF)
    n = 0
    for q in ("sparse_localmax", "sparse_connected_pixels", "sparse_smooth"):
        fn = m.func(q)
        outs = []
        for c in ast.walk(fn):
            if isinstance(c, ast.Call) and isinstance(c.func, ast.Attribute) and c.func.attr == "set_pixels" and len(c.args) >= 2:
                outs.append((c.args[1], "frame.set_pixels(%s, %s, ...)" % (src(c.args[0]), src(c.args[1]))))
            if isinstance(c, ast.Return) and c.value is not None and isinstance(c.value, ast.Name):
                defs_ = [a.value for a in ast.walk(fn) if isinstance(a, ast.Assign) and any(isinstance(t, ast.Name) and t.id == c.value.id for t in a.targets)]
                if defs_ and all(isinstance(d_, ast.Call) and (pyfacts.dotted(d_.func) or "").startswith("cImageD11.") for d_ in defs_):
                    continue      # the count returned by the kernel, not an array
                outs.append((c.value, "return %s" % src(c.value)))
        R.shape(bool(outs), "C13.R7", SPF, q, "the array stored with set_pixels or returned")
        for node, what in outs:
            n += 1
            hit = pyfacts.from_module_state(m, fn, node)
            R.check(hit is None, "C13.R7", SPF, node.lineno, q, "%s is made in this call" % what,
                    "%s hands out an array taken from the module-level %s (%s): two frames labelled one after the other then share ONE label array, "
                    "and the labels stored for the first frame are silently overwritten by the second call" % (
                        what, hit[0] if hit else "", src(hit[1])[:60] if hit else ""))
    R.floor("C13.R7", 3)


# --------------------------------------------------------------------------------------------------
def r8(R, tus):
    """the hand-rolled partition of the walk stage: lo = npx * tid / nt, hi = npx * (tid + 1) / nt.  The image has up to 2^31 - 1 pixels
    (int indices), so npx * (tid + 1) needs more than 32 bits as soon as npx * nt >= 2^31 (8192 x 8192 pixels with 32 threads): in int
    arithmetic hi wraps negative, the last threads do nothing and their block keeps its previous content - the result depends on the
    thread count.  The product with the thread index must be formed in a 64-bit type."""
    R.rule("C13.R8", "localmaxlabel walk stage: the thread partition lo / hi multiplies the pixel count by the thread index in a 64-bit type "
                     "(int64_t / long / size_t), not in int")
    f = cfront.find_func(tus, "localmaxlabel", FILE)
    n = 0
    for st, x in cfront.all_exprs(f.body):
        if not (x.k == "asg" and x.op == "=" and x.a[0].k == "var" and x.a[0].name in ("lo", "hi")):
            continue
        rhs = x.a[1]
        if not any(y.k == "var" and y.name == "tid" for y in ewalk(rhs)):
            continue
        n += 1
        prods = [y for y in ewalk(rhs) if y.k == "bin" and y.op == "*" and any(z.k == "var" and z.name == "tid" for z in ewalk(y))
                 and any(z.k == "var" and z.name in ("dim0", "dim1") for z in ewalk(y))]
        if not prods:
            # e.g. (npx / nt) * tid : the pixel count is divided first - cannot overflow
            R.inst("C13.R8", "%s:%s %s does not multiply the pixel count by the thread index" % (FILE, f.name, estr_top(x)))
            continue
        wide = all(any(w in (y.ty or "") for w in ("long", "int64", "size_t", "ptrdiff", "uint64")) for y in prods)
        R.check(wide, "C13.R8", FILE, x.line, f.name, "%s computed in %s" % (estr_top(x)[:60], prods[0].ty),
                "dim0 * dim1 * (thread index) is evaluated in int: it overflows when pixels x threads reaches 2^31 (8192 x 8192 image with 32 "
                "threads, 4096 x 8192 with 64), the bound wraps negative, the last threads label nothing and the non-maximum pixels of "
                "their block keep their previous content - a different result for a different thread count")
    R.shape(n >= 2, "C13.R8", FILE, f.name, "the partition bounds lo / hi as functions of the thread index (found %d)" % n)
