"""C03  Reflection lists are complete, sound and correctly grouped into rings.

Decided: R1 the centring dispatch table maps every letter to the rule of that letter and covers exactly the
accepted letters; R2 each absence rule equals the crystallographic condition on all residues mod 6 (exact
for these predicates); R3 makerings puts every reflection of the list into exactly one ring, consecutively;
R4 the generator consults the absence rule on the only path that keeps a reflection, compares strictly with
the limit and skips (000); R5 the (peaks, limit) cache is coherent: whatever gethkls returns is what it
stored together with its limit.
NOT decided (said plainly): completeness of the signed axis walk for oblique cells - the properties file itself
records that triclinic cells lose reflections; no structural rule implies or refutes the reach of that search.
"""
import ast
import itertools

from engine import pyfacts
from engine.pyfacts import src

PID = "C03"
REL = "ImageD11/unitcell.py"

TABLE = {
    "P": lambda h, k, l: False,
    "A": lambda h, k, l: (k + l) % 2 != 0,
    "B": lambda h, k, l: (h + l) % 2 != 0,
    "C": lambda h, k, l: (h + k) % 2 != 0,
    "I": lambda h, k, l: (h + k + l) % 2 != 0,
    "F": lambda h, k, l: not (h % 2 == k % 2 == l % 2),
    "R": lambda h, k, l: (-h + k + l) % 3 != 0,
}
WORDS = {"P": "none", "A": "k+l odd", "B": "h+l odd", "C": "h+k odd", "I": "h+k+l odd", "F": "h,k,l of mixed parity",
         "R": "-h+k+l not a multiple of 3 (obverse setting)"}


class NotCongruence(Exception):
    pass


def cong_eval(e, env):
    """evaluate an integer predicate; only operators that factor through Z/6Z are allowed"""
    if isinstance(e, ast.Constant):
        if isinstance(e.value, bool) or isinstance(e.value, int):
            return e.value
        raise NotCongruence("constant %r" % (e.value,))
    if isinstance(e, ast.Name):
        if e.id in env:
            return env[e.id]
        raise NotCongruence("name %s" % e.id)
    if isinstance(e, ast.UnaryOp):
        v = cong_eval(e.operand, env)
        if isinstance(e.op, ast.USub):
            return -v
        if isinstance(e.op, ast.UAdd):
            return v
        if isinstance(e.op, ast.Not):
            return not v
        raise NotCongruence("unary op")
    if isinstance(e, ast.BinOp):
        a, b = cong_eval(e.left, env), cong_eval(e.right, env)
        if isinstance(e.op, ast.Add):
            return a + b
        if isinstance(e.op, ast.Sub):
            return a - b
        if isinstance(e.op, ast.Mult):
            return a * b
        if isinstance(e.op, ast.Mod):
            if not (isinstance(e.right, ast.Constant) and e.right.value in (2, 3, 6)):
                raise NotCongruence("modulus %s" % src(e.right))
            return a % b
        if isinstance(e.op, ast.BitAnd) and isinstance(e.right, ast.Constant) and e.right.value == 1:
            return a & 1
        raise NotCongruence("operator %s" % type(e.op).__name__)
    if isinstance(e, ast.Compare):
        left = cong_eval(e.left, env)
        # comparisons are only congruence-safe when both sides are residues (results of %) or constants
        for side in [e.left] + list(e.comparators):
            if not (isinstance(side, ast.Constant) or (isinstance(side, ast.BinOp) and isinstance(side.op, (ast.Mod, ast.BitAnd)))):
                raise NotCongruence("comparison of a non-residue: %s" % src(side))
        for op, right in zip(e.ops, e.comparators):
            r = cong_eval(right, env)
            ok = {ast.Eq: left == r, ast.NotEq: left != r, ast.Lt: left < r, ast.Gt: left > r, ast.LtE: left <= r, ast.GtE: left >= r}.get(type(op))
            if ok is None:
                raise NotCongruence("comparison op")
            if not ok:
                return False
            left = r
        return True
    if isinstance(e, ast.BoolOp):
        vals = [cong_eval(v, env) for v in e.values]
        return all(vals) if isinstance(e.op, ast.And) else any(vals)
    if isinstance(e, ast.IfExp):
        return cong_eval(e.body if cong_eval(e.test, env) else e.orelse, env)
    raise NotCongruence(type(e).__name__)


def run(R):
    m = pyfacts.module(R, REL)
    if R.want("C03.R1"):
        r1(R, m)
    if R.want("C03.R2"):
        r2(R, m)
    if R.want("C03.R3"):
        r3(R, m)
    if R.want("C03.R4"):
        r4(R, m)
    if R.want("C03.R5"):
        r5(R, m)


def outif_table(m):
    d = m.global_assign("outif")
    if not isinstance(d, ast.Dict):
        # built some other way ( dict((f.__name__, f) for f in (P, A, ...)) ): evaluate the expression
        from engine import vn_py
        try:
            val = vn_py.Interp({"unitcell": m}).expr(m, d, {})
        except Exception as ex:
            raise pyfacts.AnalysisError("unitcell.outif is neither a dict literal nor an expression the interpreter can evaluate: %s" % ex)
        if not (isinstance(val, dict) and all(isinstance(k, str) and isinstance(v, tuple) and len(v) == 3 and v[0] == "func" for k, v in val.items())):
            raise pyfacts.AnalysisError("unitcell.outif does not evaluate to a {letter: function} dictionary")
        return {k: (v[2].name, d.lineno) for k, v in val.items()}
    out = {}
    for k, v in zip(d.keys, d.values):
        if not (isinstance(k, ast.Constant) and isinstance(v, ast.Name)):
            raise pyfacts.AnalysisError("unitcell.outif entries must be 'letter': function")
        out[k.value] = (v.id, k.lineno)
    return out


def r1(R, m):
    R.rule("C03.R1", "outif maps every centring letter K to the absence function named K, and its keys are exactly the letters "
                     "unitcell.__init__ accepts")
    tab = outif_table(m)
    for k, (fn, line) in sorted(tab.items()):
        R.check(fn == k, "C03.R1", REL, line, "outif", "outif[%r] = %s" % (k, fn),
                "centring %r dispatches to the rule of centring %r: reflections allowed by %s-centring are dropped and forbidden "
                "ones listed" % (k, fn, k))
    init = m.func("unitcell.__init__")
    acc = [n for n in ast.walk(init) if isinstance(n, ast.Compare) and isinstance(n.ops[0], (ast.NotIn, ast.In)) and src(n.left) == "symmetry"
           and isinstance(n.comparators[0], (ast.List, ast.Tuple))]
    R.shape(len(acc) == 1, "C03.R1", REL, "unitcell.__init__", "the list of accepted centring letters")
    letters = [e.value for e in acc[0].comparators[0].elts]
    R.check(set(letters) == set(tab), "C03.R1", REL, acc[0].lineno, "unitcell.__init__", "accepted %s vs outif keys %s" % (sorted(letters), sorted(tab)),
            "a centring letter is accepted without a rule (KeyError) or has a rule but is rejected")
    use = [a for a in ast.walk(init) if isinstance(a, ast.Assign) and src(a.targets[0]) == "self.absent"]
    R.check(len(use) == 1 and src(use[0].value) == "outif[self.symmetry]", "C03.R1", REL, init.lineno, "unitcell.__init__",
            "self.absent = outif[self.symmetry]", "the absence rule is not taken from the table by the cell's own symmetry letter")


def r2(R, m):
    R.rule("C03.R2", "each absence function equals the crystallographic condition on all 216 residue classes of (h,k,l) mod 6 "
                     "(exact: the functions only use + - * and % 2/3)")
    for letter in sorted(TABLE):
        if letter not in m.funcs:
            R.fail("absence function %s vanished" % letter)
        fn = m.funcs[letter]
        rets = [s for s in fn.body if isinstance(s, ast.Return)]
        body = [s for s in fn.body if not (isinstance(s, ast.Expr) and isinstance(s.value, ast.Constant))]
        R.shape(len(body) == 1 and len(rets) == 1, "C03.R2", REL, letter, "a single return expression")
        args = [a.arg for a in fn.args.args]
        R.shape(len(args) == 3, "C03.R2", REL, letter, "three arguments h,k,l")
        bad = None
        n = 0
        try:
            # residues mod 6 shifted to include negatives: (h,k,l) in -6..5 covers every class with both signs
            for h, k, l in itertools.product(range(-6, 6), repeat=3):
                got = bool(cong_eval(rets[0].value, dict(zip(args, (h, k, l)))))
                n += 1
                if got != TABLE[letter](h, k, l):
                    bad = (h, k, l, got)
                    break
        except NotCongruence as ex:
            R.fail("C03.R2: %s uses a construct outside the congruence domain: %s" % (letter, ex))
        R.check(bad is None, "C03.R2", REL, fn.lineno, letter, "%s(h,k,l) == [%s] on %d residue triples" % (letter, WORDS[letter], n),
                "absence rule for %s-centring differs from the crystallographic condition (%s), e.g. hkl=%s gives %s" % (
                    letter, WORDS[letter], bad[:3] if bad else None, bad[3] if bad else None))


def r3(R, m):
    R.rule("C03.R3", "makerings: first reflection seeds the first ring, the loop visits all the others, every path appends the "
                     "reflection to exactly one ring and a new ring is keyed by its own d-star")
    fn = m.ifunc("unitcell.makerings", keep=("gethkls", "gethkls_xfab"))   # normal form (index / while loops read as 'for <item> in <sequence>'), private helpers in place
    loops = [n for n in ast.walk(fn) if isinstance(n, ast.For)]
    R.shape(len(loops) == 1, "C03.R3", REL, "unitcell.makerings", "the loop over the sorted reflections")
    lp = loops[0]
    it = src(lp.iter).replace(" ", "")
    R.shape(it.startswith("self.peaks"), "C03.R3", REL, "unitcell.makerings", "a loop over self.peaks[...]")
    R.check(it == "self.peaks[1:]", "C03.R3", REL, lp.lineno, "unitcell.makerings", "loop over %s" % src(lp.iter),
            "the grouping loop must visit every reflection after the first exactly once")
    cfg0 = pyfacts.PyCFG(fn)
    seed = [a for a in ast.walk(fn) if isinstance(a, ast.Assign) and src(a.value).replace(" ", "") == "self.peaks[0]" and cfg0.node_of(a) is not None
            and cfg0.node_of(lp) is not None and cfg0.dominates(cfg0.node_of(a), cfg0.node_of(lp))]
    if not seed:
        # the first reflection handed straight on (to a helper read in place): statements before the loop that put self.peaks[0][0] /
        # self.peaks[0][1] into the ring tables
        firsts = [st_ for st_ in ast.walk(fn) if isinstance(st_, (ast.Expr, ast.Assign)) and "self.peaks[0]" in src(st_).replace(" ", "") and "ring" in src(st_)
                  and cfg0.node_of(st_) is not None and cfg0.dominates(cfg0.node_of(st_), cfg0.node_of(lp))]
        if len(firsts) >= 2:
            seed = firsts[:1]
    R.check(len(seed) == 1, "C03.R3", REL, fn.lineno, "unitcell.makerings", "<first> = self.peaks[0] seeds the first ring",
            "the first reflection is not placed in a ring")
    # the path analysis below understands the form  for peak in ...: self.ringds / self.ringhkls  with peak[0], peak[1]
    R.shape(isinstance(lp.target, ast.Name) and "self.ringds" in src(lp) and "self.ringhkls" in src(lp), "C03.R3", REL, "unitcell.makerings",
            "the loop body in the form 'for peak in ...: ... self.ringds ... self.ringhkls[...]' (other spellings are not analysed)")
    R.check(not any(isinstance(x, (ast.Break, ast.Continue, ast.Return)) for x in ast.walk(lp)), "C03.R3", REL, lp.lineno, "unitcell.makerings",
            "no early exit from the grouping loop", "reflections can be skipped")
    # paths through the loop body: enumerate via the if/else structure
    var = src(lp.target)

    def paths(stmts):
        out = [[]]
        for s in stmts:
            if isinstance(s, ast.If):
                a, b = paths(s.body), paths(s.orelse)
                out = [p + q for p in out for q in a + b]
            else:
                out = [p + [s] for p in out]
        return out
    npaths = 0
    for pth in paths(lp.body):
        npaths += 1
        appended = 0
        newring_ok = True
        for s in pth:
            u = src(s)
            if isinstance(s, ast.Expr) and isinstance(s.value, ast.Call) and isinstance(s.value.func, ast.Attribute) and s.value.func.attr == "append":
                if "ringhkls" in src(s.value.func.value) and src(s.value.args[0]) == "%s[1]" % var:
                    appended += 1
                elif src(s.value.func.value) == "self.ringds":
                    newring_ok = newring_ok and src(s.value.args[0]) == "%s[0]" % var
            if isinstance(s, ast.Assign) and "ringhkls" in src(s.targets[0]):
                if src(s.value) == "[%s[1]]" % var:
                    appended += 1
                else:
                    newring_ok = False
        R.check(appended == 1 and newring_ok, "C03.R3", REL, lp.lineno, "unitcell.makerings",
                "path %d of the loop body puts %s[1] in exactly one ring (found %d)" % (npaths, var, appended),
                "a reflection is dropped from, or added twice to, the rings on one branch; or a ring is keyed by a foreign d-star")
    # the consecutive-difference test uses the last ring's d-star and the tolerance strictly
    tests = [n for n in ast.walk(lp) if isinstance(n, ast.If)]
    R.check(len(tests) == 1 and isinstance(tests[0].test, ast.Compare) and isinstance(tests[0].test.ops[0], ast.Lt)
            and "self.ringds[-1]" in src(tests[0].test.left) and src(tests[0].test.comparators[0]) == "tol", "C03.R3", REL, lp.lineno,
            "unitcell.makerings", "join test %s" % [src(t.test) for t in tests], "a reflection joins the current ring iff |d* - ring d*| < tol")
    # input list comes from gethkls(limit + tol)
    first = [a for a in fn.body if isinstance(a, ast.Assign) and src(a.targets[0]) == "self.peaks"]
    # a d-star limit below the first reflection gives an empty list: the element 0 that seeds the first ring may only be read where the
    # list is known to be non-empty
    cfg3 = pyfacts.PyCFG(fn)
    for sub in [x for x in ast.walk(fn) if isinstance(x, ast.Subscript) and src(x.value) in ("self.peaks", "peaks") and pyfacts.const_int(x.slice) == 0
                and isinstance(x.ctx, ast.Load)]:
        node = cfg3.node_of(pyfacts.containing_stmt(sub))
        gs = cfg3.guards(node) if node is not None else []

        def nonempty(t, pol):
            t_ = src(t).replace(" ", "")
            for nm in ("self.peaks", "peaks"):
                if (t_ in ("len(%s)>0" % nm, "len(%s)!=0" % nm, "len(%s)>=1" % nm, nm, "0<len(%s)" % nm) and pol) or \
                        (t_ in ("len(%s)==0" % nm, "not%s" % nm, "len(%s)<1" % nm, "not(%s)" % nm) and not pol):
                    return True
            return False
        R.check(any(nonempty(t, pol) for t, pol in gs), "C03.R3", REL, sub.lineno, "unitcell.makerings", "%s is read only when the list is not empty" % src(sub),
                "for a d-star limit below the first reflection gethkls returns an empty list and %s raises IndexError (after ringds / ringhkls were "
                "already reset): a legitimate limit ends in an exception instead of 'no rings'" % src(sub))
    R.check(len(first) == 1 and pyfacts.resolved_src(fn, first[0].value, 2, keep=("self", "limit", "tol")).replace(" ", "").replace("((", "(").replace("))", ")") == "self.gethkls(limit+tol)",
            "C03.R3", REL, fn.lineno, "unitcell.makerings",
            "rings built from gethkls(limit + tol)", "rings are not built from the reflection list up to limit + tol")


def tiling_witness(fn):
    """gethkls scans its index box in blocks: `for lo in range(a, b, n)` with an inner extent  lo : U  (a slice or a range whose lower
    end is the loop variable).  The integer expressions a, b, n, U are evaluated (pure arithmetic of the source: + - * // min max int
    and names bound once to such expressions) for small box half-widths; the tiles must cover every index of range(a, b) exactly
    once.  Returns (line, text, why) for the first tiling that lists an index twice or not at all, None when there is no tiling or
    it cannot be evaluated (nothing is concluded then)."""
    defs = {}
    for s_ in ast.walk(fn):
        if isinstance(s_, ast.Assign) and len(s_.targets) == 1 and isinstance(s_.targets[0], ast.Name):
            defs.setdefault(s_.targets[0].id, []).append(s_.value)

    class No(Exception):
        pass

    def ev(e, env, depth=0):
        if depth > 8:
            raise No()
        if isinstance(e, ast.Constant) and isinstance(e.value, int) and not isinstance(e.value, bool):
            return e.value
        if isinstance(e, ast.Name):
            if e.id in env:
                return env[e.id]
            if len(defs.get(e.id, [])) == 1:
                return ev(defs[e.id][0], env, depth + 1)
            raise No()
        if isinstance(e, ast.UnaryOp) and isinstance(e.op, ast.USub):
            return -ev(e.operand, env, depth)
        if isinstance(e, ast.BinOp) and isinstance(e.op, (ast.Add, ast.Sub, ast.Mult, ast.FloorDiv)):
            a, b = ev(e.left, env, depth), ev(e.right, env, depth)
            if isinstance(e.op, ast.FloorDiv) and b == 0:
                raise No()
            return {ast.Add: a + b, ast.Sub: a - b, ast.Mult: a * b}.get(type(e.op)) if not isinstance(e.op, ast.FloorDiv) else a // b
        if isinstance(e, ast.Call) and src(e.func) in ("min", "max") and e.args and not e.keywords:
            return (min if src(e.func) == "min" else max)(ev(a, env, depth) for a in e.args)
        if isinstance(e, ast.Call) and src(e.func) == "int" and len(e.args) == 1:
            t = src(e.args[0]).replace(" ", "")
            if "dsmax" in t and "lattice_parameters" in t:
                return env["__half__"]
            return ev(e.args[0], env, depth)
        raise No()

    for loop in ast.walk(fn):
        if not (isinstance(loop, ast.For) and isinstance(loop.target, ast.Name) and isinstance(loop.iter, ast.Call) and src(loop.iter.func) == "range"
                and len(loop.iter.args) == 3):
            continue
        lo = loop.target.id
        ext = []
        for n_ in ast.walk(loop):
            if isinstance(n_, ast.Slice) and isinstance(n_.lower, ast.Name) and n_.lower.id == lo and n_.upper is not None and n_.step is None:
                ext.append((n_.upper, n_.lower.lineno))
            if isinstance(n_, ast.Call) and src(n_.func) in ("range", "np.arange", "numpy.arange") and len(n_.args) == 2 and isinstance(n_.args[0], ast.Name) \
                    and n_.args[0].id == lo:
                ext.append((n_.args[1], n_.lineno))
        for up, line in ext:
            for half in (1, 2, 3, 5, 7, 40, 63, 64, 65, 100, 129):
                try:
                    env = {"__half__": half - 1}
                    a, b, n = (ev(x, env) for x in loop.iter.args)
                    if n <= 0:
                        raise No()
                    seen = {}
                    for v in range(a, b, n):
                        e2 = dict(env)
                        e2[lo] = v
                        for i in range(v, ev(up, e2)):
                            seen[i] = seen.get(i, 0) + 1
                except No:
                    break
                twice = sorted(i for i, c in seen.items() if c > 1 and a <= i < b)
                missing = sorted(i for i in range(a, b) if i not in seen)
                if twice or missing:
                    return (line, "for %s in %s: %s:%s" % (lo, src(loop.iter), lo, src(up)),
                            "with a box half-width of %d the blocks %s step %d with inner extent [%s, %s) visit %s: every reflection on such a plane is "
                            "%s, so the list does not contain each allowed reflection exactly once"
                            % (half, src(loop.iter), n, lo, src(up), ("index %d twice" % twice[0]) if twice else ("no block for index %d" % missing[0]),
                               "listed twice (and counted twice in its ring)" if twice else "lost"))
    return None


def r4(R, m):
    R.rule("C03.R4", "gethkls keeps a reflection only under 'ds < dsmax' and 'not self.absent(h,k,l)', skips (000), enumerates a box that "
                     "contains every reflection below the limit (half-width >= dsmax * cell length per axis, no early exit), sorts the list "
                     "ascending before storing it; ds(h)^2 == h.gi.h")
    fn = m.func("unitcell.gethkls")
    cfg = pyfacts.PyCFG(fn)
    apps = [s for s in ast.walk(fn) if isinstance(s, ast.Expr) and isinstance(s.value, ast.Call) and isinstance(s.value.func, ast.Attribute)
            and s.value.func.attr == "append" and src(s.value.func.value) == "peaks"]
    R.shape(len(apps) >= 1, "C03.R4", REL, "unitcell.gethkls", "the statement that appends to the peak list")
    for a in apps:
        g = pyfacts.guard_atoms(cfg.guards(cfg.node_of(a)))      # conjunctions split, negations folded into the polarity
        R.check(("ds<dsmax", True) in g or ("dsmax>ds", True) in g or ("ds>=dsmax", False) in g, "C03.R4", REL, a.lineno, "unitcell.gethkls",
                "append guarded by ds < dsmax (strict)", "reflections at or beyond the d-star limit are listed")
        R.check(("self.absent(h,k,l)", False) in g, "C03.R4", REL, a.lineno, "unitcell.gethkls",
                "append guarded by not self.absent(h, k, l)", "systematically absent reflections are listed")
        R.check(src(a.value.args[0]).replace(" ", "") == "[ds,(h,k,l)]", "C03.R4", REL, a.lineno, "unitcell.gethkls", "entry [ds, (h, k, l)]",
                "the stored d-star or indices are not those that were tested")
    dsa = [s for s in ast.walk(fn) if isinstance(s, ast.Assign) and src(s.targets[0]) == "ds"]
    R.shape(len(dsa) == 1, "C03.R4", REL, "unitcell.gethkls", "the single assignment of ds")
    # completeness of the enumeration.  |h| = |a . g| <= |a| |g| < a * dsmax, so a box of half-width >= dsmax * a (b, c) around the origin
    # contains every reflection below the limit; a scan of a lattice line that starts at a fixed index and stops at the first
    # reflection beyond the limit does not (the indices in range form an interval that need not contain the start when the
    # reciprocal metric has off-diagonal terms).
    entry = apps[0].value.args[0]
    idx = [src(e) for e in entry.elts[1].elts] if isinstance(entry, ast.List) and len(entry.elts) == 2 and isinstance(entry.elts[1], ast.Tuple) else None
    R.shape(idx is not None and len(idx) == 3, "C03.R4", REL, "unitcell.gethkls", "the entry [ds, (h, k, l)]")
    fors = {}
    for l_ in ast.walk(fn):
        if isinstance(l_, ast.For) and isinstance(l_.target, ast.Name) and l_.target.id in idx:
            fors[l_.target.id] = l_
    whiles = [w for w in ast.walk(fn) if isinstance(w, ast.While)]
    an = cfg.node_of(apps[0])
    if len(fors) == 3 and not whiles:
        for axis, v in enumerate(idx):
            it = fors[v].iter
            okb = False
            if isinstance(it, ast.Call) and src(it.func) == "range" and len(it.args) == 2:
                lo = pyfacts.resolved(fn, it.args[0], 3, keep=("self", "dsmax"))
                hi = pyfacts.resolved(fn, it.args[1], 3, keep=("self", "dsmax"))

                def half(e):
                    """e == int(dsmax * self.lattice_parameters[axis]) + c  ->  c ; else None"""
                    c = 0
                    while isinstance(e, ast.BinOp) and isinstance(e.op, ast.Add) and pyfacts.const_int(e.right) is not None:
                        c += pyfacts.const_int(e.right)
                        e = e.left
                    if isinstance(e, ast.Call) and src(e.func) in ("int", "math.floor", "np.floor", "math.ceil", "np.ceil") and len(e.args) == 1:
                        t = src(e.args[0]).replace(" ", "")
                        for ax_ in range(3):
                            if t in ("dsmax*self.lattice_parameters[%d]" % ax_, "self.lattice_parameters[%d]*dsmax" % ax_):
                                if ax_ != axis:
                                    wrong_axis.append(ax_)
                                return c
                    return None
                wrong_axis = []
                neg = lo.operand if isinstance(lo, ast.UnaryOp) and isinstance(lo.op, ast.USub) else None
                cl = half(neg) if neg is not None else None
                ch = half(hi)
                R.shape(cl is not None and ch is not None, "C03.R4", REL, "unitcell.gethkls",
                        "the range of %s as -(int(dsmax * cell length) + c) .. int(dsmax * cell length) + c' (found %s)" % (v, src(it)[:70]))
                okb = cl >= 1 and ch >= 2 and not wrong_axis       # range's upper bound is exclusive
                R.check(okb, "C03.R4", REL, fors[v].lineno, "unitcell.gethkls", "%s runs over at least [-dsmax*|axis %d|, dsmax*|axis %d|] (%s)" % (v, axis, axis, src(it)),
                        "the box scanned for %s is smaller than dsmax times the cell length: reflections below the limit lie outside it" % v)
            else:
                R.shape(False, "C03.R4", REL, "unitcell.gethkls", "range(-M, M + 1) for %s" % v)
        early = [x for x in ast.walk(fn) if isinstance(x, ast.Break)]
        R.check(not early, "C03.R4", REL, early[0].lineno if early else fn.lineno, "unitcell.gethkls", "no break in the enumeration",
                "the scan of a lattice line / plane is cut short")
        def is_origin(t):
            """t is true exactly at h = k = l = 0: decided on the 27 index triples of {-1, 0, 1}^3 (h == 0 and k == 0 and l == 0,
            not (h or k or l), (h, k, l) == (0, 0, 0), h == k == l == 0, abs(h) + abs(k) + abs(l) == 0 ...)"""
            import itertools as _it

            class _No(Exception):
                pass

            def ev(e, env):
                if isinstance(e, ast.Constant) and isinstance(e.value, (int, bool)):
                    return e.value
                if isinstance(e, ast.Name) and e.id in env:
                    return env[e.id]
                if isinstance(e, ast.Tuple):
                    return tuple(ev(x, env) for x in e.elts)
                if isinstance(e, ast.UnaryOp) and isinstance(e.op, ast.Not):
                    return not ev(e.operand, env)
                if isinstance(e, ast.UnaryOp) and isinstance(e.op, ast.USub):
                    return -ev(e.operand, env)
                if isinstance(e, ast.BoolOp):
                    vals = [ev(v_, env) for v_ in e.values]
                    r_ = vals[0]
                    for v_ in vals[1:]:
                        r_ = (r_ and v_) if isinstance(e.op, ast.And) else (r_ or v_)
                    return r_
                if isinstance(e, ast.BinOp) and isinstance(e.op, (ast.Add, ast.Mult, ast.Sub)):
                    a_, b_ = ev(e.left, env), ev(e.right, env)
                    return a_ + b_ if isinstance(e.op, ast.Add) else (a_ * b_ if isinstance(e.op, ast.Mult) else a_ - b_)
                if isinstance(e, ast.Call) and src(e.func) == "abs" and len(e.args) == 1:
                    return abs(ev(e.args[0], env))
                if isinstance(e, ast.Compare):
                    left = ev(e.left, env)
                    for op, c_ in zip(e.ops, e.comparators):
                        right = ev(c_, env)
                        ok_ = {ast.Eq: left == right, ast.NotEq: left != right, ast.Lt: left < right, ast.LtE: left <= right,
                               ast.Gt: left > right, ast.GtE: left >= right}.get(type(op))
                        if ok_ is None:
                            raise _No()
                        if not ok_:
                            return False
                        left = right
                    return True
                raise _No()
            try:
                truth = {trip: bool(ev(t, dict(zip(idx, trip)))) for trip in _it.product((-1, 0, 1), repeat=3)}
            except _No:
                return False
            return all(v_ == (trip == (0, 0, 0)) for trip, v_ in truth.items())
        def off_origin(t):
            return is_origin(ast.UnaryOp(op=ast.Not(), operand=t))       # h != 0 or k != 0 or l != 0 (the positive form of the skip)
        R.check(any((is_origin(t) and not pol) or (off_origin(t) and pol) for t, pol in cfg.guards(an)), "C03.R4", REL, apps[0].lineno, "unitcell.gethkls", "(0,0,0) is skipped",
                "the (000) reflection (d-star 0) is listed")
        conts = [x for x in ast.walk(fn) if isinstance(x, ast.Continue)]
        for x in conts:
            gx = cfg.guards(cfg.node_of(x))
            R.check(any(is_origin(t) and pol for t, pol in gx), "C03.R4", REL, x.lineno, "unitcell.gethkls", "continue only for (0,0,0)",
                    "other reflections are skipped under %s" % [src(t) for t, pol in gx][:2])
    elif whiles:
        brk = [x for x in ast.walk(fn) if isinstance(x, ast.Break)]
        dep = [x for x in brk if any("ds" in src(t) and "dsmax" in src(t) for t, pol in cfg.guards(cfg.node_of(x)))]
        R.shape(bool(dep), "C03.R4", REL, "unitcell.gethkls", "how the walk over (h, k, l) covers every reflection below the limit")
        R.check(False, "C03.R4", REL, dep[0].lineno, "unitcell.gethkls", "walk along lattice lines from a fixed start index, left at the first reflection with ds >= dsmax",
                "the walk scans each lattice line from a fixed index (l = 0 / 1) outwards and stops in each direction at the first reflection beyond the "
                "limit; for a cell whose reciprocal metric has off-diagonal terms the in-range indices of a line form an interval that need not "
                "contain the start, so whole runs of reflections below the limit are never visited (and a row that looks empty ends the walk "
                "over k early): the list is incomplete for most triclinic cells")
    else:
        tw = tiling_witness(fn)
        if tw is not None:
            line, text, why = tw
            R.check(False, "C03.R4", REL, line, "unitcell.gethkls", "tiles of the index box: %s" % text, why)
        R.shape(False, "C03.R4", REL, "unitcell.gethkls", "the enumeration of (h, k, l): three range loops over a box, or the axis walk")
    srt = [s for s in fn.body if isinstance(s, ast.Expr) and src(s.value) == "peaks.sort()"]
    store = [s for s in fn.body if isinstance(s, ast.Assign) and src(s.targets[0]) == "self.peaks" and src(s.value) == "peaks"]
    R.check(len(srt) == 1 and len(store) == 1 and srt[0].lineno < store[0].lineno, "C03.R4", REL, fn.lineno, "unitcell.gethkls",
            "peaks.sort() before the list is stored", "rings are formed from consecutive entries: the list must be ascending in d-star")
    dsf = m.func("unitcell.ds")
    # ds(h) == sqrt(h . gi . h): value numbering of the method body with symbolic h and gi (any spelling of the two products)
    import numpy as _np
    from engine import vn, vn_py
    I = vn_py.Interp({"unitcell": m})
    H = _np.array([vn.atom("h%d" % i) for i in range(3)], dtype=object)
    GI = _np.array([[vn.atom("gi%d%d" % (min(i, j), max(i, j))) for j in range(3)] for i in range(3)], dtype=object)
    obj = vn_py.SymObject((m, m.cls("unitcell")), gi=GI)
    try:
        got = I.call_fn(m, dsf, [obj, H], {})
    except Exception as ex:     # the interpreter does not understand the new spelling: cannot decide
        raise pyfacts.AnalysisError("C03.R4: cannot value-number unitcell.ds: %s" % ex)
    want2 = vn.const(0)
    for i in range(3):
        for j in range(3):
            want2 = want2 + H[i] * GI[i][j] * H[j]
    g = vn_py.R(got)
    R.check(vn.equal(g * g, want2), "C03.R4", REL, dsf.lineno, "unitcell.ds", "ds(h)^2 == h . gi . h (symmetric gi, symbolic h)",
            "d-star is not the length from the reciprocal metric tensor: ds(h)^2 = %s" % vn_py._short(g * g))
    # the d-star tested in gethkls is that of the hkl being visited: value of the right-hand side of 'ds = ...' (a call of self.ds or
    # the same expression written out) for symbolic h, k, l
    rhs = pyfacts.resolved(fn, dsa[0].value, 3, keep=("self", "h", "k", "l", "np", "math"))
    try:
        val = I.expr(m, rhs, {"self": obj, "h": H[0], "k": H[1], "l": H[2]})
    except Exception as ex:
        raise pyfacts.AnalysisError("C03.R4: cannot value-number the d-star computed in gethkls (%s): %s" % (src(dsa[0].value)[:60], ex))
    v = vn_py.R(val)
    R.check(vn.equal(v * v, want2), "C03.R4", REL, dsa[0].lineno, "unitcell.gethkls", "ds = d-star of (h, k, l): %s" % src(dsa[0].value)[:60],
            "the tested d-star is not that of the hkl being visited")


def _extra_inputs(fn, name):
    """formals of fn other than self / dsmax that the list `name` is computed from (closure over the assignments of fn)"""
    formals = [a.arg for a in fn.args.args if a.arg not in ("self", "dsmax")]
    clo, grew = {name}, True
    while grew:
        grew = False
        for st in ast.walk(fn):
            tg = None
            if isinstance(st, ast.Assign):
                tg, val = st.targets, st.value
            elif isinstance(st, ast.AugAssign):
                tg, val = [st.target], st.value
            elif isinstance(st, ast.Expr) and isinstance(st.value, ast.Call) and isinstance(st.value.func, ast.Attribute) \
                    and st.value.func.attr in ("append", "extend", "insert"):
                tg, val = [st.value.func.value], st.value
            elif isinstance(st, ast.For):
                tg, val = [st.target], st.iter
            if tg is None:
                continue
            tn = set(x.id for t in tg for x in ast.walk(t) if isinstance(x, ast.Name))
            if tn & clo:
                new = set(x.id for x in ast.walk(val) if isinstance(x, ast.Name)) - clo
                if new:
                    clo |= new
                    grew = True
    return [a for a in formals if a in clo]


def _is_none_test(t, pol, name):
    """(t taken with polarity pol) implies  name is None"""
    if isinstance(t, ast.BoolOp) and isinstance(t.op, ast.And) and pol:
        return any(_is_none_test(v, True, name) for v in t.values)
    if isinstance(t, ast.UnaryOp) and isinstance(t.op, ast.Not):
        return _is_none_test(t.operand, not pol, name)
    if isinstance(t, ast.Compare) and len(t.ops) == 1 and isinstance(t.left, ast.Name) and t.left.id == name \
            and isinstance(t.comparators[0], ast.Constant) and t.comparators[0].value is None:
        if isinstance(t.ops[0], (ast.Is, ast.Eq)):
            return pol
        if isinstance(t.ops[0], (ast.IsNot, ast.NotEq)):
            return not pol
    return False


def r5(R, m):
    R.rule("C03.R5", "cache coherence: every list gethkls / gethkls_xfab returns is the one stored in self.peaks together with "
                     "self.limit = dsmax (a trimmed or foreign list would be cached by makerings under a stale limit)")
    for qual in ("unitcell.gethkls", "unitcell.gethkls_xfab"):
        fn = m.func(qual)
        cfg = pyfacts.PyCFG(fn)
        rets = [s for s in ast.walk(fn) if isinstance(s, ast.Return)]
        for r in rets:
            v = src(r.value) if r.value is not None else "None"
            rn = cfg.node_of(r)
            ok = False
            why = ""
            if v == "self.peaks":
                g = [(src(t), pol) for t, pol in cfg.guards(rn)]
                ok = ("dsmax == self.limit", True) in g or ("self.limit == dsmax", True) in g or ("dsmax == self.limit and self.peaks is not None", True) in g
                if not ok:
                    # test node may be a BoolOp: look inside
                    ok = any(pol and "dsmax == self.limit" in t for t, pol in g)
                why = "returns the cached list without checking that it was generated for this limit"
            elif isinstance(r.value, ast.Call) and src(r.value.func) == "self.gethkls_xfab" and r.value.args and src(r.value.args[0]) == "dsmax":
                # delegated with the neutral space-group argument (that is the list gethkls_xfab caches)
                rest = r.value.args[1:] + [kw.value for kw in r.value.keywords]
                ok = all(isinstance(a, ast.Constant) and a.value is None for a in rest)
                why = "delegates to gethkls_xfab with a space-group argument: that list is not the one cached for this limit"
            elif isinstance(r.value, ast.Name):
                nm = r.value.id
                st = [s for s in ast.walk(fn) if isinstance(s, ast.Assign) and src(s.targets[0]) == "self.peaks" and src(s.value) == nm]
                lm = [s for s in ast.walk(fn) if isinstance(s, ast.Assign) and src(s.targets[0]) == "self.limit" and src(s.value) == "dsmax"]
                stored = bool(st) and bool(lm) and all(cfg.dominates(cfg.node_of(s), rn) for s in st[:1] + lm[:1])
                # the cache is keyed by the limit alone (gethkls compares nothing else): a list that also depends on another
                # argument of the generator (the space-group name given to gethkls_xfab) may be cached only where that argument
                # has its neutral value, and may be returned uncached where it has not
                extra = _extra_inputs(fn, nm)
                g = cfg.guards(rn)
                neutral = {a: any(_is_none_test(t, pol, a) for t, pol in g) for a in extra}
                given = {a: any(_is_none_test(t, not pol, a) for t, pol in g) for a in extra}
                if stored:
                    bad = [a for a in extra if not neutral[a]]
                    ok = not bad
                    why = ("stores the list in the cache that gethkls serves by limit alone although it also depends on %s: "
                           "after gethkls_xfab(d, '<space group>') a gethkls(d) with the same limit returns that other list" % ", ".join(bad))
                    if bad:
                        R.check(False, "C03.R5", REL, r.lineno, qual, "return %s cached for any %s" % (nm, ", ".join(bad)), why)
                        continue
                else:
                    ok = bool(extra) and all(given[a] for a in extra) and not any(cfg.dominates(cfg.node_of(s), rn) for s in st + lm)
                    why = "returns a list that was not stored as self.peaks with self.limit = dsmax"
                    if not ok and extra and st and lm:
                        # one return after a conditional store: 'if spg is None: self.peaks = peaks; self.limit = dsmax' and then
                        # 'return peaks' - cached exactly where every extra argument has its neutral value
                        def under_neutral(stmt_):
                            g_ = cfg.guards(cfg.node_of(stmt_))
                            return all(any(_is_none_test(t_, p_, a) for t_, p_ in g_) for a in extra)
                        ok = all(under_neutral(s_) for s_ in st[:1] + lm[:1]) and all(s_.lineno < r.lineno for s_ in st[:1] + lm[:1])
            else:
                why = "returns %s, which is neither the cached list nor a freshly cached one" % v
            R.check(ok, "C03.R5", REL, r.lineno, qual, "return %s" % v[:60],
                    why + ": makerings stores the returned list in self.peaks while self.limit keeps the older value, so later requests "
                    "are served from a truncated list")
    # writers of self.peaks outside the generators
    cls = m.cls("unitcell")
    for fnn in [n for n in cls.body if isinstance(n, ast.FunctionDef)]:
        for a in ast.walk(fnn):
            if isinstance(a, ast.Assign) and any(src(t) == "self.peaks" for t in a.targets):
                if fnn.name in ("gethkls", "gethkls_xfab", "__init__"):
                    continue
                ok = isinstance(a.value, ast.Call) and src(a.value.func) == "self.gethkls"
                R.check(ok, "C03.R5", REL, a.lineno, "unitcell.%s" % fnn.name, "self.peaks = %s" % src(a.value)[:50],
                        "the peak cache is overwritten outside the generators with something that is not gethkls' own result")
